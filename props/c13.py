"""C13 — operations leave their inputs untouched and treat keys independently.

Parts:
  merge    DcmMetaExtension.from_sequence: to_json() of every input before / after the merge and after a SECOND merge of
           the same input objects (a result sharing lists with an input pollutes the second merge), the merge of the
           inputs projected to every single key, and the merge of the inputs with shuffled key order.
           Coq: Ext/OpsCorr.v check_local_merge (model results for the full, projected and shuffled inputs).
  subset   the same for get_subset.
  wrap     NiftiWrapper.split / NiftiWrapper.from_sequence along every axis (spatial axes with non-unit spacing included):
           data bytes, affine, sform / qform, slice dim_info and extension JSON of every input image before / after.
           Oracle only (heap effects are not expressible in the functional model: C13(a) is partial in Coq).
  conv     "conversion leaves its inputs unchanged": a generated series is added to a DicomStack and converted three times;
           every input pydicom data set (all elements, pixel bytes) and every metadata dictionary handed to add_dcm is
           compared BY VALUE before / after.  Oracle only.
Snapshots are values (parsed JSON), never text: dictionary order is not part of the property."""
import copy, json
from vlib.coqlit import clist, cpair, cstr
from props import extlib as X
from props.extlib import (keys_of, build_ext, ext_to_json, ext_to_coq, obs_to_coq, merge_case_to_coq, subset_case_to_coq,
                          gen_affine, gen_shape, gen_ext, shape_family, trailing1)

ID = 'C13'
COQ_PROPS = 'Props/C13.v'
THEOREMS = ['C13_key_local', 'C13_key_local_merge', 'C13_key_local_subset', 'C13_key_order_merge', 'C13_key_order_subset', 'C13_key_order_perm',
            ]
ALLOWED_AXIOMS = []
TABLES = ['t_classes', 't_ext_tol']
TRUSTED_BASE = [
    'hand-written Gallina model coq/Ext/Model.v of from_sequence / get_subset (per-key functions mapped over the union of keys), '
    'tied to the code by Ext/OpsCorr.v check_local_merge / check_local_subset on full, projected and shuffled inputs',
    'C13(a) inputs untouched: NOT expressible in the functional model (in-place removal / restoration of per-slice dictionaries '
    'in _insert, deepcopy omissions, shared lists, numpy views); covered only by the run-time snapshots of this harness '
    '(C13_inputs_returned_partial is labelled partial)']
ASSUMPTIONS = [
    'inputs are valid, nondegenerate, of equal shape (merge) and outside the regions of the open findings N1-N4',
    'key locality is proved one way: when the full operation succeeds, the operation on the inputs projected to key k succeeds '
    'and equals the projection of the full result (an error caused by ANOTHER key makes the full operation fail as a whole)',
    'results are compared as unordered maps (to_json snapshots of inputs are compared literally, key order included)',
    'values: Python == coincides with structural equality on the generated values']


def proj(E, k):
    F = copy.deepcopy(E)
    F['entries'] = [e for e in F['entries'] if e[0] == k]
    return F


def shuffled(E, perm_seed):
    import random
    F = copy.deepcopy(E)
    random.Random(perm_seed).shuffle(F['entries'])
    if len(F['entries']) > 1 and F['entries'] == E['entries']:
        F['entries'] = F['entries'][1:] + F['entries'][:1]
    return F


def build_ext_ordered(E):
    """like extlib.build_ext, entries inserted in the order given (extlib sorts nothing either; kept explicit)"""
    return build_ext(E)


def _err_obs(e):
    if hasattr(X, 'exc_obs'):
        return X.exc_obs(e)
    name = type(e).__name__
    if isinstance(e, getattr(X, 'AbstractionError', ())) or (name == 'ValueError' and str(e).startswith('abs:')):
        return {'err': 'ECrash', 'exc': 'Abstraction', 'msg': str(e)[:200]}
    return {'err': X.ERRMAP.get(name, 'ECrash'), 'exc': name, 'msg': str(e)[:200]}


def _snap(ext):
    """the observable content of an extension as a VALUE (parsed JSON: dictionaries compare as maps, not by text / key order)"""
    try:
        return json.loads(ext.to_json())
    except Exception as e:      # noqa: BLE001  (an input the operation has corrupted may not even serialise any more)
        held = []
        try:
            for cls in ext.get_valid_classes():
                held.append([list(cls), X._plain(dict(ext.get_class_dict(cls)))])
        except Exception:       # noqa: BLE001
            pass
        return ['UNSERIALISABLE', type(e).__name__, [int(x) for x in ext.shape], held]


# ------------------------------------------------------------------------------------------ merge

def run_local_merge(case):
    np, dcmmeta = X._imports()
    aff = None if case.get('aff') is None else np.array(case['aff'], dtype=float)

    def merge_objs(exts):
        return dcmmeta.DcmMetaExtension.from_sequence(exts, case['dim'], aff, case.get('sdim_arg'))

    def merge_fresh(Es):
        def go():
            return {'ext': ext_to_json(merge_objs([build_ext(E) for E in Es]))}
        return X._guard(go)

    out = {}
    exts = [build_ext(E) for E in case['exts']]
    before = [_snap(x) for x in exts]
    try:
        r = merge_objs(exts)
        out['full'] = {'ext': ext_to_json(r)}
    except Exception as e:      # noqa: BLE001
        r = None
        out['full'] = _err_obs(e)
    out['untouched'] = [_snap(x) == b for x, b in zip(exts, before)]
    if r is not None:
        # the same input OBJECTS once more: a first result sharing lists with an input would have changed that input
        try:
            r2 = merge_objs(exts)
            out['reuse_same'] = ext_to_json(r2) == out['full']['ext']
        except Exception as e:      # noqa: BLE001
            out['reuse_same'] = False
            out['reuse_exc'] = type(e).__name__
        out['untouched2'] = [_snap(x) == b for x, b in zip(exts, before)]
        # growing the first result in place must not reach the inputs either
        out['result_after_reuse'] = ext_to_json(r) == out['full']['ext']
    out['proj'] = [[k, merge_fresh([proj(E, k) for E in case['exts']])] for k in keys_of(*case['exts'])]
    out['shuf'] = merge_fresh([shuffled(E, case['perm'] + i) for i, E in enumerate(case['exts'])])
    return out


def local_merge_to_coq(case, obs):
    projs = clist(cpair(cstr(k), obs_to_coq(o)) for k, o in obs['proj'])
    shuf = cpair(clist(ext_to_coq(shuffled(E, case['perm'] + i)) for i, E in enumerate(case['exts'])), obs_to_coq(obs['shuf']))
    return '(mk_local_merge_case %s %s %s)' % (merge_case_to_coq(case, obs['full']), projs, shuf)


def restrict(R, k):
    return [e for e in R['entries'] if e[0] == k]


def hdr_of(R):
    return {f: R[f] for f in ('shape', 'sdim', 'aff', 'ht', 'hv')}


def oracle_local(case, obs, what, n_inputs):
    if 'crash' in obs:
        return 'harness: %s' % obs.get('msg')
    for i, u in enumerate(obs.get('untouched', [])):
        if not u:
            return '%s modified input %d (its to_json() differs afterwards)' % (what, i)
    full = obs['full']
    if 'ext' in full:
        if obs.get('reuse_same') is False:
            return 'a second %s of the same input objects gives a different result (%s)' % (what, obs.get('reuse_exc', 'values differ'))
        for i, u in enumerate(obs.get('untouched2', [])):
            if not u:
                return 'the second %s of the same objects modified input %d' % (what, i)
        if obs.get('result_after_reuse') is False:
            return 'the first result changed when its inputs were used again (shared lists)'
        R = full['ext']
        for k, o in obs['proj']:
            if 'ext' not in o:
                return 'key %r: %s of the inputs projected to this key raised %s although the full %s succeeded' % (k, what, o.get('exc'), what)
            P = o['ext']
            if hdr_of(P) != hdr_of(R):
                return 'key %r: the header of the projected %s differs from the full one' % (k, what)
            if P['entries'] != restrict(R, k):
                return ('key %r: the full result says %r, the result of the inputs restricted to this key says %r'
                        % (k, restrict(R, k), P['entries']))
        S = obs['shuf']
        if 'ext' not in S:
            return '%s of the inputs with another key order raised %s' % (what, S.get('exc'))
        if S['ext'] != R:
            return '%s depends on the key order of its inputs' % what
    else:
        S = obs['shuf']
        if 'ext' in S:
            return '%s raised %s, but succeeds with another key order of the inputs' % (what, full.get('exc'))
    return None


class MergePart:
    NAME = 'merge'
    CORR_REQUIRE = 'From DV Require Import Common.Jv Ext.Types Ext.Model Ext.Corr Ext.OpsCorr.'
    CORR_CASE_TYPE = 'local_merge_case'
    CORR_CHECK = 'check_local_merge'
    CORR_SHOW = 'show_local_merge'
    SHARD = 40
    IMPL_TIMEOUT = 30
    RULE = ('merge cases of the C03 generator (2..5 inputs = restrictions of random total functions, all merge dims, 3-5 D incl. '
            '(X,Y,Z,1,V), widened classes, keys missing from some inputs, differing slice normals), a part of them with an input '
            'whose ("global","const") dictionary is empty while other keys exist; per case: snapshots of every input around two '
            'consecutive merges of the same objects, one merge per key of the inputs projected to that key, one merge with '
            'shuffled key orders; non-trivial = at least two keys or a varying key')

    @staticmethod
    def gen_cases(rng, tier):
        n = 600 if tier == 'quick' else 4000
        out = []
        for _ in range(n):
            c = X.gen_merge_case(rng, tier)
            r = rng.random()
            if r < 0.3 and len(c['exts']) >= 2:
                # one input (never the only holder of a varying key) loses its constants; the other keys stay
                j = rng.randrange(len(c['exts']))
                E = c['exts'][j]
                if any(cl != 'GConst' for _, cl, _ in E['entries']):
                    E['entries'] = [e for e in E['entries'] if e[1] != 'GConst']
                    c['kind'] += '/noconst'
            c['perm'] = rng.randrange(1 << 30)
            out.append(c)
        return out

    run_impl = staticmethod(run_local_merge)
    coq_case = staticmethod(local_merge_to_coq)

    @staticmethod
    def oracle(case, obs):
        return oracle_local(case, obs, 'from_sequence', len(case['exts']))

    @staticmethod
    def signature(case, obs, msg):
        full = obs.get('full', {}) if isinstance(obs, dict) else {}
        return X.finding_sig_merge(case, full) or 'local-merge/%s/dim%d' % (shape_family(case['exts'][0]['shape']), case['dim'])

    @staticmethod
    def nontrivial(case, obs):
        ks = keys_of(*case['exts'])
        return len(ks) >= 2 or any(c != 'GConst' for E in case['exts'] for _, c, _ in E['entries'])

    @staticmethod
    def shrink(case):
        for c in X.MergePart.shrink(case):
            c['perm'] = case['perm']
            yield c


# ------------------------------------------------------------------------------------------ subset

def run_local_subset(case):
    def sub_fresh(E):
        def go():
            return {'ext': ext_to_json(build_ext(E).get_subset(case['dim'], case['idx']))}
        return X._guard(go)

    out = {}
    ext = build_ext(case['ext'])
    before = _snap(ext)
    try:
        r = ext.get_subset(case['dim'], case['idx'])
        out['full'] = {'ext': ext_to_json(r)}
    except Exception as e:      # noqa: BLE001
        r = None
        out['full'] = _err_obs(e)
    out['untouched'] = [_snap(ext) == before]
    if r is not None:
        try:
            r2 = ext.get_subset(case['dim'], case['idx'])
            out['reuse_same'] = ext_to_json(r2) == out['full']['ext']
        except Exception as e:      # noqa: BLE001
            out['reuse_same'] = False
            out['reuse_exc'] = type(e).__name__
        # filling the piece must not reach the parent (shared lists): clear the piece, look at the parent again
        for cls in r.get_valid_classes():
            d = r.get_class_dict(cls)
            for k in list(d):
                if isinstance(d[k], list):
                    del d[k][:]
        out['untouched2'] = [_snap(ext) == before]
    out['proj'] = [[k, sub_fresh(proj(case['ext'], k))] for k in keys_of(case['ext'])]
    out['shuf'] = sub_fresh(shuffled(case['ext'], case['perm']))
    return out


def local_subset_to_coq(case, obs):
    projs = clist(cpair(cstr(k), obs_to_coq(o)) for k, o in obs['proj'])
    shuf = cpair(ext_to_coq(shuffled(case['ext'], case['perm'])), obs_to_coq(obs['shuf']))
    return '(mk_local_subset_case %s %s %s)' % (subset_case_to_coq(case, obs['full']), projs, shuf)


class SubsetPart:
    NAME = 'subset'
    CORR_REQUIRE = 'From DV Require Import Common.Jv Ext.Types Ext.Model Ext.Corr Ext.OpsCorr.'
    CORR_CASE_TYPE = 'local_subset_case'
    CORR_CHECK = 'check_local_subset'
    CORR_SHOW = 'show_local_subset'
    SHARD = 80
    IMPL_TIMEOUT = 30
    RULE = ('subset cases of the C04 generator (3-5 D, every class, widened, list / nested values), every (dim, idx) of a part of '
            'them; snapshots of the parent around two subsets and after emptying the value lists of the piece, one subset per key '
            'of the parent projected to that key, one subset of the parent with shuffled key order')

    @staticmethod
    def gen_cases(rng, tier):
        n_rand, n_all = (450, 25) if tier == 'quick' else (3000, 250)
        cases = [X.gen_subset_case(rng, tier) for _ in range(n_rand)]
        for _ in range(n_all):
            E = gen_ext(rng, tier, widen=rng.choice([0.0, 0.5]))
            cases += X.gen_subset_all(E)
        for c in cases:
            c['perm'] = rng.randrange(1 << 30)
        return cases

    run_impl = staticmethod(run_local_subset)
    coq_case = staticmethod(local_subset_to_coq)

    @staticmethod
    def oracle(case, obs):
        return oracle_local(case, obs, 'get_subset', 1)

    @staticmethod
    def signature(case, obs, msg):
        full = obs.get('full', {}) if isinstance(obs, dict) else {}
        return X.finding_sig_subset(case, full) or 'local-subset/%s/dim%d' % (shape_family(case['ext']['shape']), case['dim'])

    @staticmethod
    def nontrivial(case, obs):
        return len(case['ext']['entries']) >= 2 or any(c != 'GConst' for _, c, _ in case['ext']['entries'])

    @staticmethod
    def shrink(case):
        for F in X.shrink_E(case['ext']):
            c = dict(case)
            c['ext'] = F
            yield c


# ------------------------------------------------------------------------------------------ image level snapshots (oracle only)

def _wsnap(w):
    np, _ = X._imports()
    nii = w.nii_img
    hdr = nii.header
    return {'data': np.asanyarray(nii.dataobj).tobytes().hex(), 'shape': [int(x) for x in nii.shape],
            'aff': [[float(x) for x in r] for r in nii.affine],
            'sform': [[float(x) for x in r] for r in hdr.get_sform()], 'qform': [[float(x) for x in r] for r in hdr.get_qform()],
            'codes': [int(hdr['sform_code']), int(hdr['qform_code'])],
            'dim_info': [None if x is None else int(x) for x in hdr.get_dim_info()],
            'ext': _snap(w.meta_ext)}


def run_wrap(case):
    def go():
        np, dcmmeta = X._imports()
        w = X.build_data_wrapper(case['ext'], case['img'])
        s0 = _wsnap(w)
        pieces = list(w.split(case['dim']))
        out = {'parent_untouched': _wsnap(w) == s0, 'n_pieces': len(pieces)}
        ps0 = [_wsnap(p) for p in pieces]
        try:
            m = dcmmeta.NiftiWrapper.from_sequence(pieces, case['dim'])
            out['merged'] = True
            out['merged_ext'] = ext_to_json(m.meta_ext)
        except Exception as e:      # noqa: BLE001
            out['merged'] = False
            out['merge_exc'] = type(e).__name__
        out['pieces_untouched'] = [_wsnap(p) == s for p, s in zip(pieces, ps0)]
        out['parent_untouched2'] = _wsnap(w) == s0
        if out['merged']:
            try:
                m2 = dcmmeta.NiftiWrapper.from_sequence(pieces, case['dim'])
                out['reuse_same'] = ext_to_json(m2.meta_ext) == out['merged_ext'] and \
                    np.array_equal(np.asanyarray(m2.nii_img.dataobj), np.asanyarray(m.nii_img.dataobj))
            except Exception as e:      # noqa: BLE001
                out['reuse_same'] = False
            out['pieces_untouched2'] = [_wsnap(p) == s for p, s in zip(pieces, ps0)]
        out.pop('merged_ext', None)
        return out
    r = X._guard(go)
    return r


def oracle_wrap(case, obs):
    if 'crash' in obs:
        return 'harness: %s' % obs.get('msg')
    if 'err' in obs:
        return None         # split itself failing is C04's business (open finding N2 on trailing-singleton shapes)
    if not obs['parent_untouched'] or not obs.get('parent_untouched2', True):
        return 'NiftiWrapper.split(%d) modified its input image / header / extension' % case['dim']
    for key in ('pieces_untouched', 'pieces_untouched2'):
        for i, u in enumerate(obs.get(key, [])):
            if not u:
                return 'NiftiWrapper.from_sequence along dim %d modified input %d (data, affine, header affines or extension)' % (case['dim'], i)
    if obs.get('merged') and obs.get('reuse_same') is False:
        return 'a second NiftiWrapper.from_sequence of the same input objects gives a different result'
    return None


class WrapPart:
    NAME = 'wrap'
    CORR_CHECK = None
    IMPL_TIMEOUT = 40
    RULE = ('extended images (voxel data = own index, diagonal / permuted / dense dyadic affines with non-unit spacing) split along '
            'every dimension, then NiftiWrapper.from_sequence of the pieces, twice; snapshots (data bytes, affine, sform, qform, '
            'codes, dim_info, extension JSON) of the parent and of every piece before / after; oracle only')

    @staticmethod
    def gen_cases(rng, tier):
        out = []
        for _ in range(80 if tier == 'quick' else 500):
            sh, sdim = gen_shape(rng, tier)
            aff = gen_affine(rng, rng.choice(['diag', 'perm', 'dense']))
            E = gen_ext(rng, tier, shape=sh, sdim=sdim, aff=aff, nkeys=rng.randint(1, 4), widen=rng.choice([0.0, 0.4]))
            for dim in range(len(sh)):
                if rng.random() < 0.6:
                    out.append({'kind': 'wrap/dim%d/%dD' % (dim, len(sh)), 'ext': E, 'dim': dim,
                                'img': {'shape': list(sh), 'slice': sdim, 'aff': copy.deepcopy(aff)}})
        return out

    run_impl = staticmethod(run_wrap)
    oracle = staticmethod(oracle_wrap)

    @staticmethod
    def signature(case, obs, msg):
        return 'wrap-snapshot/%s' % ('split' if 'split' in msg else 'merge-twice' if 'second' in msg else 'merge')

    @staticmethod
    def nontrivial(case, obs):
        # the pieces were merged and every snapshot comparison was made
        return isinstance(obs, dict) and bool(obs.get('merged')) and obs.get('n_pieces', 0) >= 2

    @staticmethod
    def shrink(case):
        for F in X.shrink_E(case['ext']):
            c = dict(case)
            c['ext'] = F
            yield c


# ------------------------------------------------------------------------------------------ conversion leaves its inputs unchanged

from props import convmeta as M          # noqa: E402  (read-only: series generators)
from props import stacklib as L          # noqa: E402


def _ds_value(ds):
    """a pydicom data set as a plain value: (tag, VR, value) of every element, pixel bytes included"""
    out = []
    for el in ds:
        v = el.value
        if isinstance(v, (bytes, bytearray)):
            v = ['bytes', bytes(v).hex()]
        elif el.VR == 'SQ':
            v = [_ds_value(item) for item in v]
        else:
            try:
                v = [str(x) for x in v] if not isinstance(v, (str, int, float)) and hasattr(v, '__iter__') else str(v)
            except Exception:       # noqa: BLE001
                v = repr(v)
        out.append([int(el.tag), str(el.VR), v])
    return out


def _pix_value(ds):
    """what a caller who has looked at the image sees of the data set's (cached) pixel array, and of the array nibabel's
    DICOM wrapper hands out for it: shape, dtype, writeable flag, strides, values"""
    import numpy as np
    from nibabel.nicom.dicomwrappers import wrapper_from_data
    a = ds.pixel_array
    out = {'shape': [int(x) for x in a.shape], 'dtype': str(a.dtype), 'writeable': bool(a.flags.writeable),
           'strides': [int(x) for x in a.strides], 'values': [int(x) for x in np.asarray(a).ravel()]}
    try:
        d = wrapper_from_data(ds).get_data()
        out['nicom'] = {'shape': [int(x) for x in d.shape], 'dtype': str(d.dtype), 'values': [float(x) for x in np.asarray(d).ravel()]}
    except Exception as e:      # noqa: BLE001
        out['nicom'] = {'exc': type(e).__name__}
    return out


def _input_changes(fid, ds, ds0, pix0, meta, meta0):
    ch = []
    if _ds_value(ds) != ds0:
        ch.append(['dataset (elements)', fid])
    p = _pix_value(ds)
    if p != pix0:
        diff = [k for k in sorted(p) if p[k] != pix0.get(k)]
        ch.append(['dataset (pixel array: %s; e.g. %s %r -> %r)' % (', '.join(diff), diff[0], pix0.get(diff[0]) if diff[0] != 'values' else '...',
                                                                  p[diff[0]] if diff[0] != 'values' else '...'), fid])
    if meta is not None and M.plain(meta) != meta0:
        ch.append(['metadata dictionary', fid])
    return ch


def run_conv(case):
    """Build the series, add every file (hand-built or extracted metadata), convert twice (with and without embedding, the
    requested voxel order and none): every input data set, every metadata dictionary handed to add_dcm and the extension the
    stack made for every file must be the same VALUE afterwards."""
    import warnings
    warnings.simplefilter('ignore')
    import dcmstack
    st = dcmstack.DicomStack(time_order=L.make_ordering(dcmstack, case.get('time_order')),
                             vector_order=L.make_ordering(dcmstack, case.get('vector_order')),
                             meta_filter=M.make_filter(dcmstack, case['filter']))
    inputs = []
    changed_by_add = []
    for i in case['add_order']:
        spec = case['files'][i]
        ds = M.build_ds(spec)
        rs = case.get('rescale')
        if rs is not None:                      # identity or real rescale (none: the elements are absent)
            ds.RescaleSlope, ds.RescaleIntercept = rs[0], rs[1]
        ds0 = _ds_value(ds)
        pix0 = _pix_value(ds)                   # the caller has looked at the image: the pixel-array cache exists
        if case['meta_mode'] == 'hand':
            meta = M.meta_truth(case, spec)
            meta0 = copy.deepcopy(M.plain(meta))
            st.add_dcm(ds, meta)
        else:
            meta, meta0 = None, None
            st.add_dcm(ds)
        changed_by_add += _input_changes(spec['id'], ds, ds0, pix0, meta, meta0)
        inputs.append((spec['id'], ds, ds0, pix0, meta, meta0))
    out = {'changed_by_add': changed_by_add, 'steps': []}
    for name, f in (('to_nifti(%r, embed_meta=True)' % case['vo'], lambda: st.to_nifti(case['vo'], embed_meta=True)),
                    ('to_nifti_wrapper(%r)' % '', lambda: st.to_nifti_wrapper('')),
                    ('to_nifti(%r, embed_meta=False)' % case['vo'], lambda: st.to_nifti(case['vo'], embed_meta=False)),
                    ('NiftiWrapper.from_dicom(first data set)', lambda: _from_dicom(inputs[0][1]))):
        step = {'step': name, 'changed': []}
        try:
            f()
        except Exception as e:      # noqa: BLE001
            step['exc'] = type(e).__name__
        for fid, ds, ds0, pix0, meta, meta0 in inputs:
            step['changed'] += _input_changes(fid, ds, ds0, pix0, meta, meta0)
        out['steps'].append(step)
    return out


def _from_dicom(ds):
    from dcmstack import dcmmeta
    return dcmmeta.NiftiWrapper.from_dicom(ds)


def oracle_conv(case, obs):
    if 'crash' in obs:
        return 'harness: %s' % obs.get('msg')
    for what, fid in obs.get('changed_by_add', []):
        return 'add_dcm modified the %s of file %d' % (what, fid)
    for s in obs['steps']:
        for what, fid in s['changed']:
            return '%s modified the %s of file %d' % (s['step'].split('(')[0], what, fid)
    return None


class ConvPart:
    NAME = 'conv'
    CORR_CHECK = None
    IMPL_TIMEOUT = 120
    RULE = ('synthetic complete series (C01 generators: 3-5 D, every orientation / voxel order, hand-built and extracted metadata), '
            'added to a DicomStack and converted three times (embedding on / off, with and without voxel reordering); every input '
            'pydicom data set (all elements incl. pixel bytes; its cached pixel_array - touched beforehand, as a caller who looked at '
            'the image would have - and the array nibabel hands out for it: shape, dtype, writeable, strides, values; without, with '
            'identity and with real rescale elements) and every metadata dictionary handed to add_dcm is compared by value '
            'before / after add_dcm and after every conversion; oracle only; non-trivial = at least two files and a conversion ran')

    @staticmethod
    def gen_cases(rng, tier):
        out = []
        for _ in range(50 if tier == 'quick' else 400):
            c = M.gen_case(rng, tier, shape_class=rng.choice([None, None, '5d', 'vec_t1', '3d']))
            # no rescale elements / identity rescale (nibabel then hands out pydicom's cached array itself) / real rescale
            c['rescale'] = rng.choice([None, None, [1.0, 0.0], [2.0, 1.0]])
            c['kind'] = 'conv/%s/%s' % ({None: 'no-rescale', 1.0: 'identity-rescale', 2.0: 'rescale'}[c['rescale'] and c['rescale'][0]], c['kind'])
            out.append(c)
        return out

    run_impl = staticmethod(run_conv)
    oracle = staticmethod(oracle_conv)

    @staticmethod
    def signature(case, obs, msg):
        return 'conv-inputs/%s/%s' % (msg.split(' ')[0].split('(')[0], 'pixel-array' if 'pixel array' in msg else
                                     'dataset' if 'dataset' in msg else 'metadata')

    @staticmethod
    def nontrivial(case, obs):
        return isinstance(obs, dict) and len(case['files']) >= 2 and any('exc' not in s for s in obs.get('steps', []))

    @staticmethod
    def shrink(case):
        return M.shrink(case)


# ------------------------------------------------------------------------------------------ merges along an axis the inputs already have as a singleton

def _gen_single_ext(rng, shape, sdim, aff, sample_cls, j):
    """valid extension on a shape whose last axis is singular, with keys in the SAMPLES class of that axis (stored as
    1-element lists: multiplicity one, outside the nondegenerate domain of the Coq model, but well inside what the library
    supports: a later merge along that axis extends exactly these lists) plus constants and per-slice keys"""
    d = X.dims({'shape': shape, 'sdim': sdim})
    ents = {'samp_a': (sample_cls, [rng.choice([1, 2, 3]) + 10 * j] * X.mult(d, sample_cls)),
            'samp_list': (sample_cls, [[j, 'x']] * X.mult(d, sample_cls)),
            'c_same': ('GConst', ['k']), 'c_diff': ('GConst', [j])}
    if rng.random() < 0.5:
        ents['samp_same'] = (sample_cls, ['s'] * X.mult(d, sample_cls))
    if sdim is not None and shape[sdim] > 1 and rng.random() < 0.7:
        ents['per_slice'] = ('GSlices', [j * 100 + i for i in range(X.mult(d, 'GSlices'))])
    if len(shape) == 5 and shape[3] > 1 and rng.random() < 0.6:
        ents['per_time'] = ('TSamples', [j + 0.5 * i for i in range(X.mult(d, 'TSamples'))])
    return X.mk_E(shape, sdim, aff, ents)


def run_single(case):
    """extension level and wrapper level merge of inputs that already HAVE the merge axis (as a singleton): snapshots of every
    input by value around two merges of the same objects; every input must also still be a valid extension"""
    np, dcmmeta = X._imports()
    dim = case['dim']
    out = {}

    def valid(x):
        try:
            x.check_valid()
            return True
        except Exception:       # noqa: BLE001
            return False

    exts = [build_ext(E) for E in case['exts']]
    before = [_snap(x) for x in exts]
    try:
        r = dcmmeta.DcmMetaExtension.from_sequence(exts, dim)
        out['ext_merge'] = {'shape': [int(v) for v in r.shape]}
    except Exception as e:      # noqa: BLE001
        r = None
        out['ext_merge'] = _err_obs(e)
    out['ext_untouched'] = [_snap(x) == b for x, b in zip(exts, before)]
    out['ext_valid'] = [valid(x) for x in exts]
    if r is not None:
        first = ext_to_json(r)
        try:
            out['ext_reuse_same'] = ext_to_json(dcmmeta.DcmMetaExtension.from_sequence(exts, dim)) == first
        except Exception as e:      # noqa: BLE001
            out['ext_reuse_same'] = False
        out['ext_untouched2'] = [_snap(x) == b for x, b in zip(exts, before)]
    ws = [X.build_data_wrapper(E, {'shape': E['shape'], 'slice': E['sdim'], 'aff': E['aff']}) for E in case['exts']]
    wb = [_wsnap(w) for w in ws]
    try:
        m = dcmmeta.NiftiWrapper.from_sequence(ws, dim)
        out['w_merge'] = {'shape': [int(v) for v in m.nii_img.shape]}
    except Exception as e:      # noqa: BLE001
        out['w_merge'] = _err_obs(e)
    out['w_untouched'] = [_wsnap(w) == b for w, b in zip(ws, wb)]
    out['w_valid'] = [valid(w.meta_ext) for w in ws]
    return out


def oracle_single(case, obs):
    if 'crash' in obs:
        return 'harness: %s' % obs.get('msg')
    for key, what in (('ext_untouched', 'DcmMetaExtension.from_sequence'), ('ext_untouched2', 'the second DcmMetaExtension.from_sequence'),
                      ('w_untouched', 'NiftiWrapper.from_sequence')):
        for i, u in enumerate(obs.get(key, [])):
            if not u:
                return '%s along dim %d (an axis the inputs already have as a singleton) modified input %d' % (what, case['dim'], i)
    for key, what in (('ext_valid', 'DcmMetaExtension.from_sequence'), ('w_valid', 'NiftiWrapper.from_sequence')):
        for i, u in enumerate(obs.get(key, [])):
            if not u:
                return 'after %s input %d no longer passes check_valid' % (what, i)
    if obs.get('ext_reuse_same') is False:
        return 'a second merge of the same input objects gives a different result'
    return None


class SingletonAxisPart:
    NAME = 'singleton'
    CORR_CHECK = None
    IMPL_TIMEOUT = 40
    RULE = ('2-4 inputs of shape (X,Y,Z,1) with ("time","samples") keys merged along dim 3, or (X,Y,Z,T,1) with ("vector","samples") '
            'keys merged along dim 4 (the inputs already HAVE the merge axis, so the per-sample lists of the first input are the ones '
            'that would grow), scalar and list values, equal and differing between inputs, plus constants / per-slice / per-time keys; '
            'extension level (twice, same objects) and NiftiWrapper level; snapshots by value and check_valid of every input; oracle '
            'only (varying classes of multiplicity one are outside the nondegenerate domain of the Coq model)')

    @staticmethod
    def gen_cases(rng, tier):
        out = []
        for _ in range(40 if tier == 'quick' else 300):
            sdim = rng.choice([0, 1, 2, 2, None])
            sh = [rng.randint(1, 3) for _ in range(3)]
            if rng.random() < 0.5:
                shape, dim, cls = sh + [1], 3, 'TSamples'
            else:
                shape, dim, cls = sh + [rng.randint(2, 3), 1], 4, 'VSamples'
            aff = gen_affine(rng, rng.choice(['diag', 'perm']))
            n = rng.randint(2, 4)
            out.append({'kind': 'singleton/dim%d/%dD' % (dim, len(shape)), 'dim': dim,
                        'exts': [_gen_single_ext(rng, shape, sdim, aff, cls, j) for j in range(n)]})
        return out

    run_impl = staticmethod(run_single)
    oracle = staticmethod(oracle_single)

    @staticmethod
    def signature(case, obs, msg):
        return 'singleton-axis/%s' % ('modified-input' if 'modified' in msg else 'input-invalid' if 'check_valid' in msg else 'reuse')

    @staticmethod
    def nontrivial(case, obs):
        return isinstance(obs, dict) and ('shape' in obs.get('ext_merge', {}) or 'shape' in obs.get('w_merge', {}))

    @staticmethod
    def shrink(case):
        if len(case['exts']) > 2:
            for i in range(1, len(case['exts'])):
                c = copy.deepcopy(case)
                del c['exts'][i]
                yield c
        for k in keys_of(*case['exts']):
            c = copy.deepcopy(case)
            for E in c['exts']:
                E['entries'] = [e for e in E['entries'] if e[0] != k]
            yield c


PARTS = [MergePart, SubsetPart, WrapPart, ConvPart, SingletonAxisPart]

# image level (integrator): the image-level correspondence parts snapshot every input image (data bytes, affine) and
# input extension before/after NiftiWrapper.from_sequence / split; their 'C13:' oracle messages report a modified input
from props import imglib
PARTS = list(PARTS) + [imglib.for_property(p, 'C13') for p in (imglib.ImgMergePart, imglib.ImgSplitPart)]


# source tie (integrator): the helper functions the extension model rests on are TRANSLATED from the Python AST on every
# run (tools/tables/py2coq.py, t_src_ext.py -> Generated/T_src_ext.v) and the hand models are proved equal to the translation
COQ_PROPS = (list(COQ_PROPS) if isinstance(COQ_PROPS, (list, tuple)) else [COQ_PROPS]) + ['Props/SRC.v']
THEOREMS = list(THEOREMS) + ['SRC_valid_classes', 'SRC_class_valid', 'SRC_multiplicity', 'SRC_is_constant', 'SRC_is_repeating', 'SRC_const_period', 'SRC_n_slices']
TABLES = sorted(set(list(globals().get('TABLES') or ['t_classes', 't_ext_tol']) + ['t_src_ext', 't_classes', 't_ext_tol']))
TRUSTED_BASE = list(TRUSTED_BASE) + ['tools/tables/py2coq.py + t_src_ext.py: typed fail-closed translator of is_constant, is_repeating, get_valid_classes, get_multiplicity, _get_const_period, n_slices into Gallina; coq/Common/PyOps2.v as the meaning of the translated primitives']


# source tie, stage A (integrator): _global_slice_subset and _get_changed_class are TRANSLATED from the AST on every run and the
# hand model (global_slice_subset, changed_class) is proved equal to the translation on stored content (Props/SRCalg.v)
COQ_PROPS = list(COQ_PROPS) + ['Props/SRCalg.v']
THEOREMS = list(THEOREMS) + ['SRC_global_slice_subset', 'SRC_changed_class']


# source tie, stage B (integrator): _change_class / _simplify are TRANSLATED in state-passing form (t_src_state.py) and the per-key
# model (change_class_k, simplify_k) is proved to be a refinement of the translation on the stored content (Props/SRCstate.v)
COQ_PROPS = list(COQ_PROPS) + ['Props/SRCstate.v']
THEOREMS = list(THEOREMS) + ['SRC_change_class', 'SRC_simplify', 'SRC_to_content_holds']
TABLES = sorted(set(list(TABLES) + ['t_src_state', 't_content', 't_cli']))


# source tie, stage C (integrator): _copy_slice is TRANSLATED in state-passing form and copy_slice_k folded over the source class
# dictionary is proved equal to the translation (Props/SRCsubset.v)
COQ_PROPS = list(COQ_PROPS) + ['Props/SRCsubset.v']
THEOREMS = list(THEOREMS) + ['SRC_copy_slice_step', 'SRC_copy_slice']


# source tie, stage C2 (integrator): _copy_sample TRANSLATED in state-passing form; copy_sample_k folded over the source class dictionary
# is proved equal to the translation (Props/SRCsample.v)
COQ_PROPS = list(COQ_PROPS) + ['Props/SRCsample.v']
THEOREMS = list(THEOREMS) + ['SRC_copy_sample_step', 'SRC_copy_sample']


# source tie, stage C3 (integrator): get_subset as a whole TRANSLATED (class-major) and proved to produce, on to_content e, a content that
# Holds exactly the hand model's get_subset result (Props/SRCgetsubset.v, success-case form)
COQ_PROPS = list(COQ_PROPS) + ['Props/SRCgetsubset.v']
THEOREMS = list(THEOREMS) + ['SRC_get_subset_content', 'SRC_get_subset']


# source tie, stage D (integrator): _insert_slice TRANSLATED in state-passing form and proved a refinement of insert_slice_k for the five
# varying classes (Props/SRCinsert.v); the ('global','const') path is translated and executed against the code only
COQ_PROPS = list(COQ_PROPS) + ['Props/SRCinsert.v']
THEOREMS = list(THEOREMS) + ['SRC_insert_slice', 'SRC_insert_non_slice', 'SRC_insert_sample']


# source tie, stage D (integrator): _insert as a whole TRANSLATED and proved to refine insert_k over all keys (success-case form), and the
# reclassification step refines reclassify_k (Props/SRCinsertall.v)
COQ_PROPS = list(COQ_PROPS) + ['Props/SRCinsertall.v']
THEOREMS = list(THEOREMS) + ['SRC_insert', 'SRC_reclassify']


# source tie, stage D (integrator): from_sequence as a whole TRANSLATED and proved to refine merge_hdr + merge_k over all keys
# (success-case form) (Props/SRCfromseq.v)
COQ_PROPS = list(COQ_PROPS) + ['Props/SRCfromseq.v']
THEOREMS = list(THEOREMS) + ['SRC_from_sequence', 'SRC_merge_hdr']


# source tie, end to end (integrator): Props/SRCtop.v composes the translated get_subset / from_sequence with Link.Abs.to_content:
# for valid nondegenerate extensions the code's method on to_content e returns a content that Holds exactly the hand model's result
COQ_PROPS = list(COQ_PROPS) + ['Props/SRCtop.v']
THEOREMS = list(THEOREMS) + ['SRC_top_get_subset', 'SRC_top_get_subset_valid', 'SRC_sideb_sound', 'SRC_top_from_sequence', 'SRC_top_from_sequence_valid', 'SRC_traj_okb_sound', 'SRC_from_sequence_ext', 'SRC_valid_inputs']
