"""Generators, implementation runner, Coq printers and oracles for the METADATA half of DicomStack.to_nifti
(model: coq/Conv/Meta.v, glue: coq/Conv/CorrMeta.v).  Used by props/c01.py (C01) and, through `KeySetPart`, by
C14 (dev plugin props/c14conv.py).

A case =  stacklib case header ('time_order', 'vector_order') +
  'files'     : stacklib file specs; each with 'extra': {key: value} (hand-built metadata; a key absent from the
                dict is a key the file lacks, a value None is the Python None)
  'add_order' : indices into files
  'meta_mode' : 'hand'    -> add_dcm(ds, meta) with meta = the DATASET's values (from the spec, `spec_truth`) of the keys
                             the sorter needs (PixelSpacing, ImageOrientationPatient, Rows, Columns, every tag) + 'extra'
                'extract' -> add_dcm(ds) (dcmstack's own extraction); a spec may carry 'elements' (a sequence, Siemens
                             CSA headers, untranslated private elements) put into the data set after stacklib.build_ds
  GROUND TRUTH of both modes is `gen_truth(case)`: computed from the case alone (what the generator put into the data
  set / dictionary), never from the library; the dictionaries really handed to the embed step (obs['truth'], model
  input) are compared with it by a separate clause of the oracles.
  'vo'        : voxel order string ('' = no reordering);  'via': 'wrapper' | 'nifti'
  'filter'    : {'mode': 'default'} | {'mode': 'default+extra', 'xe': [...], 'xi': [...]} | {'mode': 'none'} |
                {'mode': 'lambda', 'name': n} | {'mode': 'regex', 'excl': [...], 'incl': [...] | None}
Nothing here imports dcmstack at module level."""
import os, sys, copy, itertools, re
from fractions import Fraction

from vlib.coqlit import cnat, cz, cbool, clist, copt, cpair, cstr, cq, cjv
from props import stacklib as L
from props import extlib as X

N9_SIG = 'c01-slice-normal-tolerance'
MANDATORY = ['PixelSpacing', 'ImageOrientationPatient', 'Rows', 'Columns']

# What the property text pins about the DEFAULT filter lives in props/c14lib.py (shared with props/c14.py Filt.oracle, so both
# oracles agree on which names are mandatory): NAMED = the shipped exclude literals (a LOWER bound), GEOMETRY = the two names
# that may survive (an UPPER bound on what the include list may rescue, and by the text also a lower bound).  No oracle
# reads the lists back from the library.
from props import c14lib
SHIPPED_EXCL = c14lib.NAMED
SHIPPED_INCL = c14lib.GEOMETRY


def shipped_must_keep(key, xi=()):
    """the default-derived filter must KEEP this key (image position / orientation, or an extra -i pattern matches)"""
    return c14lib.is_geometry(key) or any(re.search(i, key) for i in xi)


def shipped_must_remove(key, xe=(), xi=()):
    """the default-derived filter must REMOVE this key: it contains a shipped exclude literal (or an extra exclude
    pattern matches) and nothing rescues it"""
    if shipped_must_keep(key, xi):
        return False
    return c14lib.default_must_filter(key) is True or any(re.search(e, key) for e in xe)


def default_verdict_ok(key, filtered, xe=(), xi=()):
    """None when `filtered` (the real default-derived filter's verdict) is compatible with the shipped lists, else why not"""
    if shipped_must_keep(key, xi) and filtered:
        return 'filters out a force-included key'
    if shipped_must_remove(key, xe, xi) and not filtered:
        return 'keeps a key that matches a shipped exclude literal and no include pattern'
    return None


def spec_verdict(fspec, key):
    """exclude-unless-included, from the case's filter description alone; None for the default-derived filters (bounds only)"""
    m = fspec['mode']
    if m == 'none':
        return False
    if m == 'lambda':
        return bool(LAMBDAS[fspec['name']](key))
    if m == 'regex':
        hit = any(re.search(e, key) for e in fspec['excl'])
        inc = bool(fspec['incl']) and any(re.search(i, key) for i in fspec['incl'])
        return hit and not inc
    return None

ALL_ORDERS = [''] + [''.join(p) for axes in itertools.permutations(['LR', 'AP', 'SI'])
                     for p in itertools.product(*axes)]                     # '' + the 48 codes

LAMBDAS = {
    'none': lambda k: False,
    'lower_first': lambda k: k[:1].islower(),
    'has_e': lambda k: 'e' in k,
    'long': lambda k: len(k) > 12,
    'all': lambda k: True,
}

# keys of the hand-built dictionaries: names the default filter excludes / force-includes / ignores
HAND_KEYS = ['PatientName', 'SOPInstanceUID', 'StationName', 'ImagePositionPatient', 'CsaImage.TimeAfterStart',
             'CsaSeries.UsedPatientWeight', 'CsaImage.ImageOrientationPatient', 'SeriesDescription', 'kx', 'ky', 'nest',
             'InstitutionAddress', 'StudyDate', 'ImageComments',
             # private-style, translator-prefixed, arbitrary and non-ASCII names (the filter sees them in every classification)
             'Private_0029_1010', '[CSA Image Header Info]', 'CsaSeries.MrPhoenixProtocol.sPat.lPatientAge', 'PrivateTagData',
             '0X29_0X1010', 'cl\u00e9_\u00df\u4e2d', 'Pati\u00ebntName', ' spaced key ', 'a.b|c(d)', 'UIDx']
PATTERNS = ['const', 'v', 't', 'tv', 's', 'st', 'cell', 'rcell', 'missing', 'nonesome', 'allnone', 'absent_vol']
VTYPES = ['int', 'str', 'float', 'list', 'bool', 'elist', 'edict', 'dict']
KEY_ALPHABET = 'abcePatientDateUIDxyz_.0123 \u00e9\u00df\u4e2d[]^$'


def random_key(rng):
    return ''.join(rng.choice(KEY_ALPHABET) for _ in range(rng.randrange(1, 12)))


def mkval(vtype, x):
    """value number x (small non-negative int) of the given type; one type per key, so Python == is structural"""
    if vtype == 'int':
        return int(x)
    if vtype == 'str':
        return 'v%d' % x
    if vtype == 'float':
        return x / 4.0 + 0.5
    if vtype == 'list':
        return [float(x), 1.5, -float(x % 3)]
    if vtype == 'bool':
        return bool(x % 2)
    if vtype == 'elist':                 # the empty list is a value like any other
        return [] if x % 2 else [int(x)]
    if vtype == 'edict':
        return {} if x % 2 else {'n': int(x)}
    return {'a': int(x), 'b': [int(x % 2), 'q'], 'c': {'d': None}, 'e': [], 'f': {}, 'g': bool(x % 2)}


def pattern_value(rng, pat, vtype, cell, dims, perm):
    """-> (present, value)"""
    s, t, v = cell
    S, T, V = dims
    idx = s + S * (t + T * v)
    if pat == 'allnone':
        return True, None
    if pat == 'missing':
        return (perm[idx] % 3 != 0), mkval(vtype, perm[idx] % 2)
    if pat == 'nonesome':
        return True, (None if perm[idx] % 3 == 0 else mkval(vtype, 1 + t))
    if pat == 'absent_vol':
        return (t + v) % 2 == 0, mkval(vtype, 7)
    x = {'const': 3, 'v': 1 + 2 * v, 't': 2 + 3 * t, 'tv': 1 + t + T * v, 's': 1 + s, 'st': 1 + s + S * t,
         'cell': 1 + idx, 'rcell': 1 + perm[idx]}[pat]
    return True, mkval(vtype, x)


def add_hand_meta(rng, files, dims, nkeys):
    S, T, V = dims
    n = S * T * V
    perm = list(range(n))
    rng.shuffle(perm)
    keys = rng.sample(HAND_KEYS, min(nkeys, len(HAND_KEYS)))
    for _ in range(rng.choice([0, 0, 1, 2])):
        k = random_key(rng)
        if k not in keys and k not in MANDATORY and k not in files[0]['tags'] and k not in L.GUESS_TAGS:
            keys.append(k)
    plan = []
    for k in keys:
        pat = rng.choice(PATTERNS)
        vtype = 'dict' if k == 'nest' else ('list' if 'Position' in k or 'Orientation' in k else rng.choice(VTYPES[:7]))
        plan.append((k, pat, vtype))
    for f in files:
        ex = {}
        for k, pat, vtype in plan:
            present, val = pattern_value(rng, pat, vtype, f['cell'], dims, perm)
            if present:
                ex[k] = val
        f['extra'] = ex
    return [[k, p, vt] for k, p, vt in plan]


EXTRACT_TAGS = {                      # DICOM keywords settable on the data set, by value type
    'PatientName': 'str', 'StationName': 'str', 'ImageComments': 'str', 'SeriesDescription': 'str',
    'InstitutionName': 'str', 'StudyDate': 'date', 'SliceLocation': 'float', 'WindowCenter': 'float',
    'NumberOfAverages': 'float', 'ImagesInAcquisition': 'int', 'ImageType': 'strlist', 'PatientID': 'str',
    'OperatorsName': 'str', 'BodyPartExamined': 'str', 'SequenceName': 'str',
}
# elements that are not plain keyword assignments (spec['elements']): a sequence (nested value: list of dicts), the two
# Siemens CSA headers the default translators read (keys CsaImage.* / CsaSeries.*), an untranslated private element
# (extracted by no default rule: it must simply not disturb anything)
CSA_IMAGE_TAGS = [('B_value', 'IS'), ('TimeAfterStart', 'DS'), ('ImaCoilString', 'LO'), ('DiffusionGradientDirection', 'FD'),
                  ('ImaPATModeText', 'LO')]
CSA_SERIES_TAGS = [('UsedPatientWeight', 'IS'), ('MrProtocolVersion', 'IS'), ('tPatientPosition', 'LO')]


def extract_value(vtype, x):
    if vtype == 'str':
        return 'V%d' % x
    if vtype == 'date':
        return '2020%02d%02d' % (1 + x % 12, 1 + x % 28)
    if vtype == 'float':
        return float(x) / 2
    if vtype == 'int':
        return int(x)
    return ['ORIGINAL', 'P%d' % x]


def csa_items(vr, x):
    """(item strings stored in the CSA header, value the translator yields)"""
    if vr == 'IS':
        return [str(1000 + x)], 1000 + x
    if vr == 'DS':
        return ['%d.5' % x], x + 0.5
    if vr == 'FD':
        return ['0.5', '-0.25', '%d.0' % x], [0.5, -0.25, float(x)]
    return ['T%d;X' % x], 'T%d;X' % x


def pattern_x(pat, cell, dims, perm):
    s, t, v = cell
    S, T, V = dims
    idx = s + S * (t + T * v)
    return {'const': 3, 'v': 1 + 2 * v, 't': 2 + 3 * t, 'tv': 1 + t + T * v, 's': 1 + s, 'st': 1 + s + S * t,
            'cell': 1 + idx, 'rcell': 1 + perm[idx], 'missing': 1 + perm[idx] % 2, 'absent_vol': 7}[pat]


def add_extract_tags(rng, files, dims, nkeys, taken):
    """per-file DICOM elements in patterns; 'missing' = element absent.  Keyword elements go through spec['tags'],
    the sequence / CSA / private elements through spec['elements']"""
    S, T, V = dims
    n = S * T * V
    perm = list(range(n))
    rng.shuffle(perm)
    pats = ['const', 'v', 't', 'tv', 's', 'st', 'cell', 'rcell', 'missing', 'absent_vol']
    keys = rng.sample([k for k in sorted(EXTRACT_TAGS) if k not in taken], nkeys)
    plan = [(k, rng.choice(pats)) for k in keys]
    seq_pat = rng.choice(pats) if rng.random() < 0.5 else None
    csa_i = [(nm, vr, rng.choice(pats)) for nm, vr in rng.sample(CSA_IMAGE_TAGS, rng.randrange(1, 4))] if rng.random() < 0.4 else []
    csa_s = [(nm, vr, rng.choice(['const', 'v', 'tv'])) for nm, vr in rng.sample(CSA_SERIES_TAGS, rng.randrange(1, 3))] if csa_i and rng.random() < 0.7 else []
    private = rng.random() < 0.3
    for f in files:
        s, t, v = f['cell']
        idx = s + S * (t + T * v)

        def absent(pat):
            return (pat == 'missing' and perm[idx] % 3 == 0) or (pat == 'absent_vol' and (t + v) % 2 == 1)
        for k, pat in plan:
            if not absent(pat):
                f['tags'][k] = extract_value(EXTRACT_TAGS[k], pattern_x(pat, f['cell'], dims, perm))
        el = {}
        if seq_pat and not absent(seq_pat):
            x = pattern_x(seq_pat, f['cell'], dims, perm)
            el['seq'] = [{'CodeValue': 'c%d' % x, 'CodeMeaning': 'm'}] + ([{'CodeValue': 'd'}] if x % 2 else [])
        for nm_el, lst in (('csa_image', csa_i), ('csa_series', csa_s)):
            tg = []
            for nm, vr, pat in lst:
                if not absent(pat):
                    tg.append({'name': nm, 'vr': vr, 'items': csa_items(vr, pattern_x(pat, f['cell'], dims, perm))[0]})
            if lst:
                el[nm_el] = tg
        if private:
            el['private'] = 'p%d' % idx
        if el:
            f['elements'] = el
        f['extra'] = {}
    return [[k, p, EXTRACT_TAGS[k]] for k, p in plan] + ([['ProcedureCodeSequence', seq_pat, 'seq']] if seq_pat else []) + \
        [['CsaImage.' + nm, pat, vr] for nm, vr, pat in csa_i] + [['CsaSeries.' + nm, pat, vr] for nm, vr, pat in csa_s]


def build_csa2(tags):
    """hand-built Siemens CSA2 ('SV10') header, same layout as props/c16.py build_csa2; tags = [{name, vr, items: [str]}]"""
    import struct
    out = b"SV10" + b"\x04\x03\x02\x01" + struct.pack("<2I", len(tags), 77)
    for t in tags:
        items = [x.encode("latin-1") + b"\x00" for x in t["items"]]
        out += struct.pack("<64si4s3i", t["name"].encode("latin-1"), len(items), t["vr"].encode("ascii"), 0, len(items), 77 if items else 205)
        for it in items:
            out += struct.pack("<4i", len(it), len(it), 77, len(it)) + it + b"\x00" * ((4 - len(it) % 4) % 4)
    return out


def apply_elements(ds, spec):
    el = spec.get('elements') or {}
    if 'seq' in el:
        from pydicom.dataset import Dataset
        from pydicom.sequence import Sequence
        items = []
        for d in el['seq']:
            it = Dataset()
            for k, v in d.items():
                setattr(it, k, v)
            items.append(it)
        ds.ProcedureCodeSequence = Sequence(items)
    if 'csa_image' in el or 'csa_series' in el:
        ds.add_new((0x0029, 0x0010), 'LO', 'SIEMENS CSA HEADER')
        if 'csa_image' in el:
            ds.add_new((0x0029, 0x1010), 'OB', build_csa2(el['csa_image']))
        if 'csa_series' in el:
            ds.add_new((0x0029, 0x1020), 'OB', build_csa2(el['csa_series']))
    if 'private' in el:
        ds.add_new((0x0021, 0x0010), 'LO', 'ACME')
        ds.add_new((0x0021, 0x1001), 'LO', el['private'])
    return ds


def csa_value(t):
    vr, items = t['vr'], t['items']
    conv = {'IS': int, 'DS': float, 'FD': float}.get(vr, str)
    vals = [conv(x) for x in items]
    return vals[0] if len(vals) == 1 else vals


def dataset_truth(spec):
    """What the data set built from `spec` SAYS, as the key -> value dictionary an extraction has to yield (keyword
    elements as their Python values, the sequence as a list of dicts, CSA tags under their translator prefix, untranslated
    private elements and empty CSA tags nowhere).  Written from the spec alone."""
    d = {'SOPClassUID': '1.2.840.10008.5.1.4.1.1.4', 'SOPInstanceUID': '1.2.3.%d' % (spec['id'] + 1),
         'SeriesInstanceUID': '1.2.3', 'SeriesNumber': 1, 'ProtocolName': 'a',
         'Rows': spec['rows'], 'Columns': spec['cols'], 'PixelSpacing': [float(x) for x in spec['ps']],
         'ImageOrientationPatient': [float(x) for x in spec['iop']], 'ImagePositionPatient': [float(x) for x in spec['ipp']],
         'BitsAllocated': 16, 'BitsStored': spec.get('bits', 12), 'HighBit': spec.get('bits', 12) - 1,
         'PixelRepresentation': spec.get('pixrep', 0), 'SamplesPerPixel': 1, 'PhotometricInterpretation': 'MONOCHROME2'}
    for k, v in spec.get('tags', {}).items():
        d[k] = copy.deepcopy(v)
    el = spec.get('elements') or {}
    if 'seq' in el:
        d['ProcedureCodeSequence'] = copy.deepcopy(el['seq'])
    for nm, pre in (('csa_image', 'CsaImage.'), ('csa_series', 'CsaSeries.')):
        for t in el.get(nm, []):
            if t['items']:
                d[pre + t['name']] = csa_value(t)
    return d


def meta_truth(case, spec):
    """the dictionary the embed step works with for this file, from the case alone"""
    dt = dataset_truth(spec)
    if case['meta_mode'] == 'hand':
        meta = {k: dt[k] for k in MANDATORY}
        for k in spec['tags']:
            meta[k] = dt[k]
        meta.update(copy.deepcopy(spec['extra']))
        return meta
    return dt


def gen_truth(case):
    return {spec['id']: meta_truth(case, spec) for spec in case['files']}


REGEX_FORMS = ['^%s', '%s$', '%s', '[%s%s]%s', '%s|%s', '%s.*%s', r'\b%s', '(?:%s)+', r'%s\w', r'^[^.]*%s']


def random_regex(rng, words):
    """a valid pattern made from fragments of the keys that occur (so that it matches sometimes)"""
    def frag():
        w = rng.choice(words) or 'x'
        a = rng.randrange(len(w))
        return re.escape(w[a:a + rng.randrange(1, 5)]) or 'x'
    form = rng.choice(REGEX_FORMS)
    n = form.count('%s')
    if form.startswith('[%s%s]'):
        w = rng.choice([x for x in words if x] or ['k'])
        c = w[0]
        return '[%s%s]%s' % (re.escape(c.lower()), re.escape(c.upper()), re.escape(w[1:3]))
    return form % tuple(frag() for _ in range(n))


def gen_filter(rng, words=()):
    words = [w for w in words if w] or ['Patient', 'Csa', 'kx']
    r = rng.random()
    if r < 0.3:
        return {'mode': 'default'}
    if r < 0.45:
        lits = ['Image', 'Csa', 'k', 'Series', 'Comments', 'Time', 'nest', 'Name']
        return {'mode': 'default+extra', 'xe': rng.sample(lits, rng.randrange(0, 3)), 'xi': rng.sample(lits, rng.randrange(0, 3))}
    if r < 0.6:
        return {'mode': 'none'}
    if r < 0.75:
        return {'mode': 'lambda', 'name': rng.choice(sorted(LAMBDAS))}
    fixed = ['^Csa', 'Patient', 'UID$', '[kK][xy]', 'Image(Position|Comments)', 'e', r'\.', 'Time', '^nest$', 'Station|Series']

    def pats(lo, hi):
        return [rng.choice(fixed) if rng.random() < 0.4 else random_regex(rng, words) for _ in range(rng.randrange(lo, hi))]
    excl = pats(1, 4)
    incl = rng.choice([[], [], None, pats(1, 3)])        # EMPTY include list is a case of its own
    return {'mode': 'regex', 'excl': excl, 'incl': incl}


def big_config(rng, dims):
    """explicit time + vector ordering for an arbitrary grid size (stacklib.rand_config stops at its own size lists)"""
    S, T, V = dims
    return {'mode': 'timevec', 'S': S, 'T': T, 'V': V, 'orient': rng.choice(sorted(L.ORIENTS)), 'direction': rng.choice([1, -1]),
            'gap': rng.choice([0.5, 1.0, 2.5]), 'origin': [rng.choice([-8., 0., 4.]) for _ in range(3)],
            'rows': 2, 'cols': rng.choice([2, 3]), 'ps': [1.0, 1.0],
            'time_order': {'key': 'EchoTime', 'abs': None}, 'vector_order': {'key': 'EchoNumbers', 'abs': None},
            'tagrules': {'EchoTime': rng.choice(['t', 'trev']), 'EchoNumbers': 'v'}, 'consts': {}}


def gen_case(rng, tier, shape_class=None, meta_mode=None, orders=None, jitter=None, jitter_whole=True, dims=None):
    """one conversion inside the domain (complete grid, identical orientation on every file unless `jitter`)"""
    big = tier != 'quick'
    while dims is None:
        want = None
        if shape_class == 'vec_t1':
            want = 'vec'
        elif shape_class == '5d':
            want = 'timevec'
        cfg = L.rand_config(rng, tier, want=want)
        S, T, V = cfg['S'], cfg['T'], cfg['V']
        if S > (5 if big else 4) or T > (4 if big else 3):
            continue
        if cfg['mode'] == 'vec' and T > 1:
            continue                                   # not a grid (refused): outside this stream
        if shape_class == 'vec_t1' and not (T == 1 and V > 1):
            continue
        if shape_class == '5d' and not (T > 1 and V > 1):
            continue
        if shape_class == '3d' and not (T == 1 and V == 1):
            continue
        if shape_class == 's1' and S != 1:
            continue
        # staggered time ordinates (a run of equal values straddling volumes) are legal; keep them
        break
    if dims is not None:
        cfg = big_config(rng, dims)
        S, T, V = dims
    if jitter is not None:
        cfg['orient'] = 'ax'
        cfg['origin'] = [0.0, cfg['origin'][1], cfg['origin'][2]]
    files = L.grid_from_config(rng, cfg)
    dims = [S, T, V]
    mode = meta_mode or rng.choice(['hand', 'hand', 'extract'])
    if mode == 'hand':
        plan = add_hand_meta(rng, files, dims, rng.randrange(5, 10))
    else:
        plan = add_extract_tags(rng, files, dims, rng.randrange(3, 7), set(files[0]['tags']))
    if jitter is not None:
        # ImageOrientationPatient[2] += jitter (slice indicator unchanged: x origin 0; the stack accepts |jitter| < 5e-5)
        # on every file of one later volume (so that the volume's first file carries it whatever the final order), or on
        # one single file anywhere
        cand = [f for f in files if f['cell'][1] + f['cell'][2] > 0] or files[1:] or files
        f0 = rng.choice(cand if jitter_whole else files)
        for f in files:
            if f is f0 or (jitter_whole and f['cell'][1:] == f0['cell'][1:]):
                f['iop'] = list(f['iop'])
                f['iop'][2] += jitter
    words = sorted(set(k for f in files for k in list(f['tags']) + list(f.get('extra', {}))) | set(p[0] for p in plan))
    case = {'kind': '%s/%s/%dd%s' % (mode, cfg['mode'], 3 + (T > 1 or V > 1) + (V > 1), '-t1' if (T == 1 and V > 1) else ''),
            'dims': dims, 'orient': cfg['orient'], 'direction': cfg['direction'], 'plan': plan,
            'meta_mode': mode, 'vo': rng.choice(orders or ALL_ORDERS), 'via': rng.choice(['wrapper', 'nifti']),
            'filter': gen_filter(rng, words)}
    case.update(L.case_header(cfg))
    case['files'] = files
    case['add_order'] = L.add_order(rng, files)
    return case


# ------------------------------------------------------------------------------------------------ runner

def make_filter(dcmstack, spec):
    """the meta_filter argument of DicomStack (None = the library's default)"""
    m = spec['mode']
    if m == 'default':
        return None
    if m == 'default+extra':
        return dcmstack.make_key_regex_filter(list(dcmstack.default_key_excl_res) + spec['xe'],
                                              list(dcmstack.default_key_incl_res) + spec['xi'])
    if m == 'none':
        return lambda key, val: False
    if m == 'lambda':
        f = LAMBDAS[spec['name']]
        return lambda key, val: f(key)
    if m == 'regex':
        return dcmstack.make_key_regex_filter(list(spec['excl']), None if spec['incl'] is None else list(spec['incl']))
    raise ValueError(m)


def plain(o):
    return X._plain(o)


def build_ds(spec):
    return apply_elements(L.build_ds(spec), spec)


def new_stack(dcmstack, case):
    return dcmstack.DicomStack(time_order=L.make_ordering(dcmstack, case.get('time_order')),
                               vector_order=L.make_ordering(dcmstack, case.get('vector_order')),
                               meta_filter=make_filter(dcmstack, case['filter']))


def add_file(st, case, i, dss, given):
    """one add_dcm call: file index i of the case; fills dss / given"""
    from dcmstack.extract import default_extractor
    spec = case['files'][i]
    ds = build_ds(spec)
    dss[i] = ds
    if case['meta_mode'] == 'hand':
        meta = meta_truth(case, spec)
        given[spec['id']] = copy.deepcopy(meta)
        st.add_dcm(ds, meta)
    else:
        given[spec['id']] = default_extractor(ds)
        st.add_dcm(ds)


def build_stack(dcmstack, case):
    """-> (stack, datasets by file index, given: file id -> the dictionary the stack works with (the hand-built one, or
    the library's own extraction: model INPUT, compared with gen_truth by the oracles))"""
    st = new_stack(dcmstack, case)
    dss, given = {}, {}
    for i in case['add_order']:
        add_file(st, case, i, dss, given)
    return st, dss, given


def pixel_signatures(case):
    import numpy as np
    sig = {}
    for spec in case['files']:
        npx = spec['rows'] * spec['cols']
        vals = (np.arange(npx, dtype=np.uint32) * 7 + 31 * spec['id'] + 5) % 4000
        key = tuple(sorted(int(x) for x in vals))
        if key in sig:
            raise ValueError('pixel signatures not unique')
        sig[key] = (spec['id'], int(vals[0]))
    return sig


def locate(case, arr, slice_dim):
    """file id -> full voxel index of that file's pixel (0,0), found through the file's pixel values:
    every (slice, t, v) plane of the output must hold exactly the pixel set of one file"""
    import numpy as np
    a = np.asarray(arr)
    while a.ndim < 5:
        a = a.reshape(a.shape + (1,))
    sig = pixel_signatures(case)
    out = {}
    for v in range(a.shape[4]):
        for t in range(a.shape[3]):
            for s in range(a.shape[slice_dim]):
                plane = np.take(a[:, :, :, t, v], s, axis=slice_dim)
                key = tuple(sorted(int(x) for x in plane.ravel()))
                if key not in sig:
                    raise ValueError('output plane (%d,%d,%d) is not the pixel set of a source file' % (s, t, v))
                fid, v0 = sig[key]
                pos = np.argwhere(plane == v0)[0]
                ix = [int(pos[0]), int(pos[1])]
                ix.insert(slice_dim, s)
                if fid in out:
                    raise ValueError('file %d found twice in the output' % fid)
                out[fid] = (ix + [t, v])[:arr.ndim]
    return out


def prepare(dcmstack, case):
    """everything the observation needs that is NOT the stack under test: the axis permutation of the voxel reordering
    (from a twin stack, so that the stack under test sees only add_dcm and to_nifti), the flip abstraction.  Runs BEFORE
    the stack(s) under test are created: no DicomStack is constructed between their creation and their conversion."""
    import numpy as np
    twin, dss, _ = build_stack(dcmstack, case)
    vo = case['vo']
    perm = [0, 1, 2]
    if vo:
        shp = twin.get_shape()
        _, _, _, ornt = dcmstack.reorder_voxels(np.zeros(tuple(shp[:3])), twin.get_affine().copy(), vo)
        perm = [int(p) for p, f in ornt]
    return {'perm': perm, 'wants_flip': L.wants_flip(dcmstack, dss[case['add_order'][0]], vo)}


def observe(dcmstack, case, st, dss, given, prep):
    """convert the (filled) stack and observe.  Only public API: the final file order is read off the output ARRAY (every
    file is located by its pixel values), the per-file extension affine from NiftiWrapper.from_dicom_wrapper on the same
    data set, the filter verdicts from the filter object itself."""
    import numpy as np
    from dcmstack import dcmmeta
    from nibabel.nicom.dicomwrappers import wrapper_from_data
    vo = case['vo']
    ids = [case['files'][i]['id'] for i in case['add_order']]
    try:
        if case['via'] == 'wrapper':
            w = st.to_nifti_wrapper(vo)
        else:
            w = dcmmeta.NiftiWrapper(st.to_nifti(vo, embed_meta=True))
        exc = None
    except Exception as e:
        exc = e
    # the sorter's view of every file (input of Stack.Model), from the extractor / nibabel wrapper
    absf, affs = {}, {}
    for i in case['add_order']:
        spec = case['files'][i]
        absf[spec['id']] = L.abstract_file(dcmstack, spec, dss[i], case)
        w1 = dcmmeta.NiftiWrapper.from_dicom_wrapper(wrapper_from_data(dss[i]), copy.deepcopy(given[spec['id']]))
        affs[spec['id']] = [[float(x) for x in row] for row in w1.meta_ext.affine]
    obs = {'files': [absf[i] for i in ids], 'affs': [affs[i] for i in ids],
           'truth': [[i, plain(given[i])] for i in ids],
           'wants_flip': prep['wants_flip'], 'perm': prep['perm']}
    # the filter's verdict for every key any file carries (an object built like the one given to the stack; the library's
    # default otherwise)
    filt = make_filter(dcmstack, case['filter']) or dcmstack.default_meta_filter
    allkeys = sorted(set(k for d in given.values() for k in d))
    obs['filt'] = [[k, bool(filt(k, None))] for k in allkeys]
    obs['order'] = []
    if exc is not None:
        nm = type(exc).__name__
        # every exception of the conversion itself is an observation (the property promises a result for every
        # complete grid): classes outside the model's enum are reported as ECrash
        obs['err'] = X.ERRMAP.get(nm) or L.ERRMAP.get(nm) or 'ECrash'
        obs['exc'] = nm
        obs['exc_msg'] = str(exc)[:200]
        return obs
    ext = w.meta_ext
    obs['ext'] = X.ext_to_json(ext)
    obs['iaff'] = [[float(x) for x in row] for row in w.nii_img.affine]
    obs['img_shape'] = [int(x) for x in w.nii_img.shape]
    obs['img_slice'] = w.nii_img.header.get_dim_info()[2]
    loc = locate(case, np.asanyarray(w.nii_img.dataobj), obs['img_slice'])
    # final file order = data order: slice index fastest, then time, then vector component
    sh5 = obs['img_shape'] + [1] * (5 - len(obs['img_shape']))
    nS, nT = sh5[obs['img_slice']], sh5[3]
    pos = {}
    for fid, ix in loc.items():
        ix5 = list(ix) + [0] * (5 - len(ix))
        pos[ix5[obs['img_slice']] + nS * (ix5[3] + nT * ix5[4])] = fid
    obs['order'] = [pos[i] for i in sorted(pos)]
    look = []
    for fid in obs['order']:
        ix = loc[fid]
        vals = []
        for k in allkeys:
            try:
                vals.append([k, {'val': plain(w.get_meta(k, tuple(ix)))}])
            except Exception as e:                      # noqa: BLE001
                vals.append([k, {'err': X.ERRMAP.get(type(e).__name__, 'ECrash')}])
        look.append([fid, ix, vals])
    obs['look'] = look
    return obs


def run_conv(case):
    """The observation of one conversion (see module docstring of coq/Conv/CorrMeta.v)."""
    import warnings
    warnings.simplefilter('ignore')
    import dcmstack
    prep = prepare(dcmstack, case)
    st = new_stack(dcmstack, case)
    dss, given = {}, {}
    for i in case['add_order']:
        add_file(st, case, i, dss, given)
    return observe(dcmstack, case, st, dss, given, prep)


def run_side_by_side(pair):
    """Two stacks that live SIDE BY SIDE in one interpreter: both are created before either is filled or converted, the
    add_dcm calls are consecutive or interleaved, then they are converted in the order pair['first'] says.  No other
    DicomStack is constructed in between.  -> {'a': observation, 'b': observation} (each as run_conv's)."""
    import warnings
    warnings.simplefilter('ignore')
    import dcmstack
    ca, cb = pair['a'], pair['b']
    prep = {'a': prepare(dcmstack, ca), 'b': prepare(dcmstack, cb)}
    st = {'a': new_stack(dcmstack, ca), 'b': new_stack(dcmstack, cb)}
    dss, given = {'a': {}, 'b': {}}, {'a': {}, 'b': {}}
    sched = [('a', i) for i in ca['add_order']] + [('b', i) for i in cb['add_order']]
    if pair.get('interleave'):
        qa, qb = [('a', i) for i in ca['add_order']], [('b', i) for i in cb['add_order']]
        sched = []
        while qa or qb:
            if qa:
                sched.append(qa.pop(0))
            if qb:
                sched.append(qb.pop(0))
    for who, i in sched:
        add_file(st[who], pair[who], i, dss[who], given[who])
    out = {}
    for who in (('a', 'b') if pair.get('first', 'a') == 'a' else ('b', 'a')):
        out[who] = observe(dcmstack, pair[who], st[who], dss[who], given[who], prep[who])
    return out


def run_fresh(func, arg, timeout=110):
    """run convmeta.<func>(arg) in a FRESH interpreter (same implementation tree): process-wide state left behind by
    earlier cases of the batch (or by this one) cannot leak into the observation, and a replay reproduces it"""
    import json, subprocess
    repo = os.environ.get('DCMSTACK_REPO', '/repo')
    verif = os.path.dirname(os.path.dirname(os.path.abspath(__file__)))
    code = ("import sys, json\n"
            "sys.path[:0] = [%r, %r]\n"
            "from props import convmeta as M\n"
            "arg = json.load(sys.stdin)\n"
            "try:\n"
            "    out = getattr(M, %r)(arg)\n"
            "except Exception as e:\n"
            "    out = {'crash': type(e).__name__, 'msg': str(e)[:300]}\n"
            "sys.stdout.write('\\n@@RESULT@@' + json.dumps(out))\n") % (os.path.join(repo, 'src'), verif, func)
    env = dict(os.environ, PYTHONHASHSEED='0')
    p = subprocess.run([sys.executable, '-c', code], input=json.dumps(arg), capture_output=True, text=True, timeout=timeout,
                       env=env, cwd=verif)
    if '@@RESULT@@' not in p.stdout:
        return {'crash': 'FreshInterpreter', 'msg': 'rc=%s %s' % (p.returncode, (p.stderr or p.stdout)[-300:])}
    return json.loads(p.stdout.split('@@RESULT@@')[-1])


# ------------------------------------------------------------------------------------------------ Coq literals

def coq_mfile(a, aff, meta):
    return '(mk_mfile %s %s %s)' % (L.coq_file(a), X.caff(aff), clist(cpair(cstr(k), cjv(v)) for k, v in meta.items()))


def coq_case(case, obs):
    if not isinstance(obs, dict) or 'files' not in obs:
        return '(mk_case false false [] None [] [] [] false [] (Err ECrash) [0%nat] [])'     # never matches
    files = clist(coq_mfile(a, aff, dict(tr[1])) for a, aff, tr in zip(obs['files'], obs['affs'], obs['truth']))
    vo = 'None' if obs['wants_flip'] is None else '(Some %s)' % cbool(obs['wants_flip'])
    if 'ext' in obs:
        E = obs['ext']
        r = '(Ok %s)' % X.ext_to_coq(E)
        aff, iaff = X.caff(E['aff']), X.caff(obs['iaff'])
        look = clist(cpair(cnat(fid), cpair(clist(cz(i) for i in ix),
                                             clist(cpair(cstr(k), X.resjv_to_coq(v)) for k, v in vals)))
                     for fid, ix, vals in obs['look'])
    else:
        r = '(Err %s)' % obs.get('err', 'ECrash')
        eye = [[1.0 if i == j else 0.0 for j in range(4)] for i in range(4)]
        aff, iaff, look = X.caff(eye), X.caff(eye), '[]'
    return '(mk_case %s %s %s %s %s %s %s %s %s %s %s %s)' % (
        cbool(case.get('time_order') is not None), cbool(case.get('vector_order') is not None), files, vo,
        clist(cnat(p) for p in obs['perm']), aff, iaff, cbool(case['filter']['mode'] == 'default'),
        clist(cpair(cstr(k), cbool(b)) for k, b in obs['filt']), r, clist(cnat(i) for i in obs['order']), look)


# ------------------------------------------------------------------------------------------------ oracles

def cell_of(case, fid):
    for f in case['files']:
        if f['id'] == fid:
            return f['cell']
    return None


def same_value(a, b):
    """structural equality with exact types (1, 1.0 and True are different values; dict order is irrelevant)"""
    if isinstance(a, dict) and isinstance(b, dict):
        return set(a) == set(b) and all(same_value(a[k], b[k]) for k in a)
    if isinstance(a, (list, tuple)) and isinstance(b, (list, tuple)):
        return len(a) == len(b) and all(same_value(x, y) for x, y in zip(a, b))
    return type(a) is type(b) and a == b


def crash_message(obs):
    """an observation the runner could not produce is never a silent pass"""
    if not isinstance(obs, dict):
        return 'unexpected observation: %r' % (obs,)
    if 'crash' in obs:
        return 'unexpected exception %s: %s' % (obs.get('crash'), str(obs.get('msg'))[:200])
    if 'files' not in obs:
        return 'unexpected observation: keys %s' % sorted(obs)
    return None


def abstraction_clause(case, obs):
    """model inputs taken from the library == the generator's truth: the dictionaries handed to the embed step, and the
    sorter's view of every file"""
    truth = gen_truth(case)
    for fid, d in obs['truth']:
        want = truth[fid]
        for k in sorted(set(d) | set(want)):
            if k not in want:
                return 'extraction yields a key the data set does not carry: %r = %r (file %d)' % (k, d[k], fid)
            if k not in d:
                return 'extraction lacks a key the data set carries: %r = %r (file %d)' % (k, want[k], fid)
            if not same_value(d[k], plain(want[k])):
                return 'extraction alters a value: key %r, data set %r, extracted %r (file %d)' % (k, want[k], d[k], fid)
    specs = {f['id']: f for f in case['files']}
    for a in obs['files']:
        df = L.abstraction_diff(a, L.spec_truth(specs[a['id']], case))
        if df:
            return 'sorter abstraction differs from the data set: field %s of file %d' % (df, a['id'])
    return None


def filter_view(case, obs):
    """key -> (impl verdict, must this key be treated as filtered by the oracles)"""
    out = {}
    f = case['filter']
    for k, b in obs['filt']:
        sv = spec_verdict(f, k)
        if sv is None:
            sv = shipped_must_remove(k, f.get('xe', ()), f.get('xi', ()))
        out[k] = (b, b or sv)
    return out


def filter_clause(case, obs):
    """the real filter's verdicts against the case's description of the filter (exact for explicit filters, bounds for
    the default-derived ones)"""
    f = case['filter']
    for k, b in obs['filt']:
        sv = spec_verdict(f, k)
        if sv is None:
            why = default_verdict_ok(k, b, f.get('xe', ()), f.get('xi', ()))
            if why:
                return 'default filter %s: key %r, verdict %s' % (why, k, b)
        elif sv != b:
            return 'filter verdict differs from exclude-unless-included: key %r, filter says %s, patterns say %s' % (k, b, sv)
    return None


# --- N9: which values the slice-normal tolerance mismatch loses, re-derived from the case and the data placement ---

def _jit(case, f):
    base = L.ORIENTS[case['orient']]
    return tuple(float(a) - float(b) for a, b in zip(f['iop'], base))


def _far(a, b):
    """the slice rows of the two per-file affines are NOT np.allclose (atol 1e-8): generated perturbations are either
    <= 2^-36 (close) or 2^-17 (far), the boundary near 2^-26 is never approached"""
    return any(abs(x - y) > 2.0 ** -30 for x, y in zip(a, b))


def n9_expected(case, obs):
    """(file id, key) -> the value the lookup returns when ONLY the N9 mechanism acts: from_sequence along time / vector
    drops the PER-SLICE classes of an input whose slice normal is not np.allclose to the first input's.  An input is a
    volume (its affine is its first file's; a key is per-slice in it iff its values differ between the volume's slices)
    or, in 5-D with several time points, a vector block (affine of its first volume; per-slice iff some time point of
    the block varies over the slices).  None when no orientation in the case is perturbed beyond the tolerance."""
    specs = {f['id']: f for f in case['files']}
    jit = {i: _jit(case, f) for i, f in specs.items()}
    if not any(_far(j, (0.0,) * 6) for j in jit.values()) or 'look' not in obs:
        return None
    truth = gen_truth(case)
    keys = sorted(set(k for d in truth.values() for k in d))
    sd = obs['img_slice']
    place = {}
    for fid, ix, _ in obs['look']:
        ix5 = list(ix) + [0] * (5 - len(ix))
        place[fid] = (ix5[sd], ix5[3], ix5[4])
    S = 1 + max(p[0] for p in place.values())
    T = 1 + max(p[1] for p in place.values())
    V = 1 + max(p[2] for p in place.values())
    at = {p: fid for fid, p in place.items()}
    val = {(fid, k): truth[fid].get(k) for fid in truth for k in keys}
    canon = lambda x: repr(plain(x))

    def varies(t, v, k):
        return len(set(canon(val[(at[(s, t, v)], k)]) for s in range(S))) > 1

    def drop(t, v, k):
        for s in range(S):
            val[(at[(s, t, v)], k)] = None

    def vol_jit(t, v):
        return jit[at[(0, t, v)]]
    if T * V == 1 or S == 1:
        return val
    if not (V > 1 and T > 1):
        vols = [(t, 0) for t in range(T)] if V == 1 else [(0, v) for v in range(V)]
        for (t, v) in vols[1:]:
            if _far(vol_jit(t, v), vol_jit(*vols[0])):
                for k in keys:
                    if varies(t, v, k):
                        drop(t, v, k)
        return val
    for v in range(V):
        for t in range(1, T):
            if _far(vol_jit(t, v), vol_jit(0, v)):
                for k in keys:
                    if varies(t, v, k):
                        drop(t, v, k)
    for v in range(1, V):
        if _far(vol_jit(0, v), vol_jit(0, 0)):
            for k in keys:
                if any(varies(t, v, k) for t in range(T)):
                    for t in range(T):
                        drop(t, v, k)
    return val


def lossless_findings(case, obs):
    """every discrepancy between a lookup and what the file carried: (message, explained by N9)"""
    truth = gen_truth(case)
    fv = filter_view(case, obs)
    n9 = n9_expected(case, obs)
    out = []
    if sorted(f for f, _, _ in obs['look']) != sorted(truth):
        return [('source files missing from the output array: located %s of %s' % (sorted(f for f, _, _ in obs['look']), sorted(truth)), False)]
    for fid, ix, vals in obs['look']:
        for k, v in vals:
            if fv.get(k, (False, False))[1]:
                continue
            want = plain(truth[fid].get(k))
            if 'err' in v:
                out.append(('lookup raised %s: key %r at the voxel index %s of file %d' % (v['err'], k, ix, fid), False))
            elif not same_value(v['val'], want):
                what = 'lost' if v['val'] is None else 'altered'
                explained = n9 is not None and v['val'] is None and n9[(fid, k)] is None
                out.append(('value %s: key %r at voxel index %s (file %d, cell %s): file carried %r, lookup returned %r' % (
                    what, k, ix, fid, cell_of(case, fid), want, v['val']), explained))
    return out


def oracle_lossless(case, obs):
    """C01 on the implementation alone: the value looked up at the voxel index of every source file equals what
    that file carried (None where it lacked the key), for every key the filter keeps.  All clauses are evaluated; a
    discrepancy that the open finding N9 does not explain is reported before one it explains."""
    m = crash_message(obs)
    if m:
        return m
    if 'err' in obs:
        return 'conversion with embedding raised %s: %s' % (obs.get('exc', obs['err']), obs.get('exc_msg', ''))
    found = lossless_findings(case, obs)
    unexplained = [msg for msg, ex in found if not ex]
    if unexplained:
        return unexplained[0]
    m = abstraction_clause(case, obs)
    if m:
        return m
    if found:
        return found[0][0]
    return None


def oracle_keys(case, obs):
    """C14 on the implementation alone: key set of the extension == extracted keys minus filtered ones, modulo keys
    that are None in every file; the real filter agrees with the case's description of it (exactly for explicit pattern
    lists / lambdas; for default-derived filters within the bounds of the SHIPPED lists: nothing matching a shipped
    exclude literal and no include pattern survives, image position / orientation always do), in every classification."""
    m = crash_message(obs)
    if m:
        return m
    if 'err' in obs:
        return 'conversion with embedding raised %s: %s' % (obs.get('exc', obs['err']), obs.get('exc_msg', ''))
    truth = list(gen_truth(case).values())
    fv = filter_view(case, obs)
    have = {}
    msgs = []
    for k, c, vs in obs['ext']['entries']:
        if k in have:
            msgs.append('key in two classifications: %r' % k)
        have[k] = c
    union = set(k for d in truth for k in d)
    some_value = set(k for d in truth for k, v in d.items() if v is not None)
    for k in sorted(have):
        if k not in union:
            msgs.append('key of the extension was extracted from no file: %r (%s)' % (k, have[k]))
        elif fv.get(k, (False, False))[0]:
            msgs.append('filtered key survives: %r in %s although the filter returns True for it' % (k, have[k]))
        elif fv.get(k, (False, False))[1]:
            msgs.append('privacy: key %r (%s) matches an exclude pattern and no include pattern but survives' % (k, have[k]))
    for k in sorted(some_value):
        if not fv.get(k, (False, False))[0] and k not in have:
            msgs.append('unfiltered key missing from the extension: %r has a value in some file' % k)
    m = filter_clause(case, obs)
    if m:
        msgs.append(m)
    if msgs:
        return msgs[0]
    return abstraction_clause(case, obs)


def signature(prefix, case, obs, msg):
    """N9 is re-derived: the conversion succeeded, at least one lookup lost a value, and EVERY discrepancy of the case is a
    per-slice-varying value of an input (volume / vector block) whose slice normal differs from its merge's first input
    (n9_expected); anything else in the same case -- a per-volume value lost, an altered value -- is a different signature"""
    if prefix == 'c01' and isinstance(obs, dict) and 'look' in obs and 'err' not in obs and 'crash' not in obs:
        found = lossless_findings(case, obs)
        if found and all(ex for _, ex in found):
            return N9_SIG
    return prefix + '/' + re.sub(r'[^a-z0-9]+', '-', msg.split(':')[0].lower()).strip('-')[:48]


def shrink(case):
    """drop hand keys, simplify the filter / voxel order, drop whole vector components / time points / slices"""
    if case['vo']:
        c2 = copy.deepcopy(case); c2['vo'] = ''; yield c2
    if case['filter']['mode'] != 'none':
        c2 = copy.deepcopy(case); c2['filter'] = {'mode': 'none'}; yield c2
    keys = sorted(set(k for f in case['files'] for k in f.get('extra', {})))
    for k in keys:
        c2 = copy.deepcopy(case)
        for f in c2['files']:
            f['extra'].pop(k, None)
        yield c2
    if any(f.get('elements') for f in case['files']):
        for part in ('seq', 'csa_series', 'csa_image', 'private'):
            if any(part in (f.get('elements') or {}) for f in case['files']):
                c2 = copy.deepcopy(case)
                for f in c2['files']:
                    (f.get('elements') or {}).pop(part, None)
                    if part == 'csa_image':
                        (f.get('elements') or {}).pop('csa_series', None)
                yield c2
    S, T, V = case['dims']
    for ax, n in ((2, V), (1, T), (0, S)):
        if n > 1:
            c2 = copy.deepcopy(case)
            keep = [f for f in c2['files'] if f['cell'][ax] != n - 1]
            kept_idx = [i for i, f in enumerate(c2['files']) if f['cell'][ax] != n - 1]
            remap = {i: j for j, i in enumerate(kept_idx)}
            c2['files'] = keep
            c2['add_order'] = [remap[i] for i in c2['add_order'] if i in remap]
            c2['dims'] = [S - (ax == 0), T - (ax == 1), V - (ax == 2)]
            yield c2
    if case['add_order'] != sorted(case['add_order']):
        c2 = copy.deepcopy(case); c2['add_order'] = sorted(case['add_order']); yield c2


# ------------------------------------------------------------------------------------------------ streams

def is_n9_case(case):
    """some orientation is perturbed beyond np.allclose's tolerance (region of the open finding N9)"""
    return any(_far(_jit(case, f), (0.0,) * 6) for f in case['files'])


def gen_stream(rng, tier):
    n = 300 if tier == 'quick' else 2400
    cases = []
    classes = [None] * 6 + ['vec_t1', 'vec_t1', '5d', '5d', '3d', 's1']
    for i in range(n):
        cases.append(gen_case(rng, tier, shape_class=rng.choice(classes)))
    # every voxel order at least once on a 5-D stack (thorough), a fixed sample in quick
    orders = ALL_ORDERS if tier != 'quick' else ['', 'LAS', 'RAS', 'SLA', 'IRP', 'ASL', 'PIR', 'RSP', 'LIA', 'SPL', 'AIL', 'PLS']
    for o in orders:
        cases.append(gen_case(rng, tier, shape_class=rng.choice(['5d', 'vec_t1', None]), orders=[o]))
    # grids beyond stacklib's size lists (S up to 6, T up to 5, V up to 4)
    bigdims = [[4, 4, 2], [6, 2, 1], [2, 5, 1], [2, 2, 4]] if tier == 'quick' else \
        [[4, 4, 2], [6, 2, 1], [2, 5, 1], [2, 2, 4], [6, 5, 4], [5, 5, 2], [1, 5, 4], [3, 1, 4], [6, 1, 1], [4, 3, 3], [1, 1, 4], [2, 4, 4]]
    for d in bigdims:
        c = gen_case(rng, tier, dims=d)
        c['kind'] = 'big/' + c['kind']
        cases.append(c)
    # jitter far below the np.allclose defaults must stay lossless (a whole volume, or one single file)
    for i in range(12 if tier == 'quick' else 60):
        c = gen_case(rng, tier, shape_class=rng.choice([None, '5d']), jitter=rng.choice([2.0 ** -40, -2.0 ** -40, 2.0 ** -36]),
                     jitter_whole=bool(i % 3))
        c['kind'] = 'jitter-tiny/' + c['kind']
        cases.append(c)
    # N9 (open finding): orientation perturbed inside the stack's own tolerance but outside np.allclose's
    for i in range(4 if tier == 'quick' else 16):
        while True:
            c = gen_case(rng, tier, shape_class='5d' if i % 2 else None, meta_mode='hand', jitter=rng.choice([2.0 ** -17, -2.0 ** -17]),
                         jitter_whole=(i % 4 != 3))
            if c['dims'][1] * c['dims'][2] > 1 and c['dims'][0] > 1:
                break
        c['kind'] = 'orient_lo(N9)' if i % 4 != 3 else 'orient_lo-one-file(N9)'
        c['filter'] = {'mode': 'none'}
        cases.append(c)
    return cases


class _Base:
    CORR_REQUIRE = "From Coq Require Import Qcanon.\nFrom DV Require Import Common.Jv Ext.Types Ext.Model Conv.Meta Conv.CorrMeta Stack.Model."
    CORR_CASE_TYPE = "CorrMeta.case"
    CORR_CHECK = "CorrMeta.check"
    CORR_SHOW = "CorrMeta.show"
    SHARD = 12
    IMPL_TIMEOUT = 120

    @staticmethod
    def run_impl(case):
        return run_conv(case)

    @staticmethod
    def coq_case(case, obs):
        return coq_case(case, obs)

    @staticmethod
    def nontrivial(case, obs):
        return isinstance(obs, dict) and 'ext' in obs and len(obs['ext']['shape']) > 3 and \
            any(c != 'GConst' for _, c, _ in obs['ext']['entries'])

    @staticmethod
    def shrink(case):
        return shrink(case)


class LosslessPart(_Base):
    NAME = "lossless"
    RULE = ("complete grids S<=4 x T<=3 x V<=3 (thorough S<=5, T<=4) plus fixed larger ones up to 6x5x4, in 7 orientations x both "
            "slice directions, explicit / guessed ordering, shuffled add order, all 48 voxel orders + none, metadata through "
            "add_dcm(ds, meta) with a hand-built dict (5-11 keys incl. private-style / translator-prefixed / non-ASCII / random "
            "names, 12 value patterns x 8 value types incl. bool, empty and nested lists / dicts, None values, missing keys) or "
            "through dcmstack's own extraction of data sets with keyword elements, a sequence, Siemens CSA headers and an "
            "untranslated private element; ground truth = what the generator put into the data set / dictionary; 5 filter "
            "families with generated regexes; shapes incl. (x,y,z,1,n) and single-slice volumes; orientation jitter 2^-40 / 2^-36 "
            "(must stay lossless) and 2^-17 (open finding N9) on a whole volume or one file; non-trivial = 4-D/5-D result with a "
            "varying key")

    @staticmethod
    def gen_cases(rng, tier):
        return gen_stream(rng, tier)

    @staticmethod
    def oracle(case, obs):
        return oracle_lossless(case, obs)

    @staticmethod
    def signature(case, obs, msg):
        return signature('c01', case, obs, msg)


# ------------------------------------------------------------------------------------------------ stacks side by side

FILTER_PAIRS = [
    ({'mode': 'default'}, {'mode': 'none'}),
    ({'mode': 'none'}, {'mode': 'default'}),
    ({'mode': 'default'}, {'mode': 'default+extra', 'xe': ['Time', 'Number', 'k'], 'xi': ['Patient', 'UID']}),
    ({'mode': 'default+extra', 'xe': ['Echo', 'Series', 'Csa'], 'xi': []}, {'mode': 'default'}),
    ({'mode': 'lambda', 'name': 'all'}, {'mode': 'none'}),
    ({'mode': 'regex', 'excl': ['e'], 'incl': []}, {'mode': 'regex', 'excl': ['e'], 'incl': ['Time', 'Name']}),
    ({'mode': 'regex', 'excl': ['^[A-Z]'], 'incl': None}, {'mode': 'regex', 'excl': ['^[a-z]', 'Csa'], 'incl': None}),
    ({'mode': 'lambda', 'name': 'has_e'}, {'mode': 'lambda', 'name': 'long'}),
]


def gen_pair(rng, tier):
    """two conversions whose stacks coexist: the same series twice or two different series, with filters that disagree
    on keys both carry"""
    while True:
        a = gen_case(rng, tier, shape_class=rng.choice([None, None, '3d', '5d', 'vec_t1']))
        if len(a['files']) <= 12:
            break
    if rng.random() < 0.6:
        b = copy.deepcopy(a)
        b['vo'] = rng.choice(ALL_ORDERS)
        b['via'] = rng.choice(['wrapper', 'nifti'])
        b['add_order'] = L.add_order(rng, b['files'])
        same = True
    else:
        while True:
            b = gen_case(rng, tier, shape_class=rng.choice([None, '3d', 's1']))
            if len(b['files']) <= 12:
                break
        same = False
    if rng.random() < 0.8:
        fa, fb = rng.choice(FILTER_PAIRS)
        a['filter'], b['filter'] = copy.deepcopy(fa), copy.deepcopy(fb)
    else:
        words = sorted(set(k for c in (a, b) for f in c['files'] for k in list(f['tags']) + list(f.get('extra', {}))))
        a['filter'], b['filter'] = gen_filter(rng, words), gen_filter(rng, words)
    return {'kind': 'side-by-side/%s/%s-vs-%s' % ('same-series' if same else 'two-series', a['filter']['mode'], b['filter']['mode']),
            'a': a, 'b': b, 'first': rng.choice(['a', 'b']), 'interleave': rng.random() < 0.5}


def gen_pairs(rng, tier):
    n = 24 if tier == 'quick' else 200
    out = []
    for _ in range(n):
        p = gen_pair(rng, tier)
        out.append(p)
        if len(out) % 3 == 0:                     # the same two stacks, fresh, converted in the other order
            q = copy.deepcopy(p)
            q['first'] = 'b' if p['first'] == 'a' else 'a'
            out.append(q)
    return out


def shrink_pair(pair):
    if pair.get('interleave'):
        c = copy.deepcopy(pair); c['interleave'] = False; yield c
    for who in ('a', 'b'):
        for sub in shrink(pair[who]):
            if sub['filter'] != pair[who]['filter']:
                continue                          # the two filters are the point of the case
            c = copy.deepcopy(pair); c[who] = sub; yield c


class SideBySidePart:
    """C14: "the key set equals the extracted keys minus those for which the filter returns true" for THIS stack's filter,
    when another stack with another filter lives in the same interpreter."""
    NAME = "sidebyside"
    CORR_REQUIRE = _Base.CORR_REQUIRE
    CORR_CASE_TYPE = "(CorrMeta.case * CorrMeta.case)"
    CORR_CHECK = "(fun p : CorrMeta.case * CorrMeta.case => andb (CorrMeta.check (fst p)) (CorrMeta.check (snd p)))"
    CORR_SHOW = "(fun p : CorrMeta.case * CorrMeta.case => (CorrMeta.show (fst p), CorrMeta.show (snd p)))"
    SHARD = 6
    IMPL_TIMEOUT = 150
    RULE = ("two DicomStack objects created BEFORE either is filled or converted (no other stack is constructed in between), "
            "the same series twice or two different series, filters that disagree on keys both carry (default / keep-all / "
            "remove-all / default + extra -e -i / regex lists / lambdas), add_dcm calls consecutive or interleaved, converted "
            "A-then-B or B-then-A (also the same pair in both orders, each in a fresh pair of stacks); every case runs in a "
            "FRESH interpreter; each result is judged by its OWN filter with the key-set oracle; non-trivial = the two filters "
            "disagree on a key both series carry")

    @staticmethod
    def gen_cases(rng, tier):
        return gen_pairs(rng, tier)

    @staticmethod
    def run_impl(case):
        return run_fresh('run_side_by_side', case, timeout=SideBySidePart.IMPL_TIMEOUT - 20)

    @staticmethod
    def coq_case(case, obs):
        oa = obs.get('a') if isinstance(obs, dict) else None
        ob = obs.get('b') if isinstance(obs, dict) else None
        return '(%s, %s)' % (coq_case(case['a'], oa), coq_case(case['b'], ob))

    @staticmethod
    def oracle(case, obs):
        m = None
        if not isinstance(obs, dict) or 'crash' in obs or 'a' not in obs or 'b' not in obs:
            return crash_message(obs if isinstance(obs, dict) and 'crash' in obs else {'crash': 'NoObservation', 'msg': repr(obs)[:200]})
        msgs = []
        for who in ('a', 'b'):
            m = oracle_keys(case[who], obs[who])
            if m:
                head, _, rest = m.partition(':')
                msgs.append("%s: stack %s (converted %s, other stack's filter %s) %s" % (
                    head, who.upper(), 'first' if case.get('first', 'a') == who else 'second',
                    case['b' if who == 'a' else 'a']['filter']['mode'], rest.strip()))
        return msgs[0] if msgs else None

    @staticmethod
    def signature(case, obs, msg):
        return signature('c14conv-sbs', case, obs, msg)

    @staticmethod
    def nontrivial(case, obs):
        if not isinstance(obs, dict) or 'a' not in obs or 'b' not in obs or 'filt' not in obs['a'] or 'filt' not in obs['b']:
            return False
        fa, fb = dict(obs['a']['filt']), dict(obs['b']['filt'])
        return any(fa[k] != fb[k] for k in fa if k in fb)

    @staticmethod
    def shrink(case):
        return shrink_pair(case)


def is_pair(case):
    return isinstance(case, dict) and 'a' in case and 'b' in case


class KeySetPart(_Base):
    """C14, conversion level: the conversions of C01's stream (single stacks) plus pairs of stacks that live side by side
    with different filters (SideBySidePart); oracle = key-set equation + default-filter privacy statement, each result
    judged by its OWN stack's filter.  A Coq case is the list of the conversions of the case (one or two)."""
    NAME = "keyset"
    CORR_CASE_TYPE = "list CorrMeta.case"
    CORR_CHECK = "(forallb CorrMeta.check)"
    CORR_SHOW = "(map CorrMeta.show)"
    SHARD = 12
    IMPL_TIMEOUT = 150
    RULE = ("(1) the conversions of C01's stream WITHOUT the region of C01's open finding N9 (C14's assumptions exclude it): every "
            "classification reachable through conversion, shapes incl. (x,y,z,1,n); key names incl. private-style, "
            "translator-prefixed (hand-built and real CSA headers), non-ASCII and random strings; filters: default, default + "
            "extra exclude/include literals, keep-all, key lambdas, make_key_regex_filter with generated regexes and include "
            "list None / EMPTY / non-empty; (2) " + SideBySidePart.RULE + "; non-trivial = a varying key exists in a 4-D/5-D "
            "result (1) / the two filters disagree on a common key (2)")

    @staticmethod
    def gen_cases(rng, tier):
        cases = [c for c in gen_stream(rng, tier) if not is_n9_case(c)]
        # more weight on default-derived filters and on hand keys with sensitive names
        for c in cases:
            if rng.random() < 0.35:
                c['filter'] = rng.choice([{'mode': 'default'}, {'mode': 'default+extra', 'xe': ['Csa', 'k'], 'xi': ['kx']},
                                          {'mode': 'regex', 'excl': ['Patient', 'e'], 'incl': []}])
        return cases + gen_pairs(rng, tier)

    @staticmethod
    def run_impl(case):
        return SideBySidePart.run_impl(case) if is_pair(case) else run_conv(case)

    @staticmethod
    def coq_case(case, obs):
        if is_pair(case):
            oa = obs.get('a') if isinstance(obs, dict) else None
            ob = obs.get('b') if isinstance(obs, dict) else None
            return '[%s; %s]' % (coq_case(case['a'], oa), coq_case(case['b'], ob))
        return '[%s]' % coq_case(case, obs)

    @staticmethod
    def oracle(case, obs):
        return SideBySidePart.oracle(case, obs) if is_pair(case) else oracle_keys(case, obs)

    @staticmethod
    def signature(case, obs, msg):
        return SideBySidePart.signature(case, obs, msg) if is_pair(case) else signature('c14conv', case, obs, msg)

    @staticmethod
    def nontrivial(case, obs):
        return SideBySidePart.nontrivial(case, obs) if is_pair(case) else _Base.nontrivial(case, obs)

    @staticmethod
    def shrink(case):
        return shrink_pair(case) if is_pair(case) else shrink(case)
