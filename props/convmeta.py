"""Generators, implementation runner, Coq printers and oracles for the METADATA half of DicomStack.to_nifti
(model: coq/Conv/Meta.v, glue: coq/Conv/CorrMeta.v).  Used by props/c01.py (C01) and, through `KeySetPart`, by
C14 (dev plugin props/c14conv.py).

A case =  stacklib case header ('time_order', 'vector_order') +
  'files'     : stacklib file specs; each with 'extra': {key: value} (hand-built metadata; a key absent from the
                dict is a key the file lacks, a value None is the Python None)
  'add_order' : indices into files
  'meta_mode' : 'hand'    -> add_dcm(ds, meta) with meta = the extractor's values of the keys the sorter needs
                             (PixelSpacing, ImageOrientationPatient, Rows, Columns, every tag of the spec) + 'extra'
                'extract' -> add_dcm(ds) (dcmstack's own extraction); ground truth = extract.default_extractor(ds)
  'vo'        : voxel order string ('' = no reordering);  'via': 'wrapper' | 'nifti'
  'filter'    : {'mode': 'default'} | {'mode': 'default+extra', 'xe': [...], 'xi': [...]} | {'mode': 'none'} |
                {'mode': 'lambda', 'name': n} | {'mode': 'regex', 'excl': [...], 'incl': [...] | None}
Nothing here imports dcmstack at module level."""
import os, sys, copy, itertools, re
from fractions import Fraction

from vlib.coqlit import cnat, cz, cbool, clist, copt, cpair, cstr, cq, cjv
from props import stacklib as L
from props import extlib as X

N9_SIG = 'c01-slice-normal-tolerance'
MANDATORY = ['PixelSpacing', 'ImageOrientationPatient', 'Rows', 'Columns']

ALL_ORDERS = [''] + [''.join(p) for axes in itertools.permutations(['LR', 'AP', 'SI'])
                     for p in itertools.product(*axes)]                     # '' + the 48 codes

LAMBDAS = {
    'none': lambda k: False,
    'lower_first': lambda k: k[:1].islower(),
    'has_e': lambda k: 'e' in k,
    'long': lambda k: len(k) > 12,
    'all': lambda k: True,
}

# keys of the hand-built dictionaries: names the default filter excludes / force-includes / ignores
HAND_KEYS = ['PatientName', 'SOPInstanceUID', 'StationName', 'ImagePositionPatient', 'CsaImage.TimeAfterStart',
             'CsaSeries.UsedPatientWeight', 'CsaImage.ImageOrientationPatient', 'SeriesDescription', 'kx', 'ky', 'nest',
             'InstitutionAddress', 'StudyDate', 'ImageComments']
PATTERNS = ['const', 'v', 't', 'tv', 's', 'st', 'cell', 'rcell', 'missing', 'nonesome', 'allnone', 'absent_vol']
VTYPES = ['int', 'str', 'float', 'list', 'dict']


def mkval(vtype, x):
    """value number x (small non-negative int) of the given type; one type per key, so Python == is structural"""
    if vtype == 'int':
        return int(x)
    if vtype == 'str':
        return 'v%d' % x
    if vtype == 'float':
        return x / 4.0 + 0.5
    if vtype == 'list':
        return [float(x), 1.5, -float(x % 3)]
    return {'a': int(x), 'b': [int(x % 2), 'q'], 'c': {'d': None}}


def pattern_value(rng, pat, vtype, cell, dims, perm):
    """-> (present, value)"""
    s, t, v = cell
    S, T, V = dims
    idx = s + S * (t + T * v)
    if pat == 'allnone':
        return True, None
    if pat == 'missing':
        return (perm[idx] % 3 != 0), mkval(vtype, perm[idx] % 2)
    if pat == 'nonesome':
        return True, (None if perm[idx] % 3 == 0 else mkval(vtype, 1 + t))
    if pat == 'absent_vol':
        return (t + v) % 2 == 0, mkval(vtype, 7)
    x = {'const': 3, 'v': 1 + 2 * v, 't': 2 + 3 * t, 'tv': 1 + t + T * v, 's': 1 + s, 'st': 1 + s + S * t,
         'cell': 1 + idx, 'rcell': 1 + perm[idx]}[pat]
    return True, mkval(vtype, x)


def add_hand_meta(rng, files, dims, nkeys):
    S, T, V = dims
    n = S * T * V
    perm = list(range(n))
    rng.shuffle(perm)
    keys = rng.sample(HAND_KEYS, min(nkeys, len(HAND_KEYS)))
    plan = []
    for k in keys:
        pat = rng.choice(PATTERNS)
        vtype = 'dict' if k == 'nest' else ('list' if 'Position' in k or 'Orientation' in k else rng.choice(VTYPES[:4]))
        plan.append((k, pat, vtype))
    for f in files:
        ex = {}
        for k, pat, vtype in plan:
            present, val = pattern_value(rng, pat, vtype, f['cell'], dims, perm)
            if present:
                ex[k] = val
        f['extra'] = ex
    return [[k, p, vt] for k, p, vt in plan]


EXTRACT_TAGS = {                      # DICOM keywords settable on the data set, by value type
    'PatientName': 'str', 'StationName': 'str', 'ImageComments': 'str', 'SeriesDescription': 'str',
    'InstitutionName': 'str', 'StudyDate': 'date', 'SliceLocation': 'float', 'WindowCenter': 'float',
    'NumberOfAverages': 'float', 'ImagesInAcquisition': 'int', 'ImageType': 'strlist', 'PatientID': 'str',
    'OperatorsName': 'str', 'BodyPartExamined': 'str', 'SequenceName': 'str',
}


def extract_value(vtype, x):
    if vtype == 'str':
        return 'V%d' % x
    if vtype == 'date':
        return '2020%02d%02d' % (1 + x % 12, 1 + x % 28)
    if vtype == 'float':
        return float(x) / 2
    if vtype == 'int':
        return int(x)
    return ['ORIGINAL', 'P%d' % x]


def add_extract_tags(rng, files, dims, nkeys, taken):
    """per-file DICOM elements (set through spec['tags']) in patterns; 'missing' = element absent"""
    S, T, V = dims
    n = S * T * V
    perm = list(range(n))
    rng.shuffle(perm)
    keys = rng.sample([k for k in sorted(EXTRACT_TAGS) if k not in taken], nkeys)
    plan = []
    for k in keys:
        pat = rng.choice(['const', 'v', 't', 'tv', 's', 'st', 'cell', 'rcell', 'missing', 'absent_vol'])
        plan.append((k, pat))
    for f in files:
        s, t, v = f['cell']
        idx = s + S * (t + T * v)
        for k, pat in plan:
            if pat == 'missing' and perm[idx] % 3 == 0:
                continue
            if pat == 'absent_vol' and (t + v) % 2 == 1:
                continue
            x = {'const': 3, 'v': 1 + 2 * v, 't': 2 + 3 * t, 'tv': 1 + t + T * v, 's': 1 + s, 'st': 1 + s + S * t,
                 'cell': 1 + idx, 'rcell': 1 + perm[idx], 'missing': 1 + perm[idx] % 2, 'absent_vol': 7}[pat]
            f['tags'][k] = extract_value(EXTRACT_TAGS[k], x)
        f['extra'] = {}
    return [[k, p, EXTRACT_TAGS[k]] for k, p in plan]


def gen_filter(rng):
    r = rng.random()
    if r < 0.3:
        return {'mode': 'default'}
    if r < 0.45:
        lits = ['Image', 'Csa', 'k', 'Series', 'Comments', 'Time', 'nest', 'Name']
        return {'mode': 'default+extra', 'xe': rng.sample(lits, rng.randrange(0, 3)), 'xi': rng.sample(lits, rng.randrange(0, 3))}
    if r < 0.6:
        return {'mode': 'none'}
    if r < 0.78:
        return {'mode': 'lambda', 'name': rng.choice(sorted(LAMBDAS))}
    regs = ['^Csa', 'Patient', 'UID$', '[kK][xy]', 'Image(Position|Comments)', 'e', r'\.', 'Time', '^nest$', 'Station|Series']
    excl = rng.sample(regs, rng.randrange(1, 4))
    incl = rng.choice([[], [], None, rng.sample(regs, rng.randrange(1, 3))])        # EMPTY include list is a case of its own
    return {'mode': 'regex', 'excl': excl, 'incl': incl}


def gen_case(rng, tier, shape_class=None, meta_mode=None, orders=None, jitter=None):
    """one conversion inside the domain (complete grid, identical orientation on every file unless `jitter`)"""
    big = tier != 'quick'
    while True:
        want = None
        if shape_class == 'vec_t1':
            want = 'vec'
        elif shape_class == '5d':
            want = 'timevec'
        cfg = L.rand_config(rng, tier, want=want)
        S, T, V = cfg['S'], cfg['T'], cfg['V']
        if S > (5 if big else 3) or T > (4 if big else 3):
            continue
        if cfg['mode'] == 'vec' and T > 1:
            continue                                   # not a grid (refused): outside this stream
        if shape_class == 'vec_t1' and not (T == 1 and V > 1):
            continue
        if shape_class == '5d' and not (T > 1 and V > 1):
            continue
        if shape_class == '3d' and not (T == 1 and V == 1):
            continue
        if shape_class == 's1' and S != 1:
            continue
        # staggered time ordinates (a run of equal values straddling volumes) are legal; keep them
        break
    if jitter is not None:
        cfg['orient'] = 'ax'
        cfg['origin'] = [0.0, cfg['origin'][1], cfg['origin'][2]]
    files = L.grid_from_config(rng, cfg)
    dims = [S, T, V]
    mode = meta_mode or rng.choice(['hand', 'hand', 'extract'])
    if mode == 'hand':
        plan = add_hand_meta(rng, files, dims, rng.randrange(5, 10))
    else:
        plan = add_extract_tags(rng, files, dims, rng.randrange(3, 7), set(files[0]['tags']))
    if jitter is not None:
        # one file (the first file of a later volume when there is one) gets ImageOrientationPatient[2] += jitter:
        # its slice indicator is unchanged (x origin 0), the stack accepts it (|jitter| < 5e-5)
        cand = [f for f in files if f['cell'][1] + f['cell'][2] > 0] or files[1:] or files
        f0 = rng.choice(cand)
        # every file of that volume, so that the volume's first file (whatever the final order) carries the jitter
        for f in files:
            if f['cell'][1:] == f0['cell'][1:]:
                f['iop'] = list(f['iop'])
                f['iop'][2] += jitter
    case = {'kind': '%s/%s/%dd%s' % (mode, cfg['mode'], 3 + (T > 1 or V > 1) + (V > 1), '-t1' if (T == 1 and V > 1) else ''),
            'dims': dims, 'orient': cfg['orient'], 'direction': cfg['direction'], 'plan': plan,
            'meta_mode': mode, 'vo': rng.choice(orders or ALL_ORDERS), 'via': rng.choice(['wrapper', 'nifti']),
            'filter': gen_filter(rng)}
    case.update(L.case_header(cfg))
    case['files'] = files
    case['add_order'] = L.add_order(rng, files)
    return case


# ------------------------------------------------------------------------------------------------ runner

def make_filter(dcmstack, spec):
    m = spec['mode']
    if m == 'default':
        return None
    if m == 'default+extra':
        return dcmstack.make_key_regex_filter(list(dcmstack.default_key_excl_res) + spec['xe'],
                                              list(dcmstack.default_key_incl_res) + spec['xi'])
    if m == 'none':
        return lambda key, val: False
    if m == 'lambda':
        f = LAMBDAS[spec['name']]
        return lambda key, val: f(key)
    if m == 'regex':
        return dcmstack.make_key_regex_filter(list(spec['excl']), None if spec['incl'] is None else list(spec['incl']))
    raise ValueError(m)


def plain(o):
    return X._plain(o)


def hand_meta(extracted, spec):
    meta = {k: extracted[k] for k in MANDATORY}
    for k in spec['tags']:
        if k in extracted:
            meta[k] = extracted[k]
    meta.update(copy.deepcopy(spec['extra']))
    return meta


def build_stack(dcmstack, case, with_meta=True):
    """-> (stack, datasets by file index, wid: id(NiftiWrapper) -> file id, truth: file id -> dict given/extracted,
           affs: file id -> per-file extension affine)"""
    from dcmstack.extract import default_extractor
    st = dcmstack.DicomStack(time_order=L.make_ordering(dcmstack, case.get('time_order')),
                             vector_order=L.make_ordering(dcmstack, case.get('vector_order')),
                             meta_filter=make_filter(dcmstack, case['filter']))
    dss, wid, truth, affs = {}, {}, {}, {}
    for i in case['add_order']:
        spec = case['files'][i]
        ds = L.build_ds(spec)
        dss[i] = ds
        extracted = default_extractor(ds)
        if case['meta_mode'] == 'hand':
            meta = hand_meta(extracted, spec)
            truth[spec['id']] = copy.deepcopy(meta)
            st.add_dcm(ds, meta)
        else:
            truth[spec['id']] = extracted
            st.add_dcm(ds)
        w = st._files_info[-1][0]
        wid[id(w)] = spec['id']
        affs[spec['id']] = [[float(x) for x in row] for row in w.meta_ext.affine]
    return st, dss, wid, truth, affs


def locate(case, arr, slice_dim):
    """file id -> full voxel index of that file's pixel (0,0), found through the file's pixel values:
    every (slice, t, v) plane of the output must hold exactly the pixel set of one file"""
    import numpy as np
    a = np.asarray(arr)
    while a.ndim < 5:
        a = a.reshape(a.shape + (1,))
    sig = {}
    for spec in case['files']:
        npx = spec['rows'] * spec['cols']
        vals = (np.arange(npx, dtype=np.uint32) * 7 + 31 * spec['id'] + 5) % 4000
        key = tuple(sorted(int(x) for x in vals))
        if key in sig:
            raise ValueError('pixel signatures not unique')
        sig[key] = (spec['id'], int(vals[0]))
    out = {}
    for v in range(a.shape[4]):
        for t in range(a.shape[3]):
            for s in range(a.shape[slice_dim]):
                plane = np.take(a[:, :, :, t, v], s, axis=slice_dim)
                key = tuple(sorted(int(x) for x in plane.ravel()))
                if key not in sig:
                    raise ValueError('output plane (%d,%d,%d) is not the pixel set of a source file' % (s, t, v))
                fid, v0 = sig[key]
                pos = np.argwhere(plane == v0)[0]
                ix = [int(pos[0]), int(pos[1])]
                ix.insert(slice_dim, s)
                if fid in out:
                    raise ValueError('file %d found twice in the output' % fid)
                out[fid] = (ix + [t, v])[:arr.ndim]
    return out


def run_conv(case):
    """The observation of one conversion (see module docstring of coq/Conv/CorrMeta.v)."""
    import warnings
    warnings.simplefilter('ignore')
    import numpy as np
    import dcmstack
    from dcmstack import dcmmeta
    st, dss, wid, truth, affs = build_stack(dcmstack, case)
    # the sorter's view of every file (input of Stack.Model), from the extractor / nibabel wrapper
    absf = {}
    for i in case['add_order']:
        spec = case['files'][i]
        absf[spec['id']] = L.abstract_file(dcmstack, spec, dss[i], case)
    first = dss[case['add_order'][0]]
    vo = case['vo']
    obs = {'files': [absf[case['files'][i]['id']] for i in case['add_order']],
           'affs': [affs[case['files'][i]['id']] for i in case['add_order']],
           'truth': [[case['files'][i]['id'], plain(truth[case['files'][i]['id']])] for i in case['add_order']],
           'wants_flip': L.wants_flip(dcmstack, first, vo)}
    # the permutation of the voxel reordering, from a twin stack (so that the stack under test sees only to_nifti)
    twin = build_stack(dcmstack, case)[0]
    perm = [0, 1, 2]
    if vo:
        shp = twin.get_shape()
        _, _, _, ornt = dcmstack.reorder_voxels(np.zeros(tuple(shp[:3])), twin.get_affine().copy(), vo)
        perm = [int(p) for p, f in ornt]
    obs['perm'] = perm
    obs['def_excl'] = list(dcmstack.default_key_excl_res)
    obs['def_incl'] = list(dcmstack.default_key_incl_res)
    # the filter's verdict for every key any file carries
    filt = st._meta_filter
    allkeys = sorted(set(k for d in truth.values() for k in d))
    obs['filt'] = [[k, bool(filt(k, None))] for k in allkeys]
    try:
        if case['via'] == 'wrapper':
            w = st.to_nifti_wrapper(vo)
        else:
            w = dcmmeta.NiftiWrapper(st.to_nifti(vo, embed_meta=True))
    except Exception as e:
        nm = type(e).__name__
        # every exception of the conversion itself is an observation (the property promises a result for every
        # complete grid): classes outside the model's enum are reported as ECrash
        obs['err'] = X.ERRMAP.get(nm) or L.ERRMAP.get(nm) or 'ECrash'
        obs['exc'] = '%s: %s' % (nm, str(e)[:200])
        obs['order'] = [wid[id(fi[0])] for fi in st._files_info]
        return obs
    obs['order'] = [wid[id(fi[0])] for fi in st._files_info]
    ext = w.meta_ext
    obs['ext'] = X.ext_to_json(ext)
    obs['iaff'] = [[float(x) for x in row] for row in w.nii_img.affine]
    obs['img_shape'] = [int(x) for x in w.nii_img.shape]
    obs['img_slice'] = w.nii_img.header.get_dim_info()[2]
    loc = locate(case, np.asanyarray(w.nii_img.dataobj), obs['img_slice'])
    look = []
    for fid in obs['order']:
        ix = loc[fid]
        vals = []
        for k in allkeys:
            try:
                vals.append([k, {'val': plain(w.get_meta(k, tuple(ix)))}])
            except Exception as e:                      # noqa: BLE001
                vals.append([k, {'err': X.ERRMAP.get(type(e).__name__, 'ECrash')}])
        look.append([fid, ix, vals])
    obs['look'] = look
    return obs


# ------------------------------------------------------------------------------------------------ Coq literals

def coq_mfile(a, aff, meta):
    return '(mk_mfile %s %s %s)' % (L.coq_file(a), X.caff(aff), clist(cpair(cstr(k), cjv(v)) for k, v in meta.items()))


def coq_case(case, obs):
    if not isinstance(obs, dict) or 'files' not in obs:
        return '(mk_case false false [] None [] [] [] false [] (Err ECrash) [0%nat] [])'     # never matches
    files = clist(coq_mfile(a, aff, dict(tr[1])) for a, aff, tr in zip(obs['files'], obs['affs'], obs['truth']))
    vo = 'None' if obs['wants_flip'] is None else '(Some %s)' % cbool(obs['wants_flip'])
    if 'ext' in obs:
        E = obs['ext']
        r = '(Ok %s)' % X.ext_to_coq(E)
        aff, iaff = X.caff(E['aff']), X.caff(obs['iaff'])
        look = clist(cpair(cnat(fid), cpair(clist(cz(i) for i in ix),
                                             clist(cpair(cstr(k), X.resjv_to_coq(v)) for k, v in vals)))
                     for fid, ix, vals in obs['look'])
    else:
        r = '(Err %s)' % obs.get('err', 'ECrash')
        eye = [[1.0 if i == j else 0.0 for j in range(4)] for i in range(4)]
        aff, iaff, look = X.caff(eye), X.caff(eye), '[]'
    return '(mk_case %s %s %s %s %s %s %s %s %s %s %s %s)' % (
        cbool(case.get('time_order') is not None), cbool(case.get('vector_order') is not None), files, vo,
        clist(cnat(p) for p in obs['perm']), aff, iaff, cbool(case['filter']['mode'] == 'default'),
        clist(cpair(cstr(k), cbool(b)) for k, b in obs['filt']), r, clist(cnat(i) for i in obs['order']), look)


# ------------------------------------------------------------------------------------------------ oracles

def cell_of(case, fid):
    for f in case['files']:
        if f['id'] == fid:
            return f['cell']
    return None


def oracle_lossless(case, obs):
    """C01 on the implementation alone: the value looked up at the voxel index of every source file equals what
    that file carried (None where it lacked the key), for every key the filter keeps."""
    if not isinstance(obs, dict) or 'files' not in obs:
        return None
    if 'err' in obs:
        return 'conversion with embedding raised %s' % obs.get('exc', obs['err'])
    truth = {fid: d for fid, d in obs['truth']}
    filt = dict((k, b) for k, b in obs['filt'])
    if sorted(f for f, _, _ in obs['look']) != sorted(truth):
        return 'not every source file was located in the output array'
    for fid, ix, vals in obs['look']:
        for k, v in vals:
            if filt.get(k):
                continue
            want = truth[fid].get(k)
            if 'err' in v:
                return 'lookup of %r at the voxel index %s of file %d raised %s' % (k, ix, fid, v['err'])
            if v['val'] != want or type(v['val']) is not type(want):
                what = 'lost' if v['val'] is None else 'altered'
                return 'value %s: key %r at voxel index %s (file %d, cell %s): file carried %r, lookup returned %r' % (
                    what, k, ix, fid, cell_of(case, fid), want, v['val'])
    return None


def oracle_keys(case, obs):
    """C14 on the implementation alone: key set of the extension == extracted keys minus filtered ones, modulo keys
    that are None in every file; and with a default-derived filter no key matching an exclude pattern survives unless
    it matches an include pattern, whatever its classification."""
    if not isinstance(obs, dict) or 'files' not in obs:
        return None
    if 'err' in obs:
        return 'conversion with embedding raised %s' % obs.get('exc', obs['err'])
    truth = [d for _, d in obs['truth']]
    filt = dict((k, b) for k, b in obs['filt'])
    have = {}
    for k, c, vs in obs['ext']['entries']:
        if k in have:
            return 'key %r appears in two classifications' % k
        have[k] = c
    union = set(k for d in truth for k in d)
    some_value = set(k for d in truth for k, v in d.items() if v is not None)
    for k in sorted(have):
        if k not in union:
            return 'key %r (%s) of the extension was extracted from no file' % (k, have[k])
        if filt.get(k):
            return 'key %r survives in %s although the filter returns True for it' % (k, have[k])
    for k in sorted(some_value):
        if not filt.get(k) and k not in have:
            return 'key %r is not filtered and has a value in some file but is missing from the extension' % k
    mode = case['filter']['mode']
    if mode in ('default', 'default+extra'):
        excl = list(obs['def_excl']) + case['filter'].get('xe', [])       # the lists the implementation really uses
        incl = list(obs['def_incl']) + case['filter'].get('xi', [])
        # what the property names explicitly must be on the exclude list
        for nm in ('Patient', 'Physician', 'Date', 'UID', 'Institution'):
            if nm not in obs['def_excl']:
                return 'default exclude list lacks %r' % nm
        for k in sorted(have):
            if any(re.search(e, k) for e in excl) and not any(re.search(i, k) for i in incl):
                return 'privacy: key %r (%s) matches an exclude pattern and no include pattern but survives' % (k, have[k])
    return None


def signature(prefix, case, obs, msg):
    if case.get('n9') and ('value lost' in msg or 'missing from the extension' in msg):
        return N9_SIG
    return prefix + '/' + re.sub(r'[^a-z]+', '-', msg.split(':')[0].lower())[:40]


def shrink(case):
    """drop hand keys, simplify the filter / voxel order, drop whole vector components / time points / slices"""
    c = copy.deepcopy(case)
    if case['vo']:
        c2 = copy.deepcopy(case); c2['vo'] = ''; yield c2
    if case['filter']['mode'] != 'none':
        c2 = copy.deepcopy(case); c2['filter'] = {'mode': 'none'}; yield c2
    keys = sorted(set(k for f in case['files'] for k in f.get('extra', {})))
    for k in keys:
        c2 = copy.deepcopy(case)
        for f in c2['files']:
            f['extra'].pop(k, None)
        yield c2
    S, T, V = case['dims']
    for ax, n in ((2, V), (1, T), (0, S)):
        if n > 1:
            c2 = copy.deepcopy(case)
            keep = [f for f in c2['files'] if f['cell'][ax] != n - 1]
            old = {f['id']: i for i, f in enumerate(c2['files'])}
            kept_idx = [i for i, f in enumerate(c2['files']) if f['cell'][ax] != n - 1]
            remap = {i: j for j, i in enumerate(kept_idx)}
            c2['files'] = keep
            c2['add_order'] = [remap[i] for i in c2['add_order'] if i in remap]
            c2['dims'] = [S - (ax == 0), T - (ax == 1), V - (ax == 2)]
            yield c2
    if case['add_order'] != sorted(case['add_order']):
        c2 = copy.deepcopy(case); c2['add_order'] = sorted(case['add_order']); yield c2


# ------------------------------------------------------------------------------------------------ streams

def gen_stream(rng, tier):
    n = 300 if tier == 'quick' else 2400
    cases = []
    classes = [None] * 6 + ['vec_t1', 'vec_t1', '5d', '5d', '3d', 's1']
    for i in range(n):
        cases.append(gen_case(rng, tier, shape_class=rng.choice(classes)))
    # every voxel order at least once on a 5-D stack (thorough), a fixed sample in quick
    orders = ALL_ORDERS if tier != 'quick' else ['', 'LAS', 'RAS', 'SLA', 'IRP', 'ASL', 'PIR', 'RSP', 'LIA', 'SPL', 'AIL', 'PLS']
    for o in orders:
        cases.append(gen_case(rng, tier, shape_class=rng.choice(['5d', 'vec_t1', None]), orders=[o]))
    # jitter far below the np.allclose defaults must stay lossless
    for i in range(12 if tier == 'quick' else 60):
        c = gen_case(rng, tier, shape_class=rng.choice([None, '5d']), jitter=rng.choice([2.0 ** -40, -2.0 ** -40, 2.0 ** -36]))
        c['kind'] = 'jitter-tiny/' + c['kind']
        cases.append(c)
    # N9 (open finding): orientation perturbed inside the stack's own tolerance but outside np.allclose's
    for i in range(3 if tier == 'quick' else 12):
        while True:
            c = gen_case(rng, tier, shape_class='5d' if i % 2 else None, meta_mode='hand', jitter=rng.choice([2.0 ** -17, -2.0 ** -17]))
            if c['dims'][1] * c['dims'][2] > 1 and c['dims'][0] > 1:
                break
        c['kind'] = 'orient_lo(N9)'
        c['n9'] = True
        c['filter'] = {'mode': 'none'}
        cases.append(c)
    return cases


class _Base:
    CORR_REQUIRE = "From Coq Require Import Qcanon.\nFrom DV Require Import Common.Jv Ext.Types Ext.Model Conv.Meta Conv.CorrMeta Stack.Model."
    CORR_CASE_TYPE = "CorrMeta.case"
    CORR_CHECK = "CorrMeta.check"
    CORR_SHOW = "CorrMeta.show"
    SHARD = 12
    IMPL_TIMEOUT = 120

    @staticmethod
    def run_impl(case):
        return run_conv(case)

    @staticmethod
    def coq_case(case, obs):
        return coq_case(case, obs)

    @staticmethod
    def nontrivial(case, obs):
        return isinstance(obs, dict) and 'ext' in obs and len(obs['ext']['shape']) > 3 and \
            any(c != 'GConst' for _, c, _ in obs['ext']['entries'])

    @staticmethod
    def shrink(case):
        return shrink(case)


class LosslessPart(_Base):
    NAME = "lossless"
    RULE = ("complete S<=3 x T<=3 x V<=3 grids (thorough S<=5, T<=4) in 7 orientations x both slice directions, explicit / "
            "guessed ordering, shuffled add order, all 48 voxel orders + none, metadata through add_dcm(ds, meta) with a "
            "hand-built dict (5-9 keys in 12 value patterns x 5 value types incl. lists and nested dicts, None values, "
            "missing keys) or through dcmstack's own extraction (ground truth extract.default_extractor), 5 filter "
            "families; shapes incl. (x,y,z,1,n) and single-slice volumes; non-trivial = 4-D/5-D result with a varying key")

    @staticmethod
    def gen_cases(rng, tier):
        return gen_stream(rng, tier)

    @staticmethod
    def oracle(case, obs):
        return oracle_lossless(case, obs)

    @staticmethod
    def signature(case, obs, msg):
        return signature('c01', case, obs, msg)


class KeySetPart(_Base):
    """C14, conversion level: same conversions, oracle = key-set equation + default-filter privacy statement."""
    NAME = "keyset"
    RULE = ("the conversions of C01's stream (every classification reachable through conversion, shapes incl. (x,y,z,1,n)), "
            "filters: default, default + extra exclude/include literals, keep-all, key lambdas, make_key_regex_filter with "
            "include list None / EMPTY / non-empty; non-trivial = a varying key exists in a 4-D/5-D result")

    @staticmethod
    def gen_cases(rng, tier):
        cases = gen_stream(rng, tier)
        # more weight on default-derived filters and on hand keys with sensitive names
        for c in cases:
            if not c.get('n9') and rng.random() < 0.35:
                c['filter'] = rng.choice([{'mode': 'default'}, {'mode': 'default+extra', 'xe': ['Csa', 'k'], 'xi': ['kx']},
                                          {'mode': 'regex', 'excl': ['Patient', 'e'], 'incl': []}])
        return cases

    @staticmethod
    def oracle(case, obs):
        return oracle_keys(case, obs)

    @staticmethod
    def signature(case, obs, msg):
        return signature('c14conv', case, obs, msg)
