"""Shared helpers for the conversion-level properties (C02, C20 header half; reusable by C01 / C14):
synthetic series with pixels and exact geometry, the per-file abstraction the Coq model Conv.Geom
consumes, running DicomStack.to_nifti on the real code, observing array / affine / header, and locating
source pixels in the output through unique pixel values.

A *case* (JSON):
  {"kind": str, "time_order": null | {"key": k, "abs": null}, "vector_order": idem,      (stacklib case header)
   "files": [spec...], "add_order": [indices into files], "vo": voxel order string | null (= default argument),
   "vo2": second voxel order (oracle: invariance) | absent, "exact": bool, "dims": [S, T, V], "info": {...}}
A file *spec* is a stacklib spec (id, ipp, iop, rows, cols, ps, pix, tags, cell) plus
  "pixels": rows x cols raw STORED integers (unique per (file, i, j) inside a case), "bits_stored": 8|12|15|16,
  "pixrep": 0|1, "slope": int|null, "intercept": int|null, "zs": SliceThickness (float) | null.
All numbers are floats that JSON round-trips exactly.  "exact" = every float operation the implementation
performs on the geometry is exact (dyadic inputs of moderate size), so observations are compared as exact
rationals; otherwise the affine is compared to 2^-30.

Nothing here imports dcmstack / numpy / pydicom at module level: generators and oracles run in the driver,
runner functions (those taking `dcmstack`) in the implementation sub-process."""
import os, sys, json, copy, itertools
from fractions import Fraction

sys.path.insert(0, os.path.dirname(os.path.abspath(__file__)))
import stacklib as sl
from vlib.coqlit import cnat, cbool, clist, copt, cpair, cstr, cq, cz

# ------------------------------------------------------------------------------------------------
# orientations

def _fr_list(xs):
    return [Fraction(x) for x in xs]


def _rot2(c, s):
    return (Fraction(c, 512), Fraction(s, 512))


# near-Pythagorean dyadic cosines: (409^2 + 308^2) / 512^2 = 1 + 3.8e-6  (nibabel accepts |R R^T - 1| <= 5e-5)
_C1, _S1 = _rot2(409, 308)
_C2, _S2 = _rot2(473, 196)
_C3, _S3 = _rot2(424, 287)

# name -> (iop as 6 exact Fractions, exact?)    iop[0:3]: direction of increasing COLUMN index, iop[3:6]: ROW index
EXACT_ORIENTS = {
    'ax':   _fr_list(sl.ORIENTS['ax']),
    'ax2':  _fr_list(sl.ORIENTS['ax2']),                    # in-plane rotated by 90 degrees
    'sag':  _fr_list(sl.ORIENTS['sag']),
    'cor':  _fr_list(sl.ORIENTS['cor']),
    'dz':   [_C1, _S1, 0, -_S1, _C1, 0],                    # axial, rotated in plane
    'dx':   [1, 0, 0, 0, _C1, -_S1],                        # tilted about x (axial towards coronal)
    'dsag': [0, _C3, _S3, 0, _S3, -_C3],                    # sagittal, rotated in plane
    'dcor': [_C2, _S2, 0, 0, 0, -1],                        # coronal rotated about z
    'dd':   [_C1, _S1, 0, -_S1 * _C2, _C1 * _C2, _S2],      # double oblique  Rz(c1,s1) Rx(c2,s2)
}
EXACT_ORIENTS = {k: [Fraction(x) for x in v] for k, v in EXACT_ORIENTS.items()}
APPROX_ORIENTS = {k: _fr_list(sl.ORIENTS[k]) for k in ('obl1', 'obl2', 'obl3')}     # true float cosines 0.6 / 0.8 / k/7
ALL_ORIENTS = dict(EXACT_ORIENTS, **APPROX_ORIENTS)
ORIENT_CLASS = {'ax': 'axial', 'ax2': 'inplane', 'sag': 'sagittal', 'cor': 'coronal', 'dz': 'inplane', 'dx': 'oblique',
                'dsag': 'oblique', 'dcor': 'oblique', 'dd': 'oblique', 'obl1': 'oblique-float', 'obl2': 'oblique-float',
                'obl3': 'oblique-float'}

LETTERS = "LRAPSI"
_AX = {'L': 0, 'R': 0, 'A': 1, 'P': 1, 'S': 2, 'I': 2}
CODES48 = [''.join(t) for t in itertools.product(LETTERS, repeat=3) if sorted(_AX[c] for c in t) == [0, 1, 2]]
QUICK_ORDERS = ['LAS', 'RAS', 'LPI', 'RPI', 'ASL', 'SAL', 'ILP', 'PSR']

ERRMAP = dict(sl.ERRMAP, ValueError='EValue', KeyError='EKey')


def cross(a, b):
    return [a[1] * b[2] - a[2] * b[1], a[2] * b[0] - a[0] * b[2], a[0] * b[1] - a[1] * b[0]]


def is_float_exact(x):
    return Fraction(float(x)) == Fraction(x)


def _lsb_exp(x):
    """exponent e of the lowest set bit of the dyadic rational x (x = odd * 2^e); None for 0 / non-dyadic -> -10**6"""
    x = Fraction(x)
    if x == 0:
        return None
    d = x.denominator
    if d & (d - 1):
        return -10 ** 6
    e = -(d.bit_length() - 1)
    n = abs(x.numerator)
    while n % 2 == 0:
        n //= 2
        e += 1
    return e


def positions_exact(files):
    """np.inner(ipp, slice_normal) is exact in float64 whatever the summation order (also with fused multiply-add): the three
    products and every partial sum are representable"""
    import itertools as it
    for f in files:
        iop = [Fraction(x) for x in f['iop']]
        n = cross(iop[3:6], iop[0:3])
        if not all(is_float_exact(x) for x in n):
            return False
        p = [Fraction(a) * b for a, b in zip(f['ipp'], n)]
        sums = list(p) + [p[a] + p[b] for a, b in it.combinations(range(3), 2)] + [sum(p)]
        if not all(is_float_exact(x) for x in sums):
            return False
    return True


def geometry_exact(files, dims):
    """Sufficient condition for every float operation of DicomWrapper.affine, from_dicom_wrapper, get_affine and
    reorder_voxels to be exact: every product/atom is a multiple of 2^-44 and any signed sum of them stays below 2^8
    (then every intermediate value has at most 52 significant bits)."""
    S = max(dims[0], 1)
    for f in files:
        iop = [Fraction(x) for x in f['iop']]
        ipp = [Fraction(x) for x in f['ipp']]
        ps = [Fraction(x) for x in f['ps']]
        zs = Fraction(f['zs']) if f.get('zs') is not None else Fraction(1)
        n = cross(iop[3:6], iop[0:3])
        atoms = []
        for r in range(3):
            atoms += [iop[3 + r] * ps[0], iop[r] * ps[1], n[r] * zs, ipp[r], iop[3 + r] * iop[r]]
            atoms += [iop[3 + r] * ps[0] * (f['rows'] - 1), iop[r] * ps[1] * (f['cols'] - 1)]
        for a in iop[3:6]:
            for b in iop[0:3]:
                atoms.append(a * b)
        for g in files:
            d = [Fraction(x) - y for x, y in zip(g['ipp'], ipp)]
            atoms += d + [x * (S - 1) for x in d]
        for a in atoms:
            e = _lsb_exp(a)
            if e is not None and e < -44:
                return False
            if abs(a) >= 32:
                return False
    return True


# ------------------------------------------------------------------------------------------------
# generation

# (RescaleSlope, RescaleIntercept): integral and dyadic fractional values (float arithmetic of the rescale is exact)
RESCALES = [(None, None), (None, None), (1, 0), (2, -3), (3, None), (None, 10), (1, -7), (0.5, None), (0.25, 0.5), (1.5, -2), (20, None)]

# explicit ordering keys (stacklib value rules: integers for the *Number(s) / Identifier tags, floats otherwise)
TIME_KEYS = ['TriggerTime', 'EchoTime', 'InversionTime', 'AcquisitionNumber', 'InstanceNumber', 'FlipAngle']
VEC_KEYS = ['EchoNumbers', 'TemporalPositionIdentifier', 'FlipAngle']
# keys the time guess may rest on; those after RepetitionTime in sort_guesses only when RepetitionTime cannot form a grid of its own
GUESS_EARLY = ['EchoTime', 'InversionTime']
GUESS_LATE = ['FlipAngle', 'TriggerTime', 'AcquisitionNumber', 'InstanceNumber']
# RepetitionTime values exactly representable in float32 (pixdim)
TR_VALUES = [2000.0, 500.0, 750.0, 40.0, 1234.5, 3000.25, 8000.0, 12.125, 65.0, 2500.0]

QUERY_ORDERS = [['affine', 'data', 'affine'], ['affine', 'data', 'affine'], ['affine', 'shape', 'data', 'affine'], ['affine', 'affine', 'data'],
                ['shape', 'affine', 'data'], ['data', 'affine', 'shape', 'affine'], ['data', 'shape', 'affine']]

ACQ_PATTERNS = ['ascending', 'descending', 'interleaved', 'irregular', 'equal', 'inconsistent', 'missing', 'none_in_some', 'one_bad']
TR_VARIANTS = ['unique', 'unique', 'varying', 'absent', 'some']
PHASE_VARIANTS = ['ROW', 'COL', 'ROW', 'COL', 'varying', 'absent', 'some', 'other']


def acq_offsets(rng, pattern, S):
    """slice s -> offset in units of 1/8 s"""
    if pattern in ('ascending', 'inconsistent', 'none_in_some', 'one_bad'):
        return [s * 2 for s in range(S)]
    if pattern == 'descending':
        return [(S - 1 - s) * 3 for s in range(S)]
    if pattern == 'interleaved':
        order = list(range(0, S, 2)) + list(range(1, S, 2))
        off = [0] * S
        for k, s in enumerate(order):
            off[s] = 2 * k
        return off
    if pattern == 'irregular':
        vals = rng.sample(range(0, 8 * S + 8), S)
        if S > 1 and len(set(vals)) == 1:
            vals[0] += 1
        return vals
    return [0] * S          # equal


def make_stack_case(rng, S, T, V, orient='ax', direction=1, gap=2.0, origin=(0., 0., 0.), rows=2, cols=3, ps=(1.0, 1.0),
                    zs=None, mode=None, bits=12, pixrep=0, slope=None, intercept=None, acq='missing', tr='unique',
                    phase='ROW', vo='LAS', vo2=None, tagrules=None, consts=None, kind=None, shuffle=True, alloc=16,
                    pixmix=None, bad_vol=None, time_key=None, vec_key=None, tr_value=2000.0,
                    tm_style=None):
    """One complete S x T x V grid as a conversion case.  mode: None (chosen from the dims) | 'none' | 'guess' | 'time' |
    'vec' | 'timevec'.  Extra `tagrules` / `consts` are passed to stacklib.make_grid (stacklib rule names).
    Pixel format: `bits`, `pixrep`, `slope`, `intercept`, `alloc` (BitsAllocated 8 | 16 | 32) apply to every file;
    acq='one_bad': every volume has the (regular, ascending) pattern except volume number `bad_vol` = t + T * v
    (random when None), whose slices were acquired in the opposite order.
    `tm_style`: None (HHMMSS.ffffff) | 'trim' | 'colon' | 'full' | 'mixed' (per file) - the TM form of AcquisitionTime.
    `pixmix` = a list drawn from {'rescale', 'bits', 'sign', 'alloc'} makes that aspect differ BETWEEN the files."""
    if mode is None:
        mode = 'timevec' if (V > 1 and T > 1) else 'vec' if V > 1 else rng.choice(['guess', 'time']) if T > 1 else rng.choice(['none', 'time'])
    rules = dict(tagrules or {})
    cs = dict(consts or {})
    time_order = vector_order = None
    if mode in ('time', 'timevec'):
        tkey = time_key or 'TriggerTime'
        rules.setdefault(tkey, 't')
        time_order = {'key': tkey, 'abs': None}
    if mode in ('vec', 'timevec'):
        vkey = vec_key or 'EchoNumbers'
        rules.setdefault(vkey, 'v')
        vector_order = {'key': vkey, 'abs': None}
    if mode == 'guess':
        rules.setdefault(time_key or 'EchoTime', 't')
    files = sl.make_grid(rng, S, T, V, 'ax', 1, 1.0, (0., 0., 0.), rows, cols, ps, rules, cs)
    iop = ALL_ORIENTS[orient]
    nrm = cross(iop[3:6], iop[0:3])
    offs = acq_offsets(rng, acq, S)
    offs_bad = acq_offsets(rng, 'descending', S) if S > 1 else offs
    if acq == 'one_bad' and bad_vol is None:
        bad_vol = rng.randrange(T * V)
    npx = rows * cols
    nfiles = len(files)
    # per-file pixel format
    pixmix = list(pixmix or [])
    fmts = []
    for k in range(nfiles):
        a, b, pr, al, sl_, ic = alloc, bits, pixrep, alloc, slope, intercept
        if 'alloc' in pixmix:
            al = rng.choice([8, 16, 16, 32])
        if 'sign' in pixmix:
            pr = rng.choice([0, 1])
        if al == 32:
            pr = 1                                  # uint32 is outside the modelled dtype lattice
        if 'bits' in pixmix:
            b = rng.choice([8, 12, 15, 16])
        b = min(b, al)
        if 'rescale' in pixmix:
            sl_, ic = rng.choice(RESCALES)
        fmts.append({'alloc': al, 'bits': b, 'pixrep': pr, 'slope': sl_, 'intercept': ic})
    if 'rescale' in pixmix and nfiles > 1 and len(set((f['slope'], f['intercept']) for f in fmts)) == 1:
        fmts[0]['slope'], fmts[0]['intercept'] = None, None
        fmts[-1]['slope'], fmts[-1]['intercept'] = 0.5, 10
    # raw stored values inside each file's stored range, chosen so that the RESCALED values are unique in the case
    used = set()
    raw = []
    for k in range(nfiles):
        fk = fmts[k]
        lo = 0 if fk['pixrep'] == 0 else -(1 << (fk['bits'] - 1))
        hi = (1 << fk['bits']) - 1 if fk['pixrep'] == 0 else (1 << (fk['bits'] - 1)) - 1
        a = Fraction(1) if fk['slope'] is None else Fraction(fk['slope'])
        b = Fraction(0) if fk['intercept'] is None else Fraction(fk['intercept'])
        mine = []
        tries = 0
        while len(mine) < npx:
            tries += 1
            if tries > 4000:
                raise ValueError('no assignment with unique rescaled values')
            x = rng.randint(lo, hi)
            y = a * x + b
            if y in used:
                continue
            used.add(y)
            mine.append(x)
        raw.append(mine)
    some_mask = [rng.random() < 0.5 for _ in range(nfiles)]
    if nfiles > 1:
        some_mask[0], some_mask[1] = True, False
    for k, f in enumerate(files):
        s, t, v = f['cell']
        step = Fraction(direction) * Fraction(gap) * s
        f['iop'] = [float(x) for x in iop]
        f['ipp'] = [float(Fraction(origin[i]) + step * nrm[i]) for i in range(3)]
        f['ps'] = [float(ps[0]), float(ps[1])]
        f['zs'] = None if zs is None else float(zs)
        f['bits_stored'] = fmts[k]['bits']
        f['pixrep'] = fmts[k]['pixrep']
        f['alloc'] = fmts[k]['alloc']
        f['slope'] = fmts[k]['slope']
        f['intercept'] = fmts[k]['intercept']
        f['pixels'] = [[raw[k][i * cols + j] for j in range(cols)] for i in range(rows)]
        tags = f['tags']
        # acquisition times: volume (t, v) starts 4 s after the previous one
        if acq not in ('missing',):
            base = 36000 + 4 * (t + T * v)
            o = offs_bad[s] if ((acq == 'inconsistent' and (t + T * v) % 2 == 1) or (acq == 'one_bad' and t + T * v == bad_vol)) else offs[s]
            if not (acq == 'none_in_some' and not some_mask[k]):
                tm = sl.tm_string(base + Fraction(o, 8))
                if tm_style is not None:
                    tm = sl.tm_restyle(tm, rng.choice(['trim', 'colon', 'full']) if tm_style == 'mixed' else tm_style)
                tags['AcquisitionTime'] = tm
        if tr == 'unique':
            tags['RepetitionTime'] = float(tr_value)
        elif tr == 'varying':
            tags['RepetitionTime'] = 500.0 if k % 2 else float(tr_value)
        elif tr == 'some' and some_mask[k]:
            tags['RepetitionTime'] = float(tr_value)
        if phase in ('ROW', 'COL'):
            tags['InPlanePhaseEncodingDirection'] = phase
        elif phase == 'varying':
            tags['InPlanePhaseEncodingDirection'] = 'ROW' if k % 2 else 'COL'
        elif phase == 'some' and some_mask[k]:
            tags['InPlanePhaseEncodingDirection'] = 'ROW'
        elif phase == 'other':
            tags['InPlanePhaseEncodingDirection'] = 'OTHER'
    order = list(range(nfiles))
    if shuffle:
        rng.shuffle(order)
    exact = orient in EXACT_ORIENTS and geometry_exact(files, (S, T, V)) and all(is_float_exact(x) for f in files for x in f['ipp'])
    case = {'kind': kind or ('%s-%s' % (ORIENT_CLASS[orient], 'exact' if exact else 'approx')),
            'time_order': time_order, 'vector_order': vector_order, 'files': files, 'add_order': order,
            'vo': vo, 'exact': bool(exact), 'pos_exact': bool(exact and positions_exact(files)), 'dims': [S, T, V],
            'info': {'orient': orient, 'direction': direction, 'mode': mode, 'acq': acq, 'tr': tr, 'phase': phase,
                     'bits': bits, 'pixrep': pixrep, 'slope': slope, 'intercept': intercept, 'alloc': alloc,
                     'pixmix': pixmix, 'bad_vol': bad_vol, 'time_key': time_key, 'vec_key': vec_key, 'tm_style': tm_style}}
    den = 1
    for f in files:
        for row in true_pixels(f):
            for x in row:
                den = max(den, Fraction(x).denominator)
    case['den'] = den                      # rescaled values are multiples of 1/den (a power of two)
    # public queries on a freshly filled stack, in this order (their order must not matter)
    case['queries'] = list(rng.choice(QUERY_ORDERS))
    if vo2 is not None:
        case['vo2'] = vo2
    return case


def gen_stack_case(rng, tier, **over):
    """Random complete stack (see make_stack_case for the keyword overrides)."""
    big = tier != 'quick'
    kw = {}
    kw['S'] = rng.choice([1, 2, 2, 3, 3] + ([4, 5] if big else []))
    kw['T'] = rng.choice([1, 1, 2, 2, 3] + ([4] if big else []))
    kw['V'] = rng.choice([1, 1, 1, 2, 3] + ([4] if big else []))
    kw['orient'] = rng.choice(sorted(EXACT_ORIENTS) * 3 + sorted(APPROX_ORIENTS))
    kw['direction'] = rng.choice([1, -1])
    exactish = kw['orient'] in EXACT_ORIENTS and rng.random() < 0.9
    kw['gap'] = rng.choice([0.5, 1.0, 2.0, 2.5, 3.0]) if exactish else rng.choice([1.1, 0.7, 2.0])
    kw['origin'] = [rng.choice([-8., -1.5, 0., 4., 16.25]) for _ in range(3)]
    kw['rows'], kw['cols'] = rng.choice([(2, 3), (3, 2), (2, 4), (3, 4), (3, 3), (2, 2), (4, 2), (5, 3), (4, 6), (6, 5), (2, 7)])
    kw['ps'] = rng.choice([[1.0, 1.0], [0.5, 0.75], [2.0, 2.0], [0.25, 1.5]]) if exactish else rng.choice([[0.7, 0.9], [1.0, 1.0]])
    kw['zs'] = rng.choice([None, 1.5, 3.0, 0.5])
    kw['pixrep'] = rng.choice([0, 0, 1])
    kw['alloc'] = rng.choice([16, 16, 16, 16, 8, 32])
    kw['pixmix'] = [m for m in ('rescale', 'bits', 'sign', 'alloc') if rng.random() < 0.3]
    kw['bits'] = rng.choice([8, 12, 15, 16, 16])
    kw['slope'], kw['intercept'] = rng.choice(RESCALES)
    kw['acq'] = rng.choice(ACQ_PATTERNS)
    kw['tr'] = rng.choice(TR_VARIANTS)
    kw['phase'] = rng.choice(PHASE_VARIANTS)
    kw['vo'] = rng.choice(CODES48 + CODES48 + ['', '', '', None, None]) if rng.random() < 0.85 else rng.choice(CODES48).lower()
    kw['vo2'] = rng.choice(CODES48 + ['', ''])
    kw['tr_value'] = rng.choice(TR_VALUES)
    kw['vec_key'] = rng.choice(VEC_KEYS)
    kw['time_key'] = rng.choice([k for k in TIME_KEYS if k != kw['vec_key']])
    kw.update(over)
    if kw.get('mode') == 'guess' or (kw.get('mode') is None and kw['V'] == 1 and kw['T'] > 1 and rng.random() < 0.5):
        kw['mode'] = 'guess'
        kw['time_key'] = rng.choice(GUESS_EARLY + (GUESS_LATE if kw['tr'] != 'varying' else []))
    elif kw.get('mode') is None and kw['V'] == 1 and kw['T'] > 1:
        kw['mode'] = 'time'
    if 'tm_style' not in kw and kw.get('mode') != 'guess' and rng.random() < 0.35:
        # other valid TM forms (HH, HHMM, HHMMSS, fewer fraction digits, colons); not when the time key is guessed:
        # AcquisitionTime is a guess key compared as a STRING, and mixed forms do not sort like times
        kw['tm_style'] = rng.choice(['trim', 'colon', 'mixed', 'mixed'])
    try:
        return make_stack_case(rng, **kw)
    except ValueError:
        # the requested mixture does not leave room for unique values: fall back to one 16-bit format
        kw.update(pixmix=[m for m in kw.get('pixmix', []) if m == 'rescale'], alloc=16, bits=16)
        return make_stack_case(rng, **kw)


# ------------------------------------------------------------------------------------------------
# data sets, abstraction

def stored_dtype(spec):
    return ('int%d' if spec.get('pixrep') else 'uint%d') % spec.get('alloc', 16)


def build_ds(spec):
    """stacklib.build_ds + unique pixels, BitsStored, PixelRepresentation, rescale, SliceThickness"""
    import numpy as np
    ds = sl.build_ds(spec)
    if 'bits_stored' in spec:
        ds.BitsStored = int(spec['bits_stored'])
        ds.HighBit = int(spec['bits_stored']) - 1
    ds.PixelRepresentation = int(spec.get('pixrep', 0))
    ds.BitsAllocated = int(spec.get('alloc', 16))
    if spec.get('pix', True) and 'pixels' in spec:
        ds.PixelData = np.array(spec['pixels'], dtype=stored_dtype(spec)).tobytes()
    if spec.get('slope') is not None:
        ds.RescaleSlope = spec['slope']
    if spec.get('intercept') is not None:
        ds.RescaleIntercept = spec['intercept']
    if spec.get('zs') is not None:
        ds.SliceThickness = spec['zs']
    return ds


def true_pixels(spec):
    """ground truth: rescaled pixel values of a spec"""
    sl_ = spec.get('slope')
    ic = spec.get('intercept')
    a = Fraction(1) if sl_ is None else Fraction(sl_)
    b = Fraction(0) if ic is None else Fraction(ic)
    out = [[a * x + b for x in row] for row in spec['pixels']]
    return [[int(x) if x.denominator == 1 else x for x in row] for row in out]


def scaled_pixels(case, spec):
    """true rescaled pixel values times the case's common denominator: the integers the observation holds"""
    den = int(case.get('den', 1))
    return [[int(Fraction(x) * den) for x in row] for row in true_pixels(spec)]


def fr(x):
    x = Fraction(x)
    return [x.numerator, x.denominator]


def mat_fr(m):
    return [[fr(float(x)) for x in row] for row in m]


def abstract_gfile(dcmstack, spec, ds, case):
    """What the conversion sees of one data set, taken from nibabel's wrapper, from_dicom_wrapper and the default
    extractor (NOT from the stack): the input of the Coq model Conv.Geom (superset of stacklib.abstract_file)."""
    import numpy as np
    from nibabel.nicom.dicomwrappers import wrapper_from_data
    from dcmstack.extract import default_extractor
    a = sl.abstract_file(dcmstack, spec, ds, case)
    dw = wrapper_from_data(ds)
    meta = default_extractor(ds)
    data = np.asarray(dw.get_data())
    assert data.ndim == 2
    den = int(case.get('den', 1))
    pix = []
    for row in data.tolist():
        r = []
        for x in row:
            y = Fraction(x) * den           # values are multiples of 1/den; the model works on value * den
            assert y.denominator == 1, 'pixel value is not a multiple of 1/den'
            r.append(int(y))
        pix.append(r)
    a['gpix'] = pix
    # the rescale as nibabel applies it: stored pixels and (slope, intercept) = scale_factors[0]
    a['stored'] = [[int(x) for x in row] for row in np.asarray(dw.get_unscaled_data()).tolist()]
    sc = dw.scale_factors[0]
    a['slope'], a['icpt'] = fr(float(sc[0])), fr(float(sc[1]))
    a['den'] = den
    iopm = dw.image_orient_patient          # (3, 2): column 0 = iop[0:3], column 1 = iop[3:6]
    a['giop'] = [fr(float(iopm[r, 0])) for r in range(3)] + [fr(float(iopm[r, 1])) for r in range(3)]
    a['gipp'] = [fr(float(x)) for x in dw.image_position]
    vs = dw.voxel_sizes
    a['gps'] = [fr(float(vs[0])), fr(float(vs[1]))]
    a['gzs'] = fr(float(vs[2]))
    nw = dcmstack.dcmmeta.NiftiWrapper.from_dicom_wrapper(dw, meta)
    a['gdtype'] = str(nw.nii_img.get_data_dtype())
    a['faff'] = mat_fr(np.asarray(nw.nii_img.affine, dtype=np.float64).tolist())
    b = meta.get('BitsStored')
    a['gbits'] = None if b is None else int(b)
    t = meta.get('AcquisitionTime')
    assert t is None or isinstance(t, str)
    a['gacq'] = t
    return a


def cQ(x):
    return cq(Fraction(x[0], x[1]))


def cmat(m):
    return clist(clist(cQ(x) for x in row) for row in m)


def coq_gfile(a):
    return '(mkgfile %s %s %s %s %s %s %s %s %s)' % (
        sl.coq_file(a),
        clist(clist(cz(x) for x in row) for row in a['gpix']),
        clist(cQ(x) for x in a['giop']), clist(cQ(x) for x in a['gipp']),
        cpair(cQ(a['gps'][0]), cQ(a['gps'][1])), cQ(a['gzs']),
        cstr(a['gdtype']), copt(a['gbits'], cnat), copt(a['gacq'], cstr))


# ------------------------------------------------------------------------------------------------
# running the real code

def build_stack(dcmstack, case, meta_of=None, datasets=None):
    """-> (stack, datasets, wid): a DicomStack with the case's orderings, the files added in case['add_order'];
    `meta_of(spec, ds) -> dict` (optional) is passed as add_dcm's meta argument; wid: id(NiftiWrapper) -> file id."""
    st = dcmstack.DicomStack(time_order=sl.make_ordering(dcmstack, case.get('time_order')),
                             vector_order=sl.make_ordering(dcmstack, case.get('vector_order')))
    dss = datasets if datasets is not None else [build_ds(f) for f in case['files']]
    wid = {}
    for i in case['add_order']:
        n0 = len(st._files_info)
        if meta_of is None:
            st.add_dcm(dss[i])
        else:
            st.add_dcm(dss[i], meta_of(case['files'][i], dss[i]))
        assert len(st._files_info) == n0 + 1
        wid[id(st._files_info[-1][0])] = case['files'][i]['id']
    return st, dss, wid


class capture_slice_times(object):
    """context manager: records the argument of every Nifti1Header.set_slice_times call"""
    def __enter__(self):
        import numpy as np
        import nibabel as nb
        self.nb = nb
        self.calls = []
        self.orig = nb.Nifti1Header.set_slice_times
        calls, orig = self.calls, self.orig

        def wrapped(hdr, slice_times):
            calls.append([float(x) for x in np.asarray(slice_times, dtype=np.float64).ravel().tolist()])
            return orig(hdr, slice_times)
        nb.Nifti1Header.set_slice_times = wrapped
        return self

    def __exit__(self, *a):
        self.nb.Nifti1Header.set_slice_times = self.orig


def call_to_nifti(stack, vo, embed):
    if vo is None:
        return stack.to_nifti(embed_meta=embed)
    return stack.to_nifti(vo, embed_meta=embed)


def run_to_nifti(dcmstack, case, embed=False, meta_of=None, vo='__case__', datasets=None):
    """-> (stack, wid, image or None, error class or None, captured set_slice_times arguments)"""
    st, dss, wid = build_stack(dcmstack, case, meta_of, datasets)
    vo = case.get('vo') if vo == '__case__' else vo
    err = None
    img = None
    with capture_slice_times() as cap:
        try:
            img = call_to_nifti(st, vo, embed)
        except Exception as e:
            # ANY exception of the conversion call is an observation (a complete stack must convert)
            nm = type(e).__name__
            err = ERRMAP.get(nm, 'ECrash:' + nm)
    return st, wid, img, err, cap.calls


def observe_image(img, den=1):
    """array / affine / header fields of a conversion result as plain values (floats exact); voxel values are
    reported multiplied by `den` (they are multiples of 1/den)"""
    import numpy as np
    hdr = img.header
    arr = np.asanyarray(img.dataobj)
    flat = []
    for x in np.ascontiguousarray(arr).ravel().tolist():
        y = Fraction(x) * den
        assert y.denominator == 1
        flat.append(int(y))
    o = {'shape': [int(x) for x in img.shape], 'data': flat, 'dtype': str(img.get_data_dtype()),
         'array_dtype': str(arr.dtype),
         'affine': [[float(x) for x in row] for row in np.asarray(img.affine, dtype=np.float64).tolist()],
         'dim_info': [None if x is None else int(x) for x in hdr.get_dim_info()],
         'pixdim4': float(hdr['pixdim'][4]),
         'units': [str(x) for x in hdr.get_xyzt_units()]}
    try:
        o['stimes_get'] = [float(x) for x in hdr.get_slice_times()]
    except Exception as e:
        o['stimes_get'] = None
    return o


def unravel(shape, off):
    idx = []
    for n in reversed(shape):
        idx.append(off % n)
        off //= n
    return list(reversed(idx))


def value_index(shape, flat):
    """value -> list of multi-indices holding it"""
    d = {}
    for off, v in enumerate(flat):
        d.setdefault(v, []).append(unravel(shape, off))
    return d


def locate_files(case, shape, flat):
    """{file id: voxel index of that file's pixel (0, 0)} through the unique pixel values (None when not found once)"""
    vi = value_index(shape, flat)
    out = {}
    for f in case['files']:
        hits = vi.get(scaled_pixels(case, f)[0][0], [])
        out[f['id']] = hits[0] if len(hits) == 1 else None
    return out


def stack_state(st, wid):
    """The ONE place that reads DicomStack's private state (order of _files_info, _shape_dirty); only passed through to
    the Coq literal for the state-machine correspondences that need it - no check of C02 / C20 compares it.  A missing
    attribute gives (None, None), never a crash of the case."""
    try:
        return [wid[id(fi[0])] for fi in st._files_info], bool(st._shape_dirty)
    except Exception:
        return None, None


def reported_transform(img):
    """meta_ext.reorient_transform of a conversion result made with embed_meta=True, as nested float lists"""
    import numpy as np
    for ext in img.header.extensions:
        if hasattr(ext, 'reorient_transform'):
            return [[float(x) for x in row] for row in np.asarray(ext.reorient_transform, dtype=np.float64).tolist()]
    raise ValueError('no DcmMeta extension in the result')


def run_queries(dcmstack, case, den):
    """get_affine() / get_shape() / get_data() in the case's order on a FRESH stack filled in the case's add order (nothing else
    has been asked of it before): one record per query"""
    import numpy as np
    st, _, _ = build_stack(dcmstack, case, None, [build_ds(f) for f in case['files']])
    out = []
    for q in case['queries']:
        try:
            if q == 'affine':
                out.append({'op': q, 'affine': [[float(x) for x in row] for row in np.array(st.get_affine(), dtype=np.float64).tolist()]})
            elif q == 'shape':
                out.append({'op': q, 'shape': [int(x) for x in st.get_shape()]})
            else:
                arr = np.ascontiguousarray(st.get_data())
                flat = []
                for x in arr.ravel().tolist():
                    y = Fraction(x) * den
                    flat.append(int(y) if y.denominator == 1 else None)
                out.append({'op': q, 'shape': [int(x) for x in arr.shape], 'data': flat})
        except Exception as e:
            out.append({'op': q, 'err': ERRMAP.get(type(e).__name__, 'ECrash:' + type(e).__name__)})
    return out


def run_conversion_case(dcmstack, case):
    """The observation shared by C02 and the C20 header part: to_nifti(vo, embed_meta=False) (array, dtype, affine, header,
    slice-time argument), the same conversion with embed_meta=True (its image and the REPORTED reorientation transform),
    and a second voxel order for the invariance clause."""
    den = int(case.get('den', 1))
    dss = [build_ds(f) for f in case['files']]
    absf = [abstract_gfile(dcmstack, f, ds, case) for f, ds in zip(case['files'], dss)]
    st, wid, img, err, calls = run_to_nifti(dcmstack, case, False, None, datasets=dss)
    ids, dirty = stack_state(st, wid)
    obs = {'files': absf, 'ids': ids if ids is not None else [], 'dirty': bool(dirty), 'state_ok': ids is not None,
           'stimes_arg': calls[-1] if calls else None}
    if err is not None:
        obs['err'] = err          # (the key is present only when to_nifti raised)
    if img is not None:
        try:
            obs.update(observe_image(img, den))
        except Exception as e:
            # e.g. voxels that were never written (np.empty garbage): the image is not a rearrangement of the sources
            obs['err'] = 'ECrash:unobservable-image(%s)' % type(e).__name__
    if obs.get('err') is None:
        # the reported transform lives in the meta-data extension only
        _, _, img3, err3, _ = run_to_nifti(dcmstack, case, True, None, datasets=[build_ds(f) for f in case['files']])
        if err3 is not None:
            obs['emb'] = {'err': err3}
        else:
            try:
                o3 = observe_image(img3, den)
                obs['emb'] = {'shape': o3['shape'], 'data': o3['data'], 'affine': o3['affine'], 'T': reported_transform(img3)}
            except Exception as e:
                obs['emb'] = {'err': 'ECrash:unobservable-image(%s)' % type(e).__name__}
    if case.get('queries'):
        obs['q'] = run_queries(dcmstack, case, den)
    if 'vo2' in case and obs.get('err') is None:
        if len(case['files']) % 2 == 0 and st is not None:
            # second use of the SAME stack object (it has just been converted with the case's own voxel order): the
            # conversion under test must not depend on that earlier call (wave-5 seed C02_eseed1); odd-sized cases use a fresh stack
            img2, err2 = None, None
            try:
                img2 = call_to_nifti(st, case['vo2'], False)
            except Exception as e:
                err2 = ERRMAP.get(type(e).__name__, 'ECrash:' + type(e).__name__)
        else:
            dss2 = [build_ds(f) for f in case['files']]
            st2, wid2, img2, err2, calls2 = run_to_nifti(dcmstack, case, False, None, vo=case['vo2'], datasets=dss2)
        obs['alt'] = {} if err2 is None else {'err': err2}
        if img2 is not None:
            try:
                obs['alt'].update(observe_image(img2, den))
            except Exception as e:
                obs['alt'] = {'err': 'ECrash:unobservable-image(%s)' % type(e).__name__}
    return obs


# ------------------------------------------------------------------------------------------------
# Coq case

def coq_rescale(a):
    return '(mkrescale %s %s %s %s)' % (clist(clist(cz(x) for x in row) for row in a['stored']), cQ(a['slope']), cQ(a['icpt']),
                                        cq(Fraction(a['den'])))


def coq_obs(case, obs):
    e = obs.get('err')
    if e is not None and e.startswith('ECrash'):
        e = 'ECrash'
    if e is not None or 'shape' not in obs:
        return ('(mkobs %s %s %s [] [] (@nil N) [] (None, None, None) 0%%Q ((@nil N), (@nil N)) None)' %
                (copt(e or 'ECrash', lambda x: x), clist(cnat(i) for i in obs['ids']), cbool(obs['dirty'])))
    di = obs['dim_info']
    st = obs['stimes_arg']
    return '(mkobs None %s %s %s %s %s %s (%s, %s, %s) %s (%s, %s) %s)' % (
        clist(cnat(i) for i in obs['ids']), cbool(obs['dirty']),
        clist(cnat(x) for x in obs['shape']), clist(cz(x) for x in obs['data']), cstr(obs['dtype']),
        clist(clist(cq(x) for x in row) for row in obs['affine']),
        copt(di[0], cnat), copt(di[1], cnat), copt(di[2], cnat), cq(obs['pixdim4']),
        cstr(obs['units'][0]), cstr(obs['units'][1]),
        copt(st, lambda l: clist(cq(x) for x in l)))


def coq_case(case, obs):
    if not isinstance(obs, dict) or 'crash' in obs or 'files' not in obs:
        raise ValueError('implementation crashed: %r' % (obs,))
    gs = [obs['files'][i] for i in case['add_order']]
    emb = obs.get('emb') or {}
    T = emb.get('T')
    qaff = next((r['affine'] for r in obs.get('q') or [] if r.get('op') == 'affine' and 'affine' in r), None)
    return '(mkcase %s %s %s %s %s %s %s %s %s %s %s)' % (
        cbool(case.get('time_order') is not None), cbool(case.get('vector_order') is not None),
        clist(coq_gfile(a) for a in gs), copt(case.get('vo'), cstr), cbool(bool(case['exact'])), cbool(bool(case.get('pos_exact', False))),
        clist(cmat(a['faff']) for a in gs), clist(coq_rescale(a) for a in gs),
        copt(qaff, lambda m: clist(clist(cq(x) for x in row) for row in m)),
        copt(T, lambda m: clist(clist(cq(x) for x in row) for row in m)), coq_obs(case, obs))


# ------------------------------------------------------------------------------------------------
# ground truth (oracle side, Fractions, independent of the Coq model)

def ras(v):
    return [-v[0], -v[1], v[2]]


def pixel_world(spec, i, j):
    """DICOM patient position of pixel (row i, column j) of a spec, converted LPS -> RAS (PS3.3 C.7.6.2.1.1)"""
    ipp = [Fraction(x) for x in spec['ipp']]
    iop = [Fraction(x) for x in spec['iop']]
    ps = [Fraction(x) for x in spec['ps']]
    return ras([ipp[r] + i * ps[0] * iop[3 + r] + j * ps[1] * iop[r] for r in range(3)])


def apply_affine(aff, idx):
    A = [[Fraction(x) for x in row] for row in aff]
    v = [Fraction(x) for x in idx[:3]] + [Fraction(1)]
    return [sum(A[r][c] * v[c] for c in range(4)) for r in range(3)]


def vec_close(a, b, exact, tol=Fraction(1, 10 ** 6)):
    if exact:
        return all(x == y for x, y in zip(a, b))
    return all(abs(x - y) <= tol for x, y in zip(a, b))


def file_dtype(spec):
    """dtype of the single-file image: the stored integer type, float64 once a rescale is applied"""
    a = 1 if spec.get('slope') is None else spec['slope']
    b = 0 if spec.get('intercept') is None else spec['intercept']
    return 'float64' if (a != 1 or b != 0) else stored_dtype(spec)


def world_content(case, ob):
    """{(world x, y, z, t, v): value} of an observed image"""
    shape, flat, aff = ob['shape'], ob['data'], ob['affine']
    out = {}
    for off, val in enumerate(flat):
        idx = unravel(shape, off)
        w = tuple(apply_affine(aff, idx)) + tuple(idx[3:])
        out[w] = val
    return out


def crash_message(obs):
    """rule: a crash observation is never silent"""
    if not isinstance(obs, dict):
        return 'crash: the harness returned %r' % (obs,)
    if 'crash' in obs:
        return 'crash: unexpected exception %s outside the conversion call (%s)' % (obs.get('crash'), str(obs.get('msg', ''))[:160])
    return None


def not_converted(case, err, how=''):
    return 'not-converted: complete %dx%dx%d stack was not converted%s: %s' % (tuple(case['dims']) + (how, err))


def abstraction_mismatch(case, obs):
    """The per-file abstraction handed to the Coq model is taken from the library (DicomWrapper, from_dicom_wrapper, default
    extractor); it must agree with the GENERATOR's ground truth, otherwise model and oracle would judge different inputs."""
    den = int(case.get('den', 1))
    for spec, a in zip(case['files'], obs['files']):
        fid = spec['id']
        if a.get('gpix') != scaled_pixels(case, spec):
            return 'abstraction: file %d: DicomWrapper.get_data() is not RescaleSlope x stored + RescaleIntercept' % fid
        if a.get('stored') != [[int(x) for x in row] for row in spec['pixels']]:
            return 'abstraction: file %d: stored pixels read back differ from the generated ones' % fid
        if a.get('gdtype') != file_dtype(spec):
            return 'abstraction: file %d: single-file image has dtype %s, the data set stores %s' % (fid, a.get('gdtype'), file_dtype(spec))
        if a.get('gbits') != spec['bits_stored']:
            return 'abstraction: file %d: BitsStored %r read back as %r' % (fid, spec['bits_stored'], a.get('gbits'))
        if a.get('gacq') != spec['tags'].get('AcquisitionTime'):
            return 'abstraction: file %d: AcquisitionTime %r read back as %r' % (fid, spec['tags'].get('AcquisitionTime'), a.get('gacq'))
        if [Fraction(*x) for x in a['giop']] != [Fraction(x) for x in spec['iop']] or \
           [Fraction(*x) for x in a['gipp']] != [Fraction(x) for x in spec['ipp']] or \
           [Fraction(*x) for x in a['gps']] != [Fraction(x) for x in spec['ps']]:
            return 'abstraction: file %d: orientation / position / spacing read back differ from the generated ones' % fid
        zs = Fraction(spec['zs']) if spec.get('zs') is not None else Fraction(1)
        if Fraction(*a['gzs']) != zs:
            return 'abstraction: file %d: slice thickness %s read back as %s' % (fid, zs, Fraction(*a['gzs']))
    return None


def slice_rank(case, spec):
    """generator truth: index of a file's slice in its volume when the slices are ordered by increasing position along the
    slice normal (exact arithmetic on the generated ImagePositionPatient / ImageOrientationPatient)"""
    vol = [f for f in case['files'] if f['cell'][1:] == spec['cell'][1:]]
    keys = sorted(sl.pos_key(f) for f in vol)
    return keys.index(sl.pos_key(spec))


def check_values_geometry(case, ob, exact, what=''):
    """every source pixel exactly once, at a voxel whose world position is the pixel's patient position, in its own volume"""
    shape, flat = ob['shape'], ob['data']
    npix = sum(f['rows'] * f['cols'] for f in case['files'])
    if len(flat) != npix:
        return 'values: %soutput has %d voxels for %d source pixels' % (what, len(flat), npix)
    vi = value_index(shape, flat)
    for f in case['files']:
        tp = scaled_pixels(case, f)
        for i in range(f['rows']):
            for j in range(f['cols']):
                hits = vi.get(tp[i][j], [])
                if len(hits) != 1:
                    return 'values: %spixel (%d,%d) of file %d (rescaled value %s) occurs %d times in the output' % (what, i, j, f['id'], true_pixels(f)[i][j], len(hits))
                w = apply_affine(ob['affine'], hits[0])
                if not vec_close(w, pixel_world(f, i, j), exact):
                    return ('geometry: %spixel (%d,%d) of file %d sits at voxel %s whose world position %s is not its patient position %s'
                            % (what, i, j, f['id'], hits[0], [float(x) for x in w], [float(x) for x in pixel_world(f, i, j)]))
                s, t, v = f['cell']
                if list(hits[0][3:]) != [t, v][:len(shape) - 3]:
                    return 'values: %sfile %d of volume (t=%d, v=%d) sits at %s' % (what, f['id'], t, v, hits[0])
    return None


def check_transform(case, emb):
    """the REPORTED reorientation transform maps the index of every voxel of the result to the index the same source pixel
    has in the unreordered array: (row i, column j, rank of the slice along the slice normal)"""
    T = [[Fraction(x) for x in row] for row in emb['T']]
    if len(T) != 4 or any(len(r) != 4 for r in T):
        return 'transform: the reported reorientation transform is not 4 x 4'
    vi = value_index(emb['shape'], emb['data'])
    for f in case['files']:
        tp = scaled_pixels(case, f)
        want_s = slice_rank(case, f)
        for i in range(f['rows']):
            for j in range(f['cols']):
                hits = vi.get(tp[i][j], [])
                if len(hits) != 1:
                    return None            # the values clause reports this
                got = apply_affine(emb['T'], hits[0])
                if got != [i, j, want_s]:
                    return ('transform: pixel (%d,%d) of file %d (slice %d of its volume) sits at voxel %s; the reported transform maps that to %s'
                            % (i, j, f['id'], want_s, hits[0][:3], [float(x) for x in got]))
    return None


def check_queries(case, q, exact):
    """get_affine / get_shape / get_data asked in any order of a freshly filled complete stack: every one succeeds, EVERY affine
    returned (also one asked for before anything else) maps the voxels of the data array to their patient positions, and
    repeated queries agree"""
    if not q:
        return None
    for k, r in enumerate(q):
        if 'err' in r:
            return 'not-converted: complete %dx%dx%d stack: get_%s() as query #%d raised: %s' % (tuple(case['dims']) + (r['op'], k + 1, r['err']))
    datas = [r for r in q if r['op'] == 'data']
    affs = [(k, r) for k, r in enumerate(q) if r['op'] == 'affine']
    shapes = [r['shape'] for r in q if 'shape' in r]
    if any(sh != shapes[0] for sh in shapes):
        return 'queries: get_shape() / get_data().shape disagree on one stack: %s' % shapes
    if datas:
        if any(x is None for x in datas[0]['data']):
            return 'values: get_data() holds values that are no rescaled source values'
        for k, r in affs:
            m = check_values_geometry(case, {'shape': datas[0]['shape'], 'data': datas[0]['data'], 'affine': r['affine']}, exact,
                                      'get_affine() asked as query #%d of %s: ' % (k + 1, '/'.join(case['queries'])))
            if m:
                return m
    if any(r['affine'] != affs[0][1]['affine'] for k, r in affs):
        return 'queries: get_affine() returned different affines on the same stack'
    return None


def oracle_c02(case, obs):
    """C02 on the implementation alone.  None = holds on this case.  Every clause is evaluated; the first message wins."""
    m = crash_message(obs)
    if m:
        return m
    msgs = []
    m = abstraction_mismatch(case, obs)
    if m:
        msgs.append(m)
    if obs.get('err') is not None:
        msgs.append(not_converted(case, obs['err']))
        return msgs[0]
    exact = bool(case['exact'])
    m = check_values_geometry(case, obs, exact)
    if m:
        msgs.append(m)
    # the reported transform (embed_meta=True run)
    emb = obs.get('emb')
    if emb is not None:
        if emb.get('err') is not None:
            msgs.append(not_converted(case, emb['err'], ' with embed_meta=True'))
        else:
            m = check_values_geometry(case, emb, exact, 'embed_meta=True: ') or check_transform(case, emb)
            if m:
                msgs.append(m)
    # the public queries on a fresh stack, in whatever order
    m = check_queries(case, obs.get('q'), exact)
    if m:
        msgs.append(m)
    # a second voxel order: only axes are permuted / flipped
    alt = obs.get('alt')
    if alt is not None:
        if alt.get('err') is not None:
            msgs.append('invariance: one voxel order converts, another one raises %s' % alt['err'])
        else:
            m = None
            if sorted(alt['data']) != sorted(obs['data']):
                m = 'invariance: value multiset differs between two voxel orders'
            elif alt['dtype'] != obs['dtype'] or alt['array_dtype'] != obs['array_dtype']:
                m = 'invariance: dtype differs between two voxel orders (%s / %s)' % (obs['dtype'], alt['dtype'])
            else:
                w1, w2 = world_content(case, obs), world_content(case, alt)
                if exact:
                    if w1 != w2:
                        m = 'invariance: world-space content differs between two voxel orders'
                else:
                    byval1 = {v: k for k, v in w1.items()}
                    byval2 = {v: k for k, v in w2.items()}
                    if len(byval1) != len(byval2) or any(v not in byval2 or not vec_close(byval1[v], byval2[v], False) for v in byval1):
                        m = 'invariance: world-space content differs between two voxel orders'
            if m:
                msgs.append(m)
    return msgs[0] if msgs else None


# ------------------------------------------------------------------------------------------------
# C20 header half: oracle and ready part

def tm_seconds(s):
    """any valid TM form -> exact seconds past midnight (stacklib's generator-side reading)"""
    return sl.tm_seconds(s)


def oracle_c20(case, obs):
    """C20 (header half) on the implementation alone; expected values from the generator's ground truth and from where the
    unique source values sit in the output array (never from the output affine)."""
    m = crash_message(obs)
    if m:
        return m
    if obs.get('err') is not None:
        return not_converted(case, obs['err'])
    S, T, V = case['dims']
    shape, flat = obs['shape'], obs['data']
    fq, ph, sl_ax = obs['dim_info']
    loc = {}
    vi = value_index(shape, flat)
    for f in case['files']:
        tp = scaled_pixels(case, f)
        h00 = vi.get(tp[0][0], [])
        h10 = vi.get(tp[1][0], []) if f['rows'] > 1 else []
        h01 = vi.get(tp[0][1], []) if f['cols'] > 1 else []
        if len(h00) != 1 or (f['rows'] > 1 and len(h10) != 1) or (f['cols'] > 1 and len(h01) != 1):
            # the header clauses are about where the source slices sit: they cannot be judged (borrowed from C02)
            return 'values: source pixels of file %d are not found exactly once in the output' % f['id']
        loc[f['id']] = (h00[0], h10[0] if h10 else None, h01[0] if h01 else None)
    msgs = []
    f0 = case['files'][0]

    def axis_between(a, b):
        d = [k for k in range(3) if a[k] != b[k]]
        return d[0] if len(d) == 1 else None
    p00, p10, p01 = loc[f0['id']]
    row_axis = axis_between(p00, p10) if p10 is not None else None      # array axis along which the ROW index of a source image runs
    col_axis = axis_between(p00, p01) if p01 is not None else None      # ... the COLUMN index
    # slice axis
    if sl_ax is None:
        msgs.append('slice-axis: no slice axis recorded')
    elif S > 1:
        vol0 = [f for f in case['files'] if f['cell'][1] == 0 and f['cell'][2] == 0]
        axes = set(axis_between(loc[vol0[0]['id']][0], loc[f['id']][0]) for f in vol0[1:])
        if axes != {sl_ax}:
            msgs.append('slice-axis: header says axis %s, the files of a volume are stacked along %s' % (sl_ax, sorted(axes, key=str)))
    elif sl_ax in (row_axis, col_axis) or not (0 <= sl_ax < 3):
        msgs.append('slice-axis: header says axis %s, which is an in-plane axis (rows along %s, columns along %s)' % (sl_ax, row_axis, col_axis))
    # freq / phase: InPlanePhaseEncodingDirection ROW = phase encoding along a row of the source image = the direction in
    # which its COLUMN index grows; COL = along a column = the direction of the ROW index
    phases = set(f['tags'].get('InPlanePhaseEncodingDirection') for f in case['files'])
    if len(phases) == 1 and None not in phases and list(phases)[0] not in ('ROW', 'COL'):
        pass             # a value outside the DICOM vocabulary: the property is silent
    elif len(phases) == 1 and None not in phases:
        p = list(phases)[0]
        want_ph, want_fq = (col_axis, row_axis) if p == 'ROW' else (row_axis, col_axis)
        if want_ph is not None and want_fq is not None and (ph != want_ph or fq != want_fq):
            msgs.append('freq-phase: phase encoding %r: header has freq=%s phase=%s, the source rows / columns run along array axes %s / %s'
                        % (p, fq, ph, col_axis, row_axis))
    elif fq is not None or ph is not None:
        msgs.append('freq-phase: phase encoding direction not unique / present in every file, but header has freq=%s phase=%s' % (fq, ph))
    # repetition time
    trs = set(f['tags'].get('RepetitionTime') for f in case['files'])
    if len(trs) == 1 and None not in trs:
        if obs['pixdim4'] != list(trs)[0]:
            msgs.append('tr: all files have RepetitionTime %s, pixdim[4] = %s' % (list(trs)[0], obs['pixdim4']))
    elif obs['pixdim4'] != 1.0:
        msgs.append('tr: RepetitionTime is not the same in all files, pixdim[4] = %s' % obs['pixdim4'])
    # slice times
    acqs = [f['tags'].get('AcquisitionTime') for f in case['files']]
    arg = obs.get('stimes_arg')

    def rel_by_output_slice(t, v):
        vol = [f for f in case['files'] if f['cell'][1] == t and f['cell'][2] == v]
        tmin = min(tm_seconds(f['tags']['AcquisitionTime']) for f in vol)
        out = [None] * S
        for f in vol:
            k = loc[f['id']][0][sl_ax]
            out[k] = tm_seconds(f['tags']['AcquisitionTime']) - tmin
        return out
    m = None
    if sl_ax is None or not (0 <= sl_ax < 3):
        pass
    elif arg is not None:
        if any(a is None for a in acqs):
            m = 'slice-times: recorded although some files have no AcquisitionTime'
        else:
            for v in range(V):
                for t in range(T):
                    want = rel_by_output_slice(t, v)
                    if m is None and (len(arg) != S or any(w is None or abs(Fraction(a) - w) > Fraction(1, 10 ** 4) for a, w in zip(arg, want))):
                        m = ('slice-times: recorded %s, but the slices of volume (t=%d, v=%d) were acquired at %s (output slice order)'
                             % (arg, t, v, [None if w is None else float(w) for w in want]))
            got = obs.get('stimes_get')
            if m is None and got is not None:
                want = rel_by_output_slice(0, 0)
                if len(got) != S or any(abs(Fraction(g) - w) > Fraction(1, 10 ** 3) for g, w in zip(got, want)):
                    m = 'slice-times: header decodes to %s, acquisition order says %s' % (got, [float(w) for w in want])
    else:
        if S > 1 and all(a is not None for a in acqs):
            rels = [rel_by_output_slice(t, v) for v in range(V) for t in range(T)]
            if all(r == rels[0] for r in rels) and any(x != 0 for x in rels[0]):
                m = 'slice-times: consistent non-zero acquisition pattern %s not handed to the header' % [float(x) for x in rels[0]]
        if m is None and obs.get('stimes_get') is not None:
            m = 'slice-times: header carries slice times %s although none were set' % obs['stimes_get']
    if m:
        msgs.append(m)
    return msgs[0] if msgs else None


def signature_of(msg):
    """clause + mechanism of a failure, without case data (no dims, voxel orders, file numbers)"""
    msg = msg or ''
    tag = msg.split(':')[0].strip()
    if tag == 'not-converted' and 'as query' in msg:
        return 'not-converted-query/' + msg.rsplit(': ', 1)[-1].replace('ECrash:', '')
    if tag == 'geometry' and 'asked as query' in msg:
        return 'geometry/query-affine'
    if tag == 'not-converted':
        cls = msg.rsplit(': ', 1)[-1].replace('ECrash:', '').split('(')[0]
        return 'not-converted%s/%s' % ('-embed' if 'embed_meta=True' in msg else '', cls)
    if tag == 'crash':
        return 'crash/' + msg.split('exception ', 1)[-1].split(' ')[0]
    if tag == 'values':
        if 'occurs 0 times' in msg:
            return 'values/missing'
        if 'occurs' in msg:
            return 'values/duplicated'
        if 'of volume' in msg:
            return 'values/wrong-volume'
        return 'values/count'
    if tag == 'invariance':
        for k in ('multiset', 'dtype', 'world-space', 'raises'):
            if k in msg:
                return 'invariance/' + k
    if tag == 'slice-times':
        for k, n in (('recorded although', 'no-acq'), ('recorded', 'wrong-order'), ('decodes', 'decoded'), ('not handed', 'dropped'), ('carries', 'stray')):
            if k in msg:
                return 'slice-times/' + n
    return tag.replace(' ', '-')[:40] or 'conv'


def shrink_case(case):
    """candidates with a smaller pixel matrix / fewer header variants (the grid itself is kept complete)"""
    if case.get('vo2') is not None:
        c = copy.deepcopy(case)
        del c['vo2']
        yield c
    for tag in ('RepetitionTime', 'InPlanePhaseEncodingDirection', 'AcquisitionTime'):
        if any(tag in f['tags'] for f in case['files']):
            c = copy.deepcopy(case)
            for f in c['files']:
                f['tags'].pop(tag, None)
            yield c
    if case['add_order'] != sorted(case['add_order']):
        c = copy.deepcopy(case)
        c['add_order'] = sorted(c['add_order'])
        yield c
    for key, lo in (('rows', 2), ('cols', 2)):
        if case['files'][0][key] > lo:
            c = copy.deepcopy(case)
            for f in c['files']:
                f[key] -= 1
                f['pixels'] = [row[:f['cols']] for row in f['pixels'][:f['rows']]]
            yield c


# S x T x V shapes with T != V, (X, Y, Z, 1, V) and (X, Y, 1, T, V)
GRID_DIMS = [(2, 2, 1), (2, 3, 1), (2, 1, 2), (2, 1, 3), (2, 2, 2), (3, 3, 2), (2, 2, 3), (3, 1, 2)]
DIMS5 = [(3, 3, 2), (2, 1, 3), (2, 2, 3), (2, 3, 2), (1, 2, 3), (3, 1, 2), (1, 3, 2), (1, 1, 3), (2, 3, 1)]


class HeaderPart:
    """C20, header half: ready part for props/c20.py (PARTS = [Tm, convlib.HeaderPart])."""
    NAME = "header"
    CORR_REQUIRE = "From Coq Require Import Qcanon.\nFrom DV Require Import Stack.Model Orient.Model Conv.Geom Conv.Header Conv.CorrGeom."
    CORR_CASE_TYPE = "CorrGeom.case"
    CORR_CHECK = "CorrGeom.check_hdr"
    CORR_SHOW = "CorrGeom.show"
    SHARD = 40
    IMPL_TIMEOUT = 30
    RULE = ("complete S x T x V grids (S <= 3, T, V <= 2 quick) over axial / sagittal / coronal / in-plane rotated / oblique "
            "orientations x both slice directions x voxel orders (quick: 8 + '' + default; thorough: all 48) x acquisition-time patterns "
            "{ascending, descending, interleaved, irregular, all equal, inconsistent across volumes, missing, present in some files} x "
            "RepetitionTime {unique, varying, absent, in some files} x phase direction {ROW, COL, varying, absent, in some files, other string} "
            "x shuffled add order; non-trivial = a reorientation with a permuted or flipped slice axis, or slice times handed over")

    @staticmethod
    def gen_cases(rng, tier):
        n = 330 if tier == 'quick' else 3000
        out = []
        # systematic block: every acquisition pattern x flipped / not flipped slice axis
        for acq in ACQ_PATTERNS:
            for vo in rng.sample(CODES48, 3) + ['']:
                for orient in ['ax', 'sag']:
                    out.append(gen_stack_case(rng, tier, S=rng.choice([3, 4, 5]), T=2, V=1, acq=acq, vo=vo, orient=orient, kind='hdr-' + acq))
        # the consistency condition over the WHOLE T x V grid: exactly one volume with another acquisition pattern, at every
        # position (first / last time point, vector index 0 / >= 1), incl. shapes (X, Y, Z, 1, V); the regular pattern of the
        # other volumes is one nibabel can encode
        for (S, T, V) in GRID_DIMS:
            out.append(gen_stack_case(rng, tier, S=S, T=T, V=V, acq='ascending', vo=rng.choice(CODES48 + ['']),
                                      orient=rng.choice(['ax', 'sag', 'cor']), kind='hdr-grid-consistent'))
            for bad in range(T * V):
                for vo in ([rng.choice(CODES48)] if tier == 'quick' and T * V > 4 else rng.sample(CODES48, 2)):
                    out.append(gen_stack_case(rng, tier, S=S, T=T, V=V, acq='one_bad', bad_vol=bad, vo=vo,
                                              orient=rng.choice(['ax', 'sag', 'cor', 'dd']), rows=2, cols=2, kind='hdr-one-bad-volume'))
        while len(out) < n:
            kw = {}
            if rng.random() < 0.7:
                kw['S'] = rng.choice([2, 3, 4, 5] + ([6, 7] if tier != 'quick' else []))
            if rng.random() < 0.6:
                kw['acq'] = rng.choice(ACQ_PATTERNS[:6])
            c = gen_stack_case(rng, tier, **kw)
            c['kind'] = 'hdr-' + c['info']['acq']
            out.append(c)
        return out

    @staticmethod
    def run_impl(case):
        import dcmstack
        return run_conversion_case(dcmstack, case)

    coq_case = staticmethod(coq_case)
    oracle = staticmethod(oracle_c20)

    @staticmethod
    def signature(case, obs, msg):
        return 'c20-' + signature_of(msg)

    @staticmethod
    def nontrivial(case, obs):
        """a header field that depends on the reorientation or on the acquisition pattern is in play"""
        if not isinstance(obs, dict) or obs.get('err') is not None or 'dim_info' not in obs:
            return False
        fq, ph, sa = obs['dim_info']
        return sa != 2 or obs.get('stimes_arg') is not None or (fq is not None and (fq, ph) not in ((0, 1), (1, 0)))

    shrink = staticmethod(shrink_case)
