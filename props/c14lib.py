"""C14: what the property text pins about the DEFAULT filter, independent of the lists the implementation carries.

"With the default filter no key matching an exclude pattern (patient, physician, dates, UIDs, institution, ...) is present
unless it also matches an include pattern (image position and orientation are always kept)".

* NAMED: the default exclude literals shipped at the pinned commit (a LOWER bound on what must be excluded: removing one is a
  privacy regression; adding more is harmless).
* GEOMETRY: the only names the text lets survive although they match an exclude pattern (an UPPER bound on what the include
  list may rescue among the named categories: an include list extended by e.g. 'Patient' would let PatientName through).
  An include pattern that rescues nothing of the named categories (e.g. 'EchoTime') is harmless and is not reported.
Used by props/c14.py (Filt.oracle) and props/convmeta.py (oracle_keys) so that both agree on which names are mandatory."""

NAMED = ['Patient', 'Physician', 'Operator', 'Date', 'Birth', 'Address', 'Institution', 'Station', 'SiteName', 'Age', 'Comment',
         'Phone', 'Telephone', 'Insurance', 'Religious', 'Language', 'Military', 'MedicalRecord', 'Ethnic', 'Occupation', 'Unknown',
         'PrivateTagData', 'UID', 'StudyDescription', 'DeviceSerialNumber', 'ReferencedImageSequence',
         'RequestedProcedureDescription', 'PerformedProcedureStepDescription', 'PerformedProcedureStepID']
GEOMETRY = ['ImagePositionPatient', 'ImageOrientationPatient']


def is_geometry(key):
    return any(g in key for g in GEOMETRY)


def default_must_filter(key):
    """True = the default filter MUST remove this key; False = MUST keep it; None = the text does not decide (the
    implementation's own lists decide, by exclude-unless-included)."""
    if is_geometry(key):
        return False
    if any(n in key for n in NAMED):
        return True
    return None
