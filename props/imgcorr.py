"""Development check (not a property): correspondence of the image-level wrapper model (coq/Wrapper) with the real
NiftiWrapper.from_sequence / split, the image halves of C03 / C04 / C05 / C07 as oracles, and their theorems.
Run:  ./check IMGCORR [--tier thorough]"""
from props import imglib

ID = 'IMGCORR'
COQ_PROPS = list(imglib.COQ_PROPS)
THEOREMS = [t for f in imglib.COQ_PROPS for t in imglib.THEOREMS[f]]
ALLOWED_AXIOMS = []
TRUSTED_BASE = ['coq/Wrapper/Model.v (hand model of NiftiWrapper.from_sequence / split / __init__ check)',
                'the two sqrt normalisations of from_sequence: executable instance Wrapper.Corr.unit_exact (exact rational square roots)']
ASSUMPTIONS = ['see props/imglib.py']

KNOWN = {imglib.SIG_N8, 'merge/4d-t1-along-vector/KeyError', 'merge/no-slice-dim/TypeError',
         'merge/trailing-singleton-simplify/ValueError', 'subset/trailing-singleton/KeyError'}


def _quiet(part):
    """the open findings are reported by the property plugins (C03 / C04 / C07), not by this development check"""
    class P(part):
        @staticmethod
        def oracle(case, obs):
            for m in part.messages(case, obs):
                if m.startswith('harness:') or part.signature(case, obs, m) not in KNOWN:
                    return m
            return None
    P.__name__ = part.__name__
    return P


PARTS = [_quiet(imglib.ImgMergePart), _quiet(imglib.ImgSplitPart), _quiet(imglib.ImgRoundTripPart)]
