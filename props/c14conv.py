"""C14CONV (development plugin)  conversion-level half of C14: key set of the embedded extension.
The integrator adds `convmeta.KeySetPart` to props/c14.py and the theorems of Props/C14conv.v to its list."""
from props import convmeta as M

ID = "C14CONV"
COQ_PROPS = "Props/C14conv.v"
THEOREMS = ["C14_filter_meta_exact", "C14_keys", "C14_default_privacy"]
ALLOWED_AXIOMS = []
TABLES = ["t_classes", "t_ext_tol", "t_stack", "t_filter"]
RULE = M.KeySetPart.RULE
TRUSTED_BASE = ["as C01 (props/c01.py); Python re.search on plain alphanumeric literals is substring search (Filter/Proofs.v, C14)"]
ASSUMPTIONS = ["as C01: slice normals pairwise np.allclose (the region of C01's open finding N9 is not generated here), key-only "
               "filters; ground truth = the generator's record of every data set / dictionary; the default filter is judged "
               "against props/c14lib (shipped exclude literals = lower bound, image position / orientation = the only rescued names)",
               "keys that are None in every file may be present or absent (C06 (A)); the key-set equation is stated modulo them"]
PARTS = [M.KeySetPart]
