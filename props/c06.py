"""C06 — every key is stored at its simplest classification (constants are constant).

Parts (both on props/extlib.py):
  merge   DcmMetaExtension.from_sequence: correspondence = Ext/Corr.v check_merge_dom (same class AND values per key as the
          model); oracle = for every key, the class in the REAL result is extlib's dense canon_class of the per-position
          values the sources define (reference semantics written from the documented layout, independent of the model).
  subset  DcmMetaExtension.get_subset of a canonical extension: same, for every dim / index.
"""
import copy
from props import extlib
from props.extlib import (PREF, PYCLS, class_ok, dims, cidx, mult, grid, den, keys_of, representable, canon_class,
                          slice_normal, allclose, merge_axis_kind, restrict, encode, mk_E, gen_shape, gen_affine, gen_fn,
                          gen_alphabet, KEYNAMES, PATTERNS)

ID = 'C06'
COQ_PROPS = 'Props/C06.v'
THEOREMS = ['C06_is_constant_spec', 'C06_is_constant_none_spec', 'C06_is_repeating_spec', 'C06_test_reads_representable',
            'C06_tables_known', 'C06_const_period', 'C06_simplify_spec', 'C06_simplify_least', 'C06_simplify_canon',
            'C06_reach_complete', 'C06_simplify_vslices_tsamples_refuted',
            'C06_subset_canonical', 'C06_subset_canonical_from_canonical', 'C06_subset_canonical_refuted',
            'C06_merge_canonical', 'C06_merge_canonical_nonslice', 'C06_merge_canonical_refuted', 'C06_insert_invariant',
            'C06_const_readable', 'C06_merge_const_readable', 'C06_none_dropped_partial', 'C06_none_dropped_refuted', 'C06_per_volume']
ALLOWED_AXIOMS = []
TABLES = ['t_classes', 't_ext_tol']
TRUSTED_BASE = ['hand-written Gallina model coq/Ext/Model.v of from_sequence/_insert*/_simplify/get_subset/_copy_*, tied to the '
                'code by the correspondence run (Ext/Corr.v check_merge_dom / check_subset_dom: same class and values per key) '
                'and by the generated class tables (_const_tests, _repeat_tests, _preserving_changes, ... re-checked by '
                'vm_compute lemmas: ProofsSimplifyCanon.reach_sorted / tables_known_pairs, TableFacts.*)',
                'the C03 layer Ext/ProofsMerge*.v (frame of from_sequence, well-formedness and denotation of every insert)']
ASSUMPTIONS = ['values: Python == coincides with structural equality (generators never mix 1 / 1.0 / True, no NaN)',
               'inputs valid and nondegenerate (no key in a varying class of multiplicity 1), all of the same shape and slice dim; '
               'idx < shape[dim] for get_subset',
               'merges along the slice / time / vector axis: inputs in ANY valid classification; along a non-slice spatial axis the '
               'theorem needs canonical inputs (widened inputs there are the OPEN finding N6, signature '
               'merge/non-slice-dim/widened-not-simplified, kept in the random stream and in corpus/C06)',
               'keys that are None at every position may be absent or stored as the global constant None (the literal '
               'Spec.canonical, which forbids the latter, is refuted: C06_subset_canonical_refuted, C06_none_dropped_refuted)',
               'the random streams stay outside the regions of the open findings N1-N4 (trailing-singleton shapes, merges along '
               'time/vector without a slice dimension), as extlib does',
               "_simplify's table entry ('vector','slices') -> ('time','samples') keeps T values where T*V are needed "
               '(C06_simplify_vslices_tsamples_refuted); no public operation reaches it, excluded by hypothesis simplify_dom',
               'key order of the result is not modelled']

N6_SIG = 'merge/non-slice-dim/widened-not-simplified'


# ------------------------------------------------------------------------------------------------ reference helpers

def fn_of(E, k, drop=False):
    return lambda p: den(E, k, p, drop)


def is_canonical_E(E):
    """Every key of E sits at extlib's canon_class of what it denotes."""
    d = dims(E)
    for k, c, _ in E['entries']:
        if canon_class(E['shape'], d, fn_of(E, k)) != c:
            return False
    return True


def class_of(E, k):
    for kk, c, _ in E['entries']:
        if kk == k:
            return c
    return None


def judge_key(R, k, f, what):
    """Property C06 for key k of the real result R whose per-position values ought to be f (a function on R's grid)."""
    dR = dims(R)
    vals = [f(p) for p in grid(dR)]
    got = class_of(R, k)
    if all(v is None for v in vals):
        if got not in (None, 'GConst'):
            return 'key %r is None at every position but is stored under %s' % (k, got)
        return None
    want = canon_class(R['shape'], dR, f)
    if got != want:
        return 'key %r: %s stored under %s, simplest class able to represent its values is %s' % (k, what, got, want)
    return None


# ------------------------------------------------------------------------------------------------ generators

STRUCT = ['const', 'vec', 'time', 'vol', 'slice', 'slice_time']


def gen_defect_fn(rng, d, alphabet):
    """A structured pattern with ONE position changed (anywhere: first, middle or last period), so that a test that does
    not look at every period gives the wrong verdict."""
    f = gen_fn(rng, d, rng.choice(STRUCT), alphabet=alphabet)
    ps = grid(d)
    p = rng.choice(ps[len(ps) // 2:] if rng.random() < 0.5 else ps)
    others = [copy.deepcopy(x) for x in alphabet if x != f[p]] + [None]
    f[p] = rng.choice(others)
    return f


def gen_struct_merge(rng, tier):
    """Merges along the slice / time / vector axis whose OUTPUT grid has at least 3 periods for the tests of _simplify
    (S, T, V in 2..3, n in 3..4 inputs), one structured or defect pattern per key, canonical and widened inputs."""
    hi = 3 if tier == 'quick' else 4
    which = rng.choice(['slice5', 'slice5', 'time5', 'vec4', 'slice4', 'time3', 'vec3'])
    sdim = rng.choice([0, 1, 2])
    sh = [rng.randint(1, 2) for _ in range(3)]
    n = rng.randint(3, hi + 1) if rng.random() < 0.7 else 2
    if which.startswith('slice'):
        dim = sdim
        sh[sdim] = 1
        sh.append(rng.randint(2, hi))
        if which == 'slice5':
            sh.append(rng.randint(2, hi))
    elif which == 'time5':
        dim = 3
        sh[sdim] = rng.randint(2, hi)
        sh += [1, rng.randint(2, hi)]
    elif which == 'time3':
        dim = 3
        sh[sdim] = rng.randint(2, hi)
    elif which == 'vec4':
        dim = 4
        sh[sdim] = rng.randint(2, hi)
        sh.append(rng.randint(2, hi))
    else:
        dim = 4
        sh[sdim] = rng.randint(2, hi)
    out_shape = list(sh)
    while len(out_shape) <= dim:
        out_shape.append(1)
    out_shape[dim] = n
    d_in = dims({'shape': sh, 'sdim': sdim})
    d_out = dims({'shape': out_shape, 'sdim': sdim})
    ax = merge_axis_kind(dim, sdim)
    aff = gen_affine(rng)
    widen = rng.choice([0.0, 0.4, 0.8])
    per_input = [dict() for _ in range(n)]
    for k in rng.sample(KEYNAMES, rng.randint(1, 4)):
        al = gen_alphabet(rng)
        r = rng.random()
        if r < 0.45:
            f = gen_fn(rng, d_out, rng.choice(STRUCT), alphabet=al)
        elif r < 0.9:
            f = gen_defect_fn(rng, d_out, al)
        else:
            f = gen_fn(rng, d_out, rng.choice(PATTERNS), alphabet=al, axis=ax)
        for i in range(n):
            e = encode(rng, sh, sdim, restrict(f, d_out, ax, i, d_in), widen)
            if e is not None:
                per_input[i][k] = e
    exts = [mk_E(sh, sdim, aff, per_input[i]) for i in range(n)]
    return {'kind': 'struct/%s/n%d' % (which, n), 'exts': exts, 'dim': dim, 'aff': None, 'sdim_arg': None}


def gen_struct_subset(rng, tier):
    """A canonical extension with structured / defect patterns, with every (dim, idx)."""
    hi = 3 if tier == 'quick' else 4
    nd = rng.choice([3, 4, 5, 5])
    sdim = rng.choice([0, 1, 2])
    sh = [rng.randint(1, 2) for _ in range(3)]
    sh[sdim] = rng.randint(2, hi)
    if nd >= 4:
        sh.append(rng.randint(2, hi))
    if nd == 5:
        sh.append(rng.randint(2, hi))
    d = dims({'shape': sh, 'sdim': sdim})
    ents = {}
    for k in rng.sample(KEYNAMES, rng.randint(1, 4)):
        al = gen_alphabet(rng)
        f = gen_defect_fn(rng, d, al) if rng.random() < 0.5 else gen_fn(rng, d, rng.choice(PATTERNS[:9]), alphabet=al)
        e = encode(rng, sh, sdim, f, 0.0)
        if e is not None:
            ents[k] = e
    return mk_E(sh, sdim, gen_affine(rng), ents)


# ------------------------------------------------------------------------------------------------ parts

class Merge:
    NAME = 'merge'
    CORR_REQUIRE = extlib.MergePart.CORR_REQUIRE
    CORR_CASE_TYPE = extlib.MergePart.CORR_CASE_TYPE
    CORR_CHECK = extlib.MergePart.CORR_CHECK
    CORR_SHOW = extlib.MergePart.CORR_SHOW
    SHARD = 60
    IMPL_TIMEOUT = 20
    RULE = ('from_sequence of 2..5 inputs that are the restrictions of total functions on the OUTPUT grid: (a) extlib.gen_merge_case '
            '(all five merge dims, 3-5 D incl. (X,Y,Z,1,V), 11 value patterns, keys missing from some inputs, differing slice '
            'normals, widened inputs); (b) structured stream: slice / time / vector merges whose output has >= 3 periods for every '
            'test of _simplify (S,T,V in 2..3, 3..4 inputs), patterns const / per-vector / per-time / per-volume / per-slice / '
            'per-slice-and-time, each also with ONE position changed anywhere (first, middle, last period); canonical and widened '
            'classes per input; non-trivial = some key of the result sits in a varying class, or some input key does')

    @staticmethod
    def gen_cases(rng, tier):
        n1, n2 = (260, 420) if tier == 'quick' else (2000, 3500)
        cases = [extlib.gen_merge_case(rng, tier) for _ in range(n1)]
        cases += [gen_struct_merge(rng, tier) for _ in range(n2)]
        return cases

    run_impl = staticmethod(extlib.run_merge)
    coq_case = staticmethod(extlib.merge_case_to_coq)

    @staticmethod
    def oracle(case, obs):
        if 'crash' in obs:
            return 'harness: %s' % obs.get('msg')
        if 'ext' not in obs:
            return None                     # errors are C03's business (and the finding regions are outside the streams)
        exts, dim, R = case['exts'], case['dim'], obs['ext']
        sh = exts[0]['shape']
        out_shape = list(sh)
        while len(out_shape) <= dim:
            out_shape.append(1)
        out_shape[dim] = len(exts)
        if R['shape'] != out_shape:
            return None                     # C03
        rn = slice_normal(R)
        drops = []
        for E in exts:
            en = slice_normal(E)
            drops.append(not (rn is not None and en is not None and allclose(rn, en)))
        ax = merge_axis_kind(dim, R['sdim'])
        for k in keys_of(R, *exts):
            if ax is None:
                # nothing is recombined along a non-slice spatial axis: judge the key by what the result itself denotes
                if class_of(R, k) is None:
                    continue
                m = judge_key(R, k, fn_of(R, k), 'the (unchanged) values are')
            else:
                def f(p, k=k):
                    q = list(p)
                    i = q[ax]
                    q[ax] = 0
                    return den(exts[i], k, tuple(q), drops[i])
                m = judge_key(R, k, f, 'the values of the %d sources are' % len(exts))
            if m:
                return m
        return None

    @staticmethod
    def signature(case, obs, msg):
        exts, dim = case['exts'], case['dim']
        sd = case.get('sdim_arg') if case.get('sdim_arg') is not None else exts[0]['sdim']
        if 'ext' in obs and dim < 3 and dim != sd and any(not is_canonical_E(E) for E in exts):
            return N6_SIG
        return 'merge/%s/dim%d/not-simplest-class' % (extlib.shape_family(exts[0]['shape']), dim)

    @staticmethod
    def nontrivial(case, obs):
        if 'ext' not in obs:
            return False
        return any(c != 'GConst' for _, c, _ in obs['ext']['entries']) or \
            any(c != 'GConst' for E in case['exts'] for _, c, _ in E['entries'])

    shrink = staticmethod(extlib.MergePart.shrink)


class Subset:
    NAME = 'subset'
    CORR_REQUIRE = extlib.SubsetPart.CORR_REQUIRE
    CORR_CASE_TYPE = extlib.SubsetPart.CORR_CASE_TYPE
    CORR_CHECK = extlib.SubsetPart.CORR_CHECK
    CORR_SHOW = extlib.SubsetPart.CORR_SHOW
    SHARD = 100
    IMPL_TIMEOUT = 20
    RULE = ('get_subset(dim, idx): (a) extlib.gen_subset_case (random valid nondegenerate extensions, canonical and widened); '
            '(b) canonical extensions with structured / one-position-defect patterns (S,T,V in 2..3), EVERY (dim, idx); the oracle '
            'judges the cases whose input is canonical; non-trivial = some key in a varying class')

    @staticmethod
    def gen_cases(rng, tier):
        n1, n2 = (150, 45) if tier == 'quick' else (1500, 300)
        cases = []
        for _ in range(n1):
            c = extlib.gen_subset_case(rng, tier)
            cases.append(c)
        for _ in range(n2):
            for c in extlib.gen_subset_all(gen_struct_subset(rng, tier)):
                c['kind'] = 'struct/subset-all/%dD' % len(c['ext']['shape'])
                cases.append(c)
        return cases

    run_impl = staticmethod(extlib.run_subset)
    coq_case = staticmethod(extlib.subset_case_to_coq)

    @staticmethod
    def oracle(case, obs):
        if 'crash' in obs:
            return 'harness: %s' % obs.get('msg')
        E, dim, idx = case['ext'], case['dim'], case['idx']
        if 'ext' not in obs or dim >= len(E['shape']) or idx >= E['shape'][dim]:
            return None
        if not is_canonical_E(E):
            return None                     # the property speaks of splitting a canonical extension
        R = obs['ext']
        if R['shape'] != extlib.subset_shape(E['shape'], dim):
            return None                     # C04
        ax = merge_axis_kind(dim, E['sdim'])
        for k in keys_of(E, R):
            def f(p, k=k):
                q = list(p)
                if ax is not None:
                    q[ax] = idx
                return den(E, k, tuple(q))
            m = judge_key(R, k, f, 'the values of piece %d along dim %d are' % (idx, dim))
            if m:
                return m
        return None

    @staticmethod
    def signature(case, obs, msg):
        return 'subset/%s/dim%d/not-simplest-class' % (extlib.shape_family(case['ext']['shape']), case['dim'])

    @staticmethod
    def nontrivial(case, obs):
        return any(c != 'GConst' for _, c, _ in case['ext']['entries'])

    shrink = staticmethod(extlib.SubsetPart.shrink)


PARTS = [Merge, Subset]


# source tie (integrator): the helper functions the extension model rests on are TRANSLATED from the Python AST on every
# run (tools/tables/py2coq.py, t_src_ext.py -> Generated/T_src_ext.v) and the hand models are proved equal to the translation
COQ_PROPS = (list(COQ_PROPS) if isinstance(COQ_PROPS, (list, tuple)) else [COQ_PROPS]) + ['Props/SRC.v']
THEOREMS = list(THEOREMS) + ['SRC_valid_classes', 'SRC_class_valid', 'SRC_multiplicity', 'SRC_is_constant', 'SRC_is_repeating', 'SRC_const_period', 'SRC_n_slices']
TABLES = sorted(set(list(globals().get('TABLES') or ['t_classes', 't_ext_tol']) + ['t_src_ext', 't_classes', 't_ext_tol']))
TRUSTED_BASE = list(TRUSTED_BASE) + ['tools/tables/py2coq.py + t_src_ext.py: typed fail-closed translator of is_constant, is_repeating, get_valid_classes, get_multiplicity, _get_const_period, n_slices into Gallina; coq/Common/PyOps2.v as the meaning of the translated primitives']


# end-to-end composition (integrator): conv_full (coq/Conv/Full.v) threads the permutation, flip bit and final affine that
# the geometry half computes into the embed step exactly as DicomStack.to_nifti does; theorems in Props/C06conv.v
from props import convfull as _convfull
COQ_PROPS = (list(COQ_PROPS) if isinstance(COQ_PROPS, (list, tuple)) else [COQ_PROPS]) + ['Props/C06conv.v']
THEOREMS = list(THEOREMS) + ['C06_conversion_canonical', 'C06_conversion_const_readable', 'C06_conversion_per_volume', 'C06_conversion_den']
COQ_EXTRA_TARGETS = list(globals().get('COQ_EXTRA_TARGETS') or []) + ['Conv/FullCorr.vo']
TABLES = sorted(set(list(globals().get('TABLES') or []) + ['t_classes', 't_ext_tol', 't_stack', 't_filter', 't_time', 't_conv']))
PARTS = list(PARTS) + [_convfull.FullPart]


# source tie, stage A (integrator): _global_slice_subset and _get_changed_class are TRANSLATED from the AST on every run and the
# hand model (global_slice_subset, changed_class) is proved equal to the translation on stored content (Props/SRCalg.v)
COQ_PROPS = list(COQ_PROPS) + ['Props/SRCalg.v']
THEOREMS = list(THEOREMS) + ['SRC_global_slice_subset', 'SRC_changed_class']


# source tie, stage B (integrator): _change_class / _simplify are TRANSLATED in state-passing form (t_src_state.py) and the per-key
# model (change_class_k, simplify_k) is proved to be a refinement of the translation on the stored content (Props/SRCstate.v)
COQ_PROPS = list(COQ_PROPS) + ['Props/SRCstate.v']
THEOREMS = list(THEOREMS) + ['SRC_change_class', 'SRC_simplify', 'SRC_to_content_holds']
TABLES = sorted(set(list(TABLES) + ['t_src_state', 't_content', 't_cli']))
