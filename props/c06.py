"""C06 — every key is stored at its simplest classification (constants are constant).

Parts (both on props/extlib.py):
  merge   DcmMetaExtension.from_sequence: correspondence = Ext/Corr.v check_merge_dom (same class AND values per key as the
          model); oracle = for every key, the class in the REAL result is extlib's dense canon_class of the per-position
          values the sources define (reference semantics written from the documented layout, independent of the model).
  subset  DcmMetaExtension.get_subset of a canonical extension: same, for every dim / index.
"""
import copy
from props import extlib
from props.extlib import (PREF, PYCLS, class_ok, dims, cidx, mult, grid, den, keys_of, representable, canon_class,
                          slice_normal, allclose, merge_axis_kind, restrict, encode, mk_E, gen_shape, gen_affine, gen_fn,
                          gen_alphabet, KEYNAMES, PATTERNS)

ID = 'C06'
COQ_PROPS = 'Props/C06.v'
THEOREMS = ['C06_is_constant_spec', 'C06_is_constant_none_spec', 'C06_is_repeating_spec', 'C06_test_reads_representable',
            'C06_tables_known', 'C06_const_period', 'C06_simplify_spec', 'C06_simplify_least', 'C06_simplify_canon',
            'C06_reach_complete', 'C06_simplify_vslices_tsamples_refuted',
            'C06_subset_canonical', 'C06_subset_canonical_from_canonical', 'C06_subset_canonical_refuted',
            'C06_merge_canonical', 'C06_merge_canonical_nonslice', 'C06_merge_canonical_refuted', 'C06_insert_invariant',
            'C06_const_readable', 'C06_merge_const_readable', 'C06_none_dropped_partial', 'C06_none_dropped_refuted', 'C06_per_volume']
ALLOWED_AXIOMS = []
TABLES = ['t_classes', 't_ext_tol']
TRUSTED_BASE = ['hand-written Gallina model coq/Ext/Model.v of from_sequence/_insert*/_simplify/get_subset/_copy_*, tied to the '
                'code by the correspondence run (Ext/Corr.v check_merge_dom / check_subset_dom: same class and values per key) '
                'and by the generated class tables (_const_tests, _repeat_tests, _preserving_changes, ... re-checked by '
                'vm_compute lemmas: ProofsSimplifyCanon.reach_sorted / tables_known_pairs, TableFacts.*)',
                'the C03 layer Ext/ProofsMerge*.v (frame of from_sequence, well-formedness and denotation of every insert)']
ASSUMPTIONS = ['values: Python == coincides with structural equality (generators never mix 1 / 1.0 / True, no NaN)',
               'inputs valid and nondegenerate (no key in a varying class of multiplicity 1), all of the same shape and slice dim; '
               'idx < shape[dim] for get_subset',
               'merges along the slice / time / vector axis: inputs in ANY valid classification; along a non-slice spatial axis the '
               'theorem needs canonical inputs (widened inputs there are the OPEN finding N6, signature '
               'merge/non-slice-dim/widened-not-simplified, kept in the random stream and in corpus/C06)',
               'keys that are None at every position may be absent or stored as the global constant None (the literal '
               'Spec.canonical, which forbids the latter, is refuted: C06_subset_canonical_refuted, C06_none_dropped_refuted)',
               'an exception of from_sequence / get_subset on these (valid, in-range) inputs is reported as a failure, unless case and '
               'observation show exactly the mechanism of an open finding of C03 / C04 (N1, N3, N4 / N2: extlib.finding_sig_merge / '
               'finding_sig_subset), which those properties report',
               'expected output shape, slice dimension and affine come from the arguments of the case, never from the result; an '
               'input contributes no per-slice meta data when its slice direction differs from the result affine: both the affine row '
               '(what the library compares) and the affine column (see N13 of C08) are accepted as "direction"',
               'N6 is recognised key by key: along a non-slice spatial axis the key is left in a wider class in which one of the SOURCES '
               'already stored it non-canonically; any other key at a non-simplest class is a new failure',
               "_simplify's table entry ('vector','slices') -> ('time','samples') keeps T values where T*V are needed "
               '(C06_simplify_vslices_tsamples_refuted); no public operation reaches it, excluded by hypothesis simplify_dom',
               'key order of the result is not modelled']

N6_SIG = 'merge/non-slice-dim/widened-not-simplified'
AXNAME = {None: 'nonslice', 0: 'slice', 1: 'time', 2: 'vector'}


# ------------------------------------------------------------------------------------------------ reference helpers
# Everything the oracles EXPECT comes from the case (generator truth): output shape, slice dim, affine.  The result is only
# read for what the property is about: under which class a key is stored, and how many values it holds there.

def fn_of(E, k, drop=False):
    return lambda p: den(E, k, p, drop)


def key_is_canonical(E, k):
    return canon_class(E['shape'], dims(E), fn_of(E, k)) == class_of(E, k)


def is_canonical_E(E):
    """Every key of E sits at extlib's canon_class of what it denotes."""
    return all(key_is_canonical(E, k) for k, _, _ in E['entries'])


def class_of(E, k):
    for kk, c, _ in E['entries']:
        if kk == k:
            return c
    return None


def values_of(E, k):
    for kk, _, vs in E['entries']:
        if kk == k:
            return vs
    return None


def judge_key(G, R, k, f, what):
    """Property C06 for key k of the real result R on the EXPECTED grid G = {'shape', 'sdim'}; f = the per-position values
    the sources define.  -> None | dict(key, got, want, msg)."""
    dG = dims(G)
    vals = [f(p) for p in grid(dG)]
    got = class_of(R, k)
    if got is not None and not class_ok(G['shape'], got):
        return {'key': k, 'got': got, 'want': None,
                'msg': 'key %r is stored under %s, which does not exist for shape %r' % (k, got, G['shape'])}
    if all(v is None for v in vals):
        if got not in (None, 'GConst'):
            return {'key': k, 'got': got, 'want': 'GConst', 'msg': 'key %r is None at every position but is stored under %s' % (k, got)}
        return None
    want = canon_class(G['shape'], dG, f)
    if got != want:
        return {'key': k, 'got': got, 'want': want,
                'msg': 'key %r: %s stored under %s, simplest class able to represent its values is %s' % (k, what, got, want)}
    n = len(values_of(R, k))
    if n != mult(dG, got):
        return {'key': k, 'got': got, 'want': want,
                'msg': 'key %r is stored under %s with %d values, that class holds %d' % (k, got, n, mult(dG, got))}
    return None


def expected_merge(case):
    """(output shape, slice dim, affine) of the merge, from the arguments alone."""
    exts, dim = case['exts'], case['dim']
    out_shape = list(exts[0]['shape'])
    while len(out_shape) <= dim:
        out_shape.append(1)
    out_shape[dim] = len(exts)
    sd = case.get('sdim_arg') if case.get('sdim_arg') is not None else exts[0]['sdim']
    aff = case.get('aff') if case.get('aff') is not None else exts[0]['aff']
    return out_shape, sd, aff


def drop_lists(case):
    """Which inputs contribute no per-slice meta data (their slice direction differs from the result's).  Two readings of
    "slice direction" are accepted: the affine ROW the library compares today and the affine COLUMN (open finding N13 of
    C08 is about exactly that choice; C06 does not depend on it)."""
    from fractions import Fraction
    _, sd, aff = expected_merge(case)
    out = []
    for pick in (lambda A, d: [Fraction(x) for x in A[d][:3]], lambda A, d: [Fraction(A[i][d]) for i in range(3)]):
        rn = None if sd is None else pick(aff, sd)
        drops = []
        for E in case['exts']:
            en = None if E['sdim'] is None else pick(E['aff'], E['sdim'])
            drops.append(not (rn is not None and en is not None and allclose(rn, en)))
        if drops not in out:
            out.append(drops)
    return out


def merge_failures(case, R, drops):
    """All C06 failures of the real result R of a merge, key by key: list of dict(key, got, want, msg, n6)."""
    exts, dim = case['exts'], case['dim']
    out_shape, sd, _ = expected_merge(case)
    G = {'shape': out_shape, 'sdim': sd}
    ax = merge_axis_kind(dim, sd)
    fails = []
    for k in keys_of(R, *exts):
        if ax is None:
            # nothing is recombined along a non-slice spatial axis: the key is kept iff every source says the same
            tabs = [[den(E, k, p, dr) for p in grid(dims(E))] for E, dr in zip(exts, drops)]
            if any(t != tabs[0] for t in tabs):
                continue                     # whether it is dropped is C03's clause
            j = judge_key(G, R, k, lambda p, k=k: den(exts[0], k, p, drops[0]), 'the (unchanged) values are')
        else:
            def f(p, k=k):
                q = list(p)
                i = q[ax]
                q[ax] = 0
                return den(exts[i], k, tuple(q), drops[i])
            j = judge_key(G, R, k, f, 'the values of the %d sources are' % len(exts))
        if j:
            # the mechanism of N6: along a non-slice spatial axis, the key is left in a wider class in which one of the
            # SOURCES already stored it although a simpler class could represent that source's values
            j['n6'] = bool(ax is None and j['want'] is not None and j['got'] is not None and
                           any(class_of(E, k) == j['got'] and not (dr and PYCLS[j['got']][1] == 'slices') and
                               not key_is_canonical(E, k) for E, dr in zip(exts, drops)))
            fails.append(j)
    return fails


def merge_verdict(case, obs):
    """-> (message, signature) or (None, None).  Collects every failure and prefers one that is not the known finding."""
    exts, dim = case['exts'], case['dim']
    out_shape, sd, _ = expected_merge(case)
    axn = AXNAME[merge_axis_kind(dim, sd)]
    if 'ext' not in obs:
        if extlib.finding_sig_merge(case, obs) is not None:
            return None, None                # exactly the mechanism of an open finding of C03 (N1 / N3 / N4): reported there
        # otherwise the streams stay inside the domain on which from_sequence must produce an extension
        return ('from_sequence(dim=%d) of %d valid inputs raised %s: no extension, no classification' %
                (dim, len(exts), obs.get('exc') or obs.get('err')), 'merge/%s/raised/%s' % (axn, obs.get('exc') or obs.get('err')))
    R = obs['ext']
    if R['shape'] != out_shape:
        return ('cannot judge the classes: result shape %r, expected %r' % (R['shape'], out_shape), 'merge/%s/wrong-shape' % axn)
    best = None
    for drops in drop_lists(case):
        fails = merge_failures(case, R, drops)
        if not fails:
            return None, None
        if best is None:
            best = fails
    new = [j for j in best if not j['n6']]
    if new:
        return new[0]['msg'], 'merge/%s/not-simplest-class' % axn
    return best[0]['msg'], N6_SIG


def subset_verdict(case, obs):
    E, dim, idx = case['ext'], case['dim'], case['idx']
    if dim >= len(E['shape']) or idx >= E['shape'][dim]:
        return None, None                    # outside the property (C04 judges the refusal)
    fam = AXNAME[merge_axis_kind(dim, E['sdim'])]
    if 'ext' not in obs:
        if extlib.finding_sig_subset(case, obs) is not None:
            return None, None                # exactly the mechanism of the open finding N2 of C04: reported there
        return ('get_subset(%d, %d) of a valid extension raised %s: no extension, no classification' %
                (dim, idx, obs.get('exc') or obs.get('err')), 'subset/%s/raised/%s' % (fam, obs.get('exc') or obs.get('err')))
    R = obs['ext']
    G = {'shape': extlib.subset_shape(E['shape'], dim), 'sdim': E['sdim']}
    if R['shape'] != G['shape']:
        return ('cannot judge the classes: result shape %r, expected %r' % (R['shape'], G['shape']), 'subset/%s/wrong-shape' % fam)
    ax = merge_axis_kind(dim, E['sdim'])
    for k in keys_of(E, R):
        # the property speaks of splitting a CANONICAL extension; get_subset works key by key, so every key that sits at
        # its simplest class is judged, whatever the other keys do
        if class_of(E, k) is not None and not key_is_canonical(E, k):
            continue

        def f(p, k=k):
            q = list(p)
            if ax is not None:
                q[ax] = idx
            return den(E, k, tuple(q))
        j = judge_key(G, R, k, f, 'the values of piece %d along dim %d are' % (idx, dim))
        if j:
            return j['msg'], 'subset/%s/not-simplest-class' % fam
    return None, None


# ------------------------------------------------------------------------------------------------ generators

STRUCT = ['const', 'vec', 'time', 'vol', 'slice', 'slice_time']


def gen_defect_fn(rng, d, alphabet):
    """A structured pattern with ONE position changed (anywhere: first, middle or last period), so that a test that does
    not look at every period gives the wrong verdict."""
    f = gen_fn(rng, d, rng.choice(STRUCT), alphabet=alphabet)
    ps = grid(d)
    p = rng.choice(ps[len(ps) // 2:] if rng.random() < 0.5 else ps)
    others = [copy.deepcopy(x) for x in alphabet if x != f[p]] + [None]
    f[p] = rng.choice(others)
    return f


def gen_struct_merge(rng, tier):
    """Merges along the slice / time / vector axis whose OUTPUT grid has at least 3 periods for the tests of _simplify
    (S, T, V in 2..3, n in 3..4 inputs), one structured or defect pattern per key, canonical and widened inputs."""
    hi = 3 if tier == 'quick' else 4
    which = rng.choice(['slice5', 'slice5', 'time5', 'vec4', 'slice4', 'time3', 'vec3'])
    sdim = rng.choice([0, 1, 2])
    sh = [rng.randint(1, 2) for _ in range(3)]
    n = rng.randint(3, hi + 1) if rng.random() < 0.7 else 2
    if which.startswith('slice'):
        dim = sdim
        sh[sdim] = 1
        sh.append(rng.randint(2, hi))
        if which == 'slice5':
            sh.append(rng.randint(2, hi))
    elif which == 'time5':
        dim = 3
        sh[sdim] = rng.randint(2, hi)
        sh += [1, rng.randint(2, hi)]
    elif which == 'time3':
        dim = 3
        sh[sdim] = rng.randint(2, hi)
    elif which == 'vec4':
        dim = 4
        sh[sdim] = rng.randint(2, hi)
        sh.append(rng.randint(2, hi))
    else:
        dim = 4
        sh[sdim] = rng.randint(2, hi)
    out_shape = list(sh)
    while len(out_shape) <= dim:
        out_shape.append(1)
    out_shape[dim] = n
    d_in = dims({'shape': sh, 'sdim': sdim})
    d_out = dims({'shape': out_shape, 'sdim': sdim})
    ax = merge_axis_kind(dim, sdim)
    aff = gen_affine(rng)
    widen = rng.choice([0.0, 0.4, 0.8])
    per_input = [dict() for _ in range(n)]
    for k in rng.sample(KEYNAMES, rng.randint(1, 4)):
        al = gen_alphabet(rng)
        r = rng.random()
        if r < 0.45:
            f = gen_fn(rng, d_out, rng.choice(STRUCT), alphabet=al)
        elif r < 0.9:
            f = gen_defect_fn(rng, d_out, al)
        else:
            f = gen_fn(rng, d_out, rng.choice(PATTERNS), alphabet=al, axis=ax)
        for i in range(n):
            e = encode(rng, sh, sdim, restrict(f, d_out, ax, i, d_in), widen)
            if e is not None:
                per_input[i][k] = e
    exts = [mk_E(sh, sdim, aff, per_input[i]) for i in range(n)]
    return {'kind': 'struct/%s/n%d' % (which, n), 'exts': exts, 'dim': dim, 'aff': None, 'sdim_arg': None}


def gen_struct_subset(rng, tier):
    """A canonical extension with structured / defect patterns, with every (dim, idx)."""
    hi = 3 if tier == 'quick' else 4
    nd = rng.choice([3, 4, 5, 5])
    sdim = rng.choice([0, 1, 2])
    sh = [rng.randint(1, 2) for _ in range(3)]
    sh[sdim] = rng.randint(2, hi)
    if nd >= 4:
        sh.append(rng.randint(2, hi))
    if nd == 5:
        sh.append(rng.randint(2, hi))
    d = dims({'shape': sh, 'sdim': sdim})
    ents = {}
    for k in rng.sample(KEYNAMES, rng.randint(1, 4)):
        al = gen_alphabet(rng)
        f = gen_defect_fn(rng, d, al) if rng.random() < 0.5 else gen_fn(rng, d, rng.choice(PATTERNS[:9]), alphabet=al)
        e = encode(rng, sh, sdim, f, 0.0)
        if e is not None:
            ents[k] = e
    return mk_E(sh, sdim, gen_affine(rng), ents)



def shifted_affine(rng, aff):
    """Same directions, another origin."""
    a = copy.deepcopy(aff)
    for i in range(3):
        a[i][3] = a[i][3] + rng.choice([0.0, 1.0, -2.5, 4.0])
    return a


def gen_hole_merge(rng, tier):
    """Regions the other streams never reach although the library supports them (AUDIT-2 section 7): (X,Y,Z,1) inputs merged
    along time, 3-D inputs without a slice dimension merged along time / vector (constants only), an explicit affine argument
    different from the inputs' (other origin: nothing changes; other slice direction: every per-slice key is ignored), six or
    seven inputs."""
    which = rng.choice(['t1-time', 'nosdim-time', 'nosdim-vec', 'aff-shift', 'aff-normal', 'many'])
    hi = 3
    sdim = rng.choice([0, 1, 2])
    sh = [rng.randint(1, 2) for _ in range(3)]
    n = rng.randint(2, 4)
    affarg = None
    if which == 't1-time':
        sh[sdim] = rng.randint(2, hi)
        sh.append(1)
        dim = 3
    elif which.startswith('nosdim'):
        sdim = None
        dim = 3 if which == 'nosdim-time' else 4
    elif which == 'many':
        n = rng.randint(6, 7)
        dim = rng.choice([sdim, 3, 4])
        sh[sdim] = 1 if dim == sdim else 2
        if dim == sdim:
            sh.append(2)
    else:
        dim = rng.choice([sdim, 3])
        sh[sdim] = 1 if dim == sdim else rng.randint(2, hi)
        if dim == sdim:
            sh.append(rng.randint(2, hi))
    out_shape = list(sh)
    while len(out_shape) <= dim:
        out_shape.append(1)
    out_shape[dim] = n
    d_in = dims({'shape': sh, 'sdim': sdim})
    d_out = dims({'shape': out_shape, 'sdim': sdim})
    ax = merge_axis_kind(dim, sdim)
    aff = gen_affine(rng)
    if which == 'aff-shift':
        affarg = shifted_affine(rng, aff)
    elif which == 'aff-normal':
        affarg = extlib.other_normal_affine(rng, aff, sdim)
    widen = 0.0 if sdim is None else rng.choice([0.0, 0.5])
    per_input = [dict() for _ in range(n)]
    for k in rng.sample(KEYNAMES, rng.randint(1, 3)):
        al = gen_alphabet(rng)
        if sdim is None:
            f = gen_fn(rng, d_out, rng.choice(['const', 'time', 'vec', 'vol', 'const_none_some']), alphabet=al)
        else:
            f = gen_defect_fn(rng, d_out, al) if rng.random() < 0.4 else gen_fn(rng, d_out, rng.choice(STRUCT), alphabet=al)
        for i in range(n):
            e = encode(rng, sh, sdim, restrict(f, d_out, ax, i, d_in), widen)
            if e is not None:
                per_input[i][k] = e
    exts = [mk_E(sh, sdim, aff, per_input[i]) for i in range(n)]
    return {'kind': 'hole/%s' % which, 'exts': exts, 'dim': dim, 'aff': affarg, 'sdim_arg': None}


def systematic_subset_cases(tier):
    """DETERMINISTIC block: for every axis merge of extlib.systematic_merge_cases() the values its sources define on the
    output grid (generator truth), stored canonically, and subsets of that extension: one index per dim (quick, every second
    extension) / every (dim, idx) (thorough), outside the mechanism of N2."""
    import random as _random
    rng0 = _random.Random(0)               # encode() only draws when widen > 0
    seen, out, t = set(), [], 0
    for c in extlib.systematic_merge_cases():
        out_shape, sd, aff = expected_merge(c)
        ax = merge_axis_kind(c['dim'], sd)
        if ax is None or any(drop_lists(c)[0]):
            continue
        k = c['exts'][0]['entries'][0][0] if c['exts'][0]['entries'] else None
        if k is None:
            continue
        f = {}
        for p in grid(dims({'shape': out_shape, 'sdim': sd})):
            q = list(p)
            i = q[ax]
            q[ax] = 0
            f[p] = den(c['exts'][i], k, tuple(q))
        e = encode(rng0, out_shape, sd, f, 0.0)
        if e is None:
            continue
        E = mk_E(out_shape, sd, aff, {k: e})
        sig = repr((out_shape, sd, E['entries']))
        if sig in seen:
            continue
        seen.add(sig)
        t += 1
        if tier == 'quick' and t % 2:
            continue
        for dim in range(len(out_shape)):
            if extlib.n2_vanishing_base(E, dim) is not None:
                continue
            idxs = range(out_shape[dim]) if tier != 'quick' else [t // 2 % out_shape[dim]]
            for idx in idxs:
                out.append({'kind': 'sys-subset/%s/%s/dim%d' % (extlib.shape_family(out_shape), e[0], dim), 'ext': E, 'dim': dim, 'idx': idx})
    return out


def gen_hole_subsets(rng, tier):
    """Canonical extensions whose shape ends in a singleton axis, every (dim, idx) outside the mechanism of N2."""
    sdim = rng.choice([0, 1, 2])
    sh = [rng.randint(1, 2) for _ in range(3)]
    sh[sdim] = rng.randint(2, 3)
    if rng.random() < 0.5:
        sh.append(1)
    else:
        sh += [rng.randint(2, 3), 1]
    d = dims({'shape': sh, 'sdim': sdim})
    ents = {}
    for k in rng.sample(KEYNAMES, rng.randint(1, 3)):
        al = gen_alphabet(rng)
        f = gen_defect_fn(rng, d, al) if rng.random() < 0.4 else gen_fn(rng, d, rng.choice(STRUCT), alphabet=al)
        e = encode(rng, sh, sdim, f, 0.0)
        if e is not None:
            ents[k] = e
    E = mk_E(sh, sdim, gen_affine(rng), ents)
    out = []
    for c in extlib.gen_subset_all(E):
        if extlib.n2_vanishing_base(E, c['dim']) is None:
            c['kind'] = 'hole/subset-trailing1/%dD' % len(sh)
            out.append(c)
    return out


# ------------------------------------------------------------------------------------------------ parts

class Merge:
    NAME = 'merge'
    CORR_REQUIRE = extlib.MergePart.CORR_REQUIRE
    CORR_CASE_TYPE = extlib.MergePart.CORR_CASE_TYPE
    CORR_CHECK = extlib.MergePart.CORR_CHECK
    CORR_SHOW = extlib.MergePart.CORR_SHOW
    SHARD = 60
    IMPL_TIMEOUT = 20
    RULE = ('(0) extlib.systematic_merge_cases(): 637 deterministic one-key merges (every axis kind x 3/4/5-D incl. trailing singletons x '
            'every valid nondegenerate class x 5 patterns), in every seed; then from_sequence of 2..7 inputs that are the restrictions '
            'of total functions on the OUTPUT grid: (a) extlib.gen_merge_case '
            '(all five merge dims, 3-5 D incl. (X,Y,Z,1,V), 11 value patterns, keys missing from some inputs, differing slice '
            'normals, widened inputs); (b) structured stream: slice / time / vector merges whose output has >= 3 periods for every '
            'test of _simplify (S,T,V in 2..3, 3..4 inputs), patterns const / per-vector / per-time / per-volume / per-slice / '
            'per-slice-and-time, each also with ONE position changed anywhere (first, middle, last period); canonical and widened '
            'classes per input; (c) (X,Y,Z,1) inputs along time, inputs without a slice dimension along time / vector, an affine '
            'argument with another origin or another slice direction, 6-7 inputs; expected shape / slice dim / affine are taken '
            'from the arguments, never from the result; non-trivial = some key of the result sits in a varying class, or some '
            'input key does')

    @staticmethod
    def gen_cases(rng, tier):
        n1, n2, n3 = (260, 420, 120) if tier == 'quick' else (2000, 3500, 1000)
        cases = list(extlib.systematic_merge_cases())        # deterministic block first: every seed contains it
        cases += [extlib.gen_merge_case(rng, tier) for _ in range(n1)]
        cases += [gen_struct_merge(rng, tier) for _ in range(n2)]
        cases += [gen_hole_merge(rng, tier) for _ in range(n3)]
        return cases

    run_impl = staticmethod(extlib.run_merge)
    coq_case = staticmethod(extlib.merge_case_to_coq)

    @staticmethod
    def oracle(case, obs):
        if 'crash' in obs:
            return 'harness: %s' % obs.get('msg')
        return merge_verdict(case, obs)[0]

    @staticmethod
    def signature(case, obs, msg):
        if 'crash' in obs:
            return 'crash/merge/%s' % obs.get('crash')
        return merge_verdict(case, obs)[1] or 'merge/none'

    @staticmethod
    def nontrivial(case, obs):
        if 'ext' not in obs:
            return False
        return any(c != 'GConst' for _, c, _ in obs['ext']['entries']) or \
            any(c != 'GConst' for E in case['exts'] for _, c, _ in E['entries'])

    shrink = staticmethod(extlib.MergePart.shrink)


class Subset:
    NAME = 'subset'
    CORR_REQUIRE = extlib.SubsetPart.CORR_REQUIRE
    CORR_CASE_TYPE = extlib.SubsetPart.CORR_CASE_TYPE
    CORR_CHECK = extlib.SubsetPart.CORR_CHECK
    CORR_SHOW = extlib.SubsetPart.CORR_SHOW
    SHARD = 100
    IMPL_TIMEOUT = 20
    RULE = ('get_subset(dim, idx): (0) deterministic block: the canonical merged truth of every systematic axis merge, one index '
            'per dim (quick) / every (dim, idx) (thorough); (a) extlib.gen_subset_case (random valid nondegenerate extensions, canonical and widened); '
            '(b) canonical extensions with structured / one-position-defect patterns (S,T,V in 2..3), EVERY (dim, idx); (c) canonical '
            'extensions whose shape ends in a singleton axis, every (dim, idx) outside the mechanism of N2; the oracle judges every '
            'KEY that sits at its simplest class in the input (get_subset works key by key); non-trivial = some judged key sits in '
            'a varying class')

    @staticmethod
    def gen_cases(rng, tier):
        n1, n2, n3 = (150, 45, 12) if tier == 'quick' else (1500, 300, 100)
        cases = systematic_subset_cases(tier)
        for _ in range(n1):
            c = extlib.gen_subset_case(rng, tier)
            cases.append(c)
        for _ in range(n2):
            for c in extlib.gen_subset_all(gen_struct_subset(rng, tier)):
                c['kind'] = 'struct/subset-all/%dD' % len(c['ext']['shape'])
                cases.append(c)
        for _ in range(n3):
            cases += gen_hole_subsets(rng, tier)
        return cases

    run_impl = staticmethod(extlib.run_subset)
    coq_case = staticmethod(extlib.subset_case_to_coq)

    @staticmethod
    def oracle(case, obs):
        if 'crash' in obs:
            return 'harness: %s' % obs.get('msg')
        return subset_verdict(case, obs)[0]

    @staticmethod
    def signature(case, obs, msg):
        if 'crash' in obs:
            return 'crash/subset/%s' % obs.get('crash')
        return subset_verdict(case, obs)[1] or 'subset/none'

    @staticmethod
    def nontrivial(case, obs):
        E = case['ext']
        return any(c != 'GConst' and key_is_canonical(E, k) for k, c, _ in E['entries'])

    shrink = staticmethod(extlib.SubsetPart.shrink)


PARTS = [Merge, Subset]


# source tie (integrator): the helper functions the extension model rests on are TRANSLATED from the Python AST on every
# run (tools/tables/py2coq.py, t_src_ext.py -> Generated/T_src_ext.v) and the hand models are proved equal to the translation
COQ_PROPS = (list(COQ_PROPS) if isinstance(COQ_PROPS, (list, tuple)) else [COQ_PROPS]) + ['Props/SRC.v']
THEOREMS = list(THEOREMS) + ['SRC_valid_classes', 'SRC_class_valid', 'SRC_multiplicity', 'SRC_is_constant', 'SRC_is_repeating', 'SRC_const_period', 'SRC_n_slices']
TABLES = sorted(set(list(globals().get('TABLES') or ['t_classes', 't_ext_tol']) + ['t_src_ext', 't_classes', 't_ext_tol']))
TRUSTED_BASE = list(TRUSTED_BASE) + ['tools/tables/py2coq.py + t_src_ext.py: typed fail-closed translator of is_constant, is_repeating, get_valid_classes, get_multiplicity, _get_const_period, n_slices into Gallina; coq/Common/PyOps2.v as the meaning of the translated primitives']


# end-to-end composition (integrator): conv_full (coq/Conv/Full.v) threads the permutation, flip bit and final affine that
# the geometry half computes into the embed step exactly as DicomStack.to_nifti does; theorems in Props/C06conv.v
from props import convfull as _convfull
COQ_PROPS = (list(COQ_PROPS) if isinstance(COQ_PROPS, (list, tuple)) else [COQ_PROPS]) + ['Props/C06conv.v']
THEOREMS = list(THEOREMS) + ['C06_conversion_canonical', 'C06_conversion_const_readable', 'C06_conversion_per_volume', 'C06_conversion_den']
COQ_EXTRA_TARGETS = list(globals().get('COQ_EXTRA_TARGETS') or []) + ['Conv/FullCorr.vo']
TABLES = sorted(set(list(globals().get('TABLES') or []) + ['t_classes', 't_ext_tol', 't_stack', 't_filter', 't_time', 't_conv']))
PARTS = list(PARTS) + [_convfull.FullPart]


# source tie, stage A (integrator): _global_slice_subset and _get_changed_class are TRANSLATED from the AST on every run and the
# hand model (global_slice_subset, changed_class) is proved equal to the translation on stored content (Props/SRCalg.v)
COQ_PROPS = list(COQ_PROPS) + ['Props/SRCalg.v']
THEOREMS = list(THEOREMS) + ['SRC_global_slice_subset', 'SRC_changed_class']


# source tie, stage B (integrator): _change_class / _simplify are TRANSLATED in state-passing form (t_src_state.py) and the per-key
# model (change_class_k, simplify_k) is proved to be a refinement of the translation on the stored content (Props/SRCstate.v)
COQ_PROPS = list(COQ_PROPS) + ['Props/SRCstate.v']
THEOREMS = list(THEOREMS) + ['SRC_change_class', 'SRC_simplify', 'SRC_to_content_holds']
TABLES = sorted(set(list(TABLES) + ['t_src_state', 't_content', 't_cli']))


# source tie, stage D (integrator): _insert_slice TRANSLATED in state-passing form and proved a refinement of insert_slice_k for the five
# varying classes (Props/SRCinsert.v); the ('global','const') path is translated and executed against the code only
COQ_PROPS = list(COQ_PROPS) + ['Props/SRCinsert.v']
THEOREMS = list(THEOREMS) + ['SRC_insert_slice', 'SRC_insert_non_slice', 'SRC_insert_sample']


# source tie, stage D (integrator): _insert as a whole TRANSLATED and proved to refine insert_k over all keys (success-case form), and the
# reclassification step refines reclassify_k (Props/SRCinsertall.v)
COQ_PROPS = list(COQ_PROPS) + ['Props/SRCinsertall.v']
THEOREMS = list(THEOREMS) + ['SRC_insert', 'SRC_reclassify']


# source tie, stage D (integrator): from_sequence as a whole TRANSLATED and proved to refine merge_hdr + merge_k over all keys
# (success-case form) (Props/SRCfromseq.v)
COQ_PROPS = list(COQ_PROPS) + ['Props/SRCfromseq.v']
THEOREMS = list(THEOREMS) + ['SRC_from_sequence', 'SRC_merge_hdr']


# source tie, end to end (integrator): Props/SRCtop.v composes the translated get_subset / from_sequence with Link.Abs.to_content:
# for valid nondegenerate extensions the code's method on to_content e returns a content that Holds exactly the hand model's result
COQ_PROPS = list(COQ_PROPS) + ['Props/SRCtop.v']
THEOREMS = list(THEOREMS) + ['SRC_top_get_subset', 'SRC_top_get_subset_valid', 'SRC_sideb_sound', 'SRC_top_from_sequence', 'SRC_top_from_sequence_valid', 'SRC_traj_okb_sound', 'SRC_from_sequence_ext', 'SRC_valid_inputs']
