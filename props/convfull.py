"""CONVFULL (development plugin)  the COMPOSED conversion: DicomStack.to_nifti(order, embed_meta) /
to_nifti_wrapper(order) against the single Coq function Conv.Full.conv_full, in ONE correspondence check on PUBLIC
results only (data array, dtype, affine, header fields, embedded extension as a map, the voxel-order abstraction
stacklib.wants_flip, every lookup at the voxel index of a source file; the stack's private attributes are never read),
plus oracles in the properties' own words, judged against the GENERATOR's ground truth:

  C01  the value looked up at the voxel index of every source file is what that file carried;
  C06  every key of the embedded extension sits at the dense canonical classification of the values the source
       files carried at the grid positions where their pixels ended up;
  C12  a second conversion of the same stack, and stacks that received the files in other orders with random
       sequences of get_shape / get_data / get_affine / to_nifti(order', embed') / to_nifti_wrapper(order') calls
       interleaved, give the same array, affine, header timing and dimension fields and embedded JSON (parsed); a
       result handed out earlier is not changed by later calls.  The same histories are part of the Coq case
       (FullCorr.fc_hists): the model is evaluated after the same calls (FullHist.hist_state, a C12 history) and
       compared call by call and on the final conversion (audit 3, issue 1).

`FullPart` is reusable: the integrator adds it to props/c01.py, c06.py, c12.py (and may add it to c02.py / c20.py)
together with the theorems of Props/C01full.v, Props/C12full.v, Props/C06conv.v.

Reuses (read-only) props/stacklib.py, convlib.py, convmeta.py, extlib.py.  Nothing here imports dcmstack / numpy at
module level."""
import os, sys, copy, re
from fractions import Fraction

from vlib.coqlit import cnat, cz, cbool, clist, copt, cpair, cstr, cq, cjv
from props import stacklib as L
from props import convlib as C
from props import convmeta as M
from props import extlib as X

ID = "CONVFULL"
COQ_PROPS = ["Props/C01full.v", "Props/C12full.v", "Props/C06conv.v"]
COQ_EXTRA_TARGETS = ["Conv/FullCorr.vo"]
THEOREMS = ["C01_voxel_lossless", "C01_full_projects", "C01_full_flip", "C01_normals_from_sources",
            "C12_full_dependency", "C12_full_history", "C12_full_fresh", "C12_full_resorted",
            "C12_full_conv_state", "C12_full_hist_history",
            "C06_conversion_canonical", "C06_conversion_const_readable", "C06_conversion_per_volume",
            "C06_conversion_den"]
ALLOWED_AXIOMS = []
TABLES = ["t_classes", "t_ext_tol", "t_stack", "t_filter", "t_time", "t_conv"]
TRUSTED_BASE = [
    "as C02 / C20 (props/c02.py): nibabel's classic DicomWrapper as a contract (Conv/Geom.v), checked against the real "
    "wrapper on every case; exact rational arithmetic stands for float64 arithmetic on the generator's exact stream",
    "model INPUTS read from the library (never used as the oracle's yardstick): the sorter's / converter's abstraction of "
    "every file (convlib.abstract_gfile), the affine of each per-file extension (public NiftiWrapper.from_dicom_wrapper), "
    "stacklib.wants_flip (compared with the model's own voxel-order bit), and in extract mode the dictionary "
    "extract.default_extractor(ds) (the ground truth the property itself names); an oracle clause checks the dictionaries "
    "against what the generator put into the files",
    "nifti_header.get_best_affine() (float32 sform) is modelled as the exact affine of the geometry half; whether that is "
    "exact is decided by the GENERATOR from the case's geometry (f32_geometry_exact: every entry of every single-file "
    "affine and of the converted affine for any voxel order is a float32); exact-stream cases that are not are not generated",
    "Python == on metadata values is structural equality (one value type per key)",
]
ASSUMPTIONS = [
    "classic single-frame data sets, complete S x T x V grids; integral pixel values (no rescale in this stream; rescale "
    "is C02's)",
    "two geometry streams: orientations with exact dyadic cosines (everything compared exactly, incl. the affine stored in "
    "the extension) and TRUE obliques with float 3-4-5 / 2-3-6 cosines (image affine to 2^-30, float32 affines to 2^-14; "
    "data, header fields, extension content and lookups exactly)",
    "DOMAIN RESTRICTION inherited from C01 (open finding N9): slice normals of the per-file extension affines "
    "pairwise np.allclose; all files of a generated series share one orientation",
    "metadata filters depend on the key only; the filter is always handed to the stack explicitly (the shipped default "
    "lists as literals): WHICH literals dcmstack ships by default is C14's statement, not C01's",
    "the canonical-class oracle reads the slice index of a source file off the output array (unique pixel value), "
    "i.e. it is phrased on OUTPUT voxel positions, like the property",
    "private state of the stack (_files_info order, _shape_dirty) is not observed: that it is left right is judged by "
    "what later calls return (history oracle)",
]

ORDERS_QUICK = ['', 'LAS', 'RAS', 'LPI', 'ASL', 'SAL', 'ILP', 'PSR', 'SPL', 'AIL', 'IRP', 'RSP']
SHAPES = [(2, 3), (3, 2), (2, 4), (3, 4)]          # rows != cols: a wrong slice_dim changes the slice count
EXACT_ORIENT_POOL = ['ax', 'ax2', 'sag', 'sag', 'cor', 'cor', 'dz', 'dx', 'dsag', 'dcor']
OBLIQUE_POOL = ['obl1', 'obl2', 'obl3']            # true obliques: float 3-4-5 / 2-3-6 cosines (inexact stream)

# the default exclude / include literals shipped at the pinned commit (the filter is handed to the stack explicitly, so
# the verdict for every key is the GENERATOR's: which literals dcmstack ships by default is C14's business, not C01's)
SHIPPED_EXCL = ['Patient', 'Physician', 'Operator', 'Date', 'Birth', 'Address', 'Institution', 'Station', 'SiteName', 'Age',
                'Comment', 'Phone', 'Telephone', 'Insurance', 'Religious', 'Language', 'Military', 'MedicalRecord', 'Ethnic',
                'Occupation', 'Unknown', 'PrivateTagData', 'UID', 'StudyDescription', 'DeviceSerialNumber',
                'ReferencedImageSequence', 'RequestedProcedureDescription', 'PerformedProcedureStepDescription',
                'PerformedProcedureStepID']
SHIPPED_INCL = ['ImageOrientationPatient', 'ImagePositionPatient']


# ------------------------------------------------------------------------------------------------ generator truth

def filter_lists(spec):
    m = spec['mode']
    if m == 'default':
        return list(SHIPPED_EXCL), list(SHIPPED_INCL)
    if m == 'default+extra':
        return list(SHIPPED_EXCL) + list(spec['xe']), list(SHIPPED_INCL) + list(spec['xi'])
    if m == 'regex':
        return list(spec['excl']), (None if spec['incl'] is None else list(spec['incl']))
    return None, None


def truth_filter(spec):
    """key -> is it removed?  From the case alone (Python's re on the generator's lists; no dcmstack)."""
    m = spec['mode']
    if m == 'none':
        return lambda k: False
    if m == 'lambda':
        return M.LAMBDAS[spec['name']]
    excl, incl = filter_lists(spec)
    return lambda k: bool(any(re.search(e, k) for e in excl) and not (incl and any(re.search(i, k) for i in incl)))


def make_filter(dcmstack, spec):
    excl, incl = filter_lists(spec)
    if excl is not None:
        return dcmstack.make_key_regex_filter(excl, incl)
    return M.make_filter(dcmstack, spec)


def gen_truth(spec, hand):
    """What the generator put into file `spec`: the whole dictionary in hand mode (it is built here, not read back from the
    extractor), the generated DICOM elements in extract mode."""
    d = {}
    if hand:
        d['PixelSpacing'] = [float(x) for x in spec['ps']]
        d['ImageOrientationPatient'] = [float(x) for x in spec['iop']]
        d['Rows'] = int(spec['rows'])
        d['Columns'] = int(spec['cols'])
        d['BitsStored'] = int(spec['bits_stored'])
    d.update(copy.deepcopy(spec['tags']))
    if hand:
        d.update(copy.deepcopy(spec.get('extra', {})))
    return d


def same_value(a, b):
    """generator value against a value that went through pydicom / the extractor (DS -> float, IS -> int)"""
    if isinstance(a, bool) or isinstance(b, bool):
        return a is b
    if isinstance(a, (int, float)) and isinstance(b, (int, float)):
        return a == b
    if isinstance(a, (list, tuple)) and isinstance(b, (list, tuple)):
        return len(a) == len(b) and all(same_value(x, y) for x, y in zip(a, b))
    return type(a) is type(b) and a == b


def _f32_ok(x):
    x = Fraction(x)
    if x == 0:
        return True
    d = x.denominator
    if d & (d - 1):
        return False
    n = abs(x.numerator)
    while n % 2 == 0:
        n //= 2
    return n < (1 << 24) and abs(x) < (1 << 60)


def f32_geometry_exact(case):
    """Decided from the CASE: every entry of every single-file affine and of the affine of the converted image, for any
    voxel order, is a float32 (so the float32 sform that nibabel hands to the extension is the exact affine)."""
    files = case['files']
    S = case['dims'][0]
    f0 = files[0]
    iop = [Fraction(x) for x in f0['iop']]
    ps = [Fraction(x) for x in f0['ps']]
    zs = Fraction(f0['zs']) if f0.get('zs') is not None else Fraction(1)
    n = C.cross(iop[3:6], iop[0:3])
    cols = [[iop[3 + r] * ps[0] for r in range(3)], [iop[r] * ps[1] for r in range(3)], [n[r] * zs for r in range(3)]]
    steps = []
    by_vol = {}
    for f in files:
        by_vol.setdefault(tuple(f['cell'][1:]), []).append(f)
    for vol in by_vol.values():
        vol.sort(key=lambda f: f['cell'][0])
        for a, b in zip(vol, vol[1:]):
            steps.append([Fraction(y) - Fraction(x) for x, y in zip(a['ipp'], b['ipp'])])
    vals = [x for c in cols for x in c] + [x for d in steps for x in d]
    ext0 = [[c * (f0['rows'] - 1) for c in cols[0]], [c * (f0['cols'] - 1) for c in cols[1]]]
    slc = [[x * (S - 1) for x in d] for d in steps[:1]] or [[0, 0, 0]]
    for f in files:
        ipp = [Fraction(x) for x in f['ipp']]
        for r in range(3):
            for e0 in (0, 1):
                for e1 in (0, 1):
                    for e2 in (0, 1, -1):
                        vals.append(ipp[r] + e0 * ext0[0][r] + e1 * ext0[1][r] + e2 * slc[0][r])
    return all(_f32_ok(v) for v in vals)


# ------------------------------------------------------------------------------------------------ generation

HIST_OPS = ['shape', 'data', 'affine', 'nifti', 'nifti', 'wrapper']


def _rand_call(rng, orders):
    kind = rng.choice(HIST_OPS)
    if kind == 'nifti':
        return ['nifti', rng.choice(orders + [None]), rng.random() < 0.5]
    if kind == 'wrapper':
        return ['wrapper', rng.choice(orders)]
    return [kind]


def gen_history(rng, n, orders):
    """another add order with 1-5 queries / conversions at random places, also between adds (a query on an incomplete
    stack may raise: the history goes on, as a user would).  Steps: ['add', k] (k = position in the case's add order),
    ['shape'], ['data'], ['affine'], ['nifti', order | None, embed], ['wrapper', order]."""
    order = list(range(n))
    rng.shuffle(order)
    calls = []
    for _ in range(rng.randrange(1, 6)):
        calls.append([rng.choice([n, n, n, rng.randrange(0, n + 1)]), _rand_call(rng, orders)])
    calls.sort(key=lambda x: x[0])
    steps = []
    for k in range(n + 1):
        steps += [c for p, c in calls if p == k]
        if k < n:
            steps.append(['add', order[k]])
    return {'what': 'random', 'steps': steps}


def gen_again(case):
    """the case's own add order and conversion, then (as every history) the same conversion once more"""
    n = len(case['files'])
    vo, via = case['vo'], case['via']
    call = ['wrapper', vo] if via == 'wrapper' else ['nifti', vo, via == 'nifti']
    return {'what': 'again', 'steps': [['add', k] for k in range(n)] + [call]}


def gen_slice_first(rng, case):
    """one slice position of every volume first (a complete single-slice grid), queries on it, then the other files,
    queries again: results handed out for the small stack must not change when the stack grows"""
    S = case['dims'][0]
    n = len(case['files'])
    s0 = rng.choice([0, S - 1])
    pos_of = {fi: k for k, fi in enumerate(case['add_order'])}
    first = [pos_of[i] for i, f in enumerate(case['files']) if f['cell'][0] == s0]
    rest = [k for k in range(n) if k not in first]
    rng.shuffle(first)
    rng.shuffle(rest)
    mid = [['affine'], rng.choice([['data'], ['shape'], ['nifti', rng.choice(['', 'LAS', None]), False]])]
    end = [rng.choice([['affine'], ['data'], ['nifti', '', False]])]
    return {'what': 'slice-first', 'steps': [['add', k] for k in first] + mid + [['add', k] for k in rest] + end}


def gen_case(rng, tier, **over):
    big = tier != 'quick'
    for _ in range(400):
        kw = {}
        kw['S'] = rng.choice([1, 2, 3, 3, 4] + ([5] if big else []))
        kw['T'] = rng.choice([1, 1, 2, 2, 3])
        kw['V'] = rng.choice([1, 1, 1, 2, 3])
        oblique = over.get('oblique', rng.random() < 0.15)
        kw['orient'] = rng.choice(OBLIQUE_POOL if oblique else EXACT_ORIENT_POOL)
        kw['direction'] = rng.choice([1, -1])
        kw['gap'] = rng.choice([0.5, 1.0, 2.0, 2.5, 3.0]) if not oblique else rng.choice([1.1, 0.7, 2.0])
        kw['origin'] = [rng.choice([-8., -1.5, 0., 4., 16.25]) for _ in range(3)]
        kw['rows'], kw['cols'] = rng.choice(SHAPES)
        kw['ps'] = rng.choice([[1.0, 1.0], [0.5, 0.75], [2.0, 2.0], [0.25, 1.5]]) if not oblique else rng.choice([[0.7, 0.9], [1.0, 1.0]])
        kw['zs'] = rng.choice([None, 1.5, 3.0, 0.5])
        kw['pixrep'] = rng.choice([0, 0, 1])
        kw['alloc'] = 16
        kw['pixmix'] = []
        kw['bits'] = rng.choice([12, 15, 16])
        kw['slope'], kw['intercept'] = None, None
        kw['acq'] = rng.choice(C.ACQ_PATTERNS)
        kw['tr'] = rng.choice(C.TR_VARIANTS)
        kw['phase'] = rng.choice(C.PHASE_VARIANTS)
        orders = ORDERS_QUICK if not big else [''] + C.CODES48
        kw['vo'] = rng.choice(orders)
        kw['vo2'] = None
        kw.update({k: v for k, v in over.items() if k not in ('via', 'kind', 'meta_mode', 'filter', 'oblique', 'abs')})
        try:
            c = C.make_stack_case(rng, **kw)
        except ValueError:
            continue
        c.pop('vo2', None)
        if kw['orient'] in C.EXACT_ORIENTS:
            # exact stream: float64 AND float32 exactness decided here, from the geometry of the case
            if not c['exact'] or not f32_geometry_exact(c):
                continue
        else:
            c['exact'] = False
        dims = c['dims']
        # explicit orderings through abs_ordering (a shuffled list of the key's values defines the order)
        for which in ('time_order', 'vector_order'):
            o = c.get(which)
            if o is not None and over.get('abs', rng.random() < 0.35):
                vals = sorted(set(f['tags'][o['key']] for f in c['files']))
                rng.shuffle(vals)
                o['abs'] = vals
        mode = over.get('meta_mode') or rng.choice(['hand', 'hand', 'extract'])
        if mode == 'hand':
            plan = M.add_hand_meta(rng, c['files'], dims, rng.randrange(4, 8))
        else:
            plan = M.add_extract_tags(rng, c['files'], dims, rng.randrange(3, 6), set(c['files'][0]['tags']))
        c['meta_mode'] = mode
        c['plan'] = plan
        c['via'] = over.get('via') or rng.choice(['wrapper', 'wrapper', 'nifti', 'nifti', 'plain'])
        c['filter'] = over.get('filter') or M.gen_filter(rng)
        c['histories'] = [gen_again(c)] + [gen_history(rng, len(c['files']), ORDERS_QUICK) for _ in range(1 if not big else 2)]
        if dims[0] > 1:
            c['histories'].append(gen_slice_first(rng, c))
        nd = 3 + (dims[1] > 1 or dims[2] > 1) + (dims[2] > 1)
        absd = any((c.get(w) or {}).get('abs') for w in ('time_order', 'vector_order'))
        c['kind'] = over.get('kind') or '%s/%s/%dd%s' % (mode, C.ORIENT_CLASS[kw['orient']], nd, '/abs' if absd else '')
        return c
    raise ValueError('no case found')


def gen_cases(rng, tier):
    n = 300 if tier == 'quick' else 2000
    out = []
    # systematic block: sagittal / coronal / axial x both directions x orders whose permutation is an involution
    # ('LAS'), a 3-cycle ('ASL', 'SAL', 'ILP', 'PSR') or the identity, 4-D and 5-D, slices > 1
    for orient in ('sag', 'cor', 'ax'):
        for direction in (1, -1):
            for vo in ('LAS', 'ASL', 'ILP', ''):
                out.append(gen_case(rng, tier, orient=orient, oblique=False, direction=direction, vo=vo, S=rng.choice([2, 3]),
                                    T=rng.choice([1, 2]), V=rng.choice([1, 2]), via=rng.choice(['wrapper', 'nifti']),
                                    kind='sys/%s/%s' % (orient, vo or 'none')))
    # true obliques x permuting / flipping orders
    for orient in OBLIQUE_POOL:
        for vo in ('LAS', 'ASL', 'PSR', ''):
            out.append(gen_case(rng, tier, orient=orient, oblique=True, vo=vo, S=rng.choice([2, 3]), T=rng.choice([1, 2]),
                                V=rng.choice([1, 2]), via=rng.choice(['wrapper', 'nifti']), kind='sys/%s/%s' % (orient, vo or 'none')))
    # explicit orderings given as abs_ordering lists
    for (S, T, V) in [(2, 3, 1), (2, 2, 2), (3, 1, 3), (1, 3, 2)]:
        out.append(gen_case(rng, tier, S=S, T=T, V=V, mode='timevec' if (T > 1 and V > 1) else 'time' if T > 1 else 'vec',
                            abs=True, via='wrapper', kind='abs-%dx%dx%d' % (S, T, V)))
    # shapes (x,y,z,1,n), single-slice volumes, 3-D
    for (S, T, V) in [(2, 1, 2), (1, 2, 1), (1, 2, 2), (3, 1, 1), (1, 1, 1), (1, 1, 2)]:
        out.append(gen_case(rng, tier, S=S, T=T, V=V, via='wrapper', kind='grid-%dx%dx%d' % (S, T, V)))
    while len(out) < n:
        out.append(gen_case(rng, tier))
    return out


# ------------------------------------------------------------------------------------------------ runner

def public_parts(img):
    """what C12 talks about: array, affine, header timing and dimension fields, embedded JSON (parsed: key order inside
    the JSON text is not part of the statement)"""
    import json
    p = L.nifti_parts(img)
    p.pop('bytes', None)
    exts = []
    for x in p.get('ext', []):
        try:
            exts.append(json.loads(x))
        except Exception:
            exts.append(x)
    p['ext'] = exts
    return p


def run_impl(case):
    import warnings
    warnings.simplefilter('ignore')
    import numpy as np
    import dcmstack
    from dcmstack import dcmmeta
    from dcmstack.extract import default_extractor
    from nibabel.nicom.dicomwrappers import wrapper_from_data
    files = case['files']
    hand = case['meta_mode'] == 'hand'
    vo, via = case['vo'], case['via']
    embed = via != 'plain'
    given = {i: gen_truth(files[i], True) for i in range(len(files))} if hand else {}

    def new_stack():
        return dcmstack.DicomStack(time_order=L.make_ordering(dcmstack, case.get('time_order')),
                                   vector_order=L.make_ordering(dcmstack, case.get('vector_order')),
                                   meta_filter=make_filter(dcmstack, case['filter']))

    def add(st, i):
        ds = C.build_ds(files[i])
        if hand:
            st.add_dcm(ds, copy.deepcopy(given[i]))
        else:
            st.add_dcm(ds)
        return ds

    def build(order):
        st = new_stack()
        dss = {}
        for i in order:
            dss[i] = add(st, i)
        return st, dss

    def convert(st):
        if via == 'wrapper':
            w = st.to_nifti_wrapper(vo)
            return w.nii_img, w
        if via == 'nifti':
            img = st.to_nifti(vo, embed_meta=True)
            return img, dcmmeta.NiftiWrapper(img)
        return st.to_nifti(vo, embed_meta=False), None

    order = case['add_order']
    st, dss = build(order)
    absf, truth, affs = {}, {}, {}
    for i in order:
        absf[i] = C.abstract_gfile(dcmstack, files[i], dss[i], case)
        truth[i] = given[i] if hand else default_extractor(dss[i])
        # the per-file wrapper exactly as add_dcm builds it (public constructor; the stack's own list is not read)
        nw = dcmmeta.NiftiWrapper.from_dicom_wrapper(wrapper_from_data(dss[i]), copy.deepcopy(truth[i]))
        affs[i] = [[float(x) for x in row] for row in nw.meta_ext.affine]
    obs = {'files': [absf[i] for i in order], 'affs': [affs[i] for i in order],
           'truth': [[files[i]['id'], M.plain(truth[i])] for i in order],
           'wants_flip': L.wants_flip(dcmstack, dss[order[0]], vo)}
    img = w = None
    with C.capture_slice_times() as cap:
        try:
            img, w = convert(st)
        except Exception as e:
            obs['raised'] = '%s: %s' % (type(e).__name__, str(e)[:200])
    obs['ncalls'] = len(cap.calls)
    obs['stimes_arg'] = cap.calls[-1] if cap.calls else None
    if 'raised' in obs:
        return obs
    try:
        obs.update(C.observe_image(img, int(case.get('den', 1))))
    except Exception as e:
        obs['raised'] = 'unobservable image (%s)' % type(e).__name__
        return obs
    obs['n_ext'] = len(img.header.extensions)
    if embed:
        try:
            E = X.ext_to_json(w.meta_ext)
        except ValueError as e:
            obs['raised'] = 'extension cannot be abstracted (%s)' % str(e)[:120]
            return obs
        obs['ext'] = E
        obs['ext_T'] = [[float(x) for x in row] for row in np.asarray(w.meta_ext.reorient_transform, dtype=np.float64)]
        loc = C.locate_files(case, obs['shape'], obs['data'])
        allkeys = sorted(set(k for d in truth.values() for k in d))
        look = []
        for f in files:
            fid = f['id']
            ix = loc.get(fid)
            if ix is None:
                look.append([fid, None, []])
                continue
            vals = []
            for k in allkeys:
                try:
                    vals.append([k, {'val': M.plain(w.get_meta(k, tuple(ix)))}])
                except Exception as e:                      # noqa: BLE001
                    vals.append([k, {'err': X.ERRMAP.get(type(e).__name__, 'ECrash')}])
            look.append([fid, ix, vals])
        obs['look'] = look
    # ---- histories (C12): every call's result is KEPT and read at the end of the history; then the case's conversion
    den = int(case.get('den', 1))

    def light(image):
        o = C.observe_image(image, den)
        return {'shape': o['shape'], 'data': o['data'], 'dtype': o['dtype'], 'affine': o['affine'], 'sd': o['dim_info'][2]}

    def arr_obs(a):
        a = np.asarray(a)
        return {'shape': [int(x) for x in a.shape], 'data': [int(x) for x in np.ascontiguousarray(a).ravel().tolist()]}

    def read(kind, obj):
        if kind == 'shape':
            return [int(x) for x in obj]
        if kind == 'affine':
            return [[float(x) for x in row] for row in np.asarray(obj, dtype=np.float64)]
        if kind == 'data':
            return arr_obs(obj)
        return light(obj)

    ref = public_parts(img)
    hists = []
    for h in case.get('histories', []):
        st2 = new_stack()
        kept = []
        for stp in h['steps']:
            if stp[0] == 'add':
                add(st2, order[stp[1]])                      # an add of a complete grid is never refused: propagate
                kept.append(['none', None, None])
                continue
            try:
                if stp[0] == 'shape':
                    r = st2.get_shape()
                elif stp[0] == 'data':
                    r = st2.get_data()
                elif stp[0] == 'affine':
                    r = st2.get_affine()
                elif stp[0] == 'nifti':
                    r = st2.to_nifti(stp[1], embed_meta=bool(stp[2]))
                else:
                    r = st2.to_nifti_wrapper(stp[1]).nii_img
                kind = stp[0] if stp[0] in ('shape', 'data', 'affine') else 'conv'
                kept.append([kind, r, read(kind, r)])
            except Exception as e:
                kept.append(['raised', type(e).__name__, None])
        rec = {'what': h['what'], 'steps': h['steps']}
        with C.capture_slice_times() as cap2:
            try:
                img2, w2 = convert(st2)
            except Exception as e:
                rec['final'] = {'raised': '%s: %s' % (type(e).__name__, str(e)[:200])}
                img2 = None
        if img2 is not None:
            fin = C.observe_image(img2, den)
            fin['stimes_arg'] = cap2.calls[-1] if cap2.calls else None
            if embed:
                fin['ext'] = X.ext_to_json(w2.meta_ext)
                fin['ext_T'] = [[float(x) for x in row] for row in np.asarray(w2.meta_ext.reorient_transform, dtype=np.float64)]
                fin['look'] = []
            rec['final'] = fin
            p2 = public_parts(img2)
            rec['diff'] = [k for k in sorted(ref) if ref[k] != p2[k]]
        else:
            rec['diff'] = ['raised']
        # the kept results, read NOW; `changed` = a result handed out earlier is no longer what it was when returned
        res, changed = [], []
        for n_, (kind, obj, snap) in enumerate(kept):
            if kind in ('none', 'raised'):
                res.append([kind, obj])
                continue
            now = read(kind, obj)
            res.append([kind, now])
            if now != snap:
                changed.append([n_, h['steps'][n_]])
        rec['res'] = res
        rec['changed'] = changed
        hists.append(rec)
    obs['hist'] = hists
    return obs


# ------------------------------------------------------------------------------------------------ Coq literal

def cmat_f(m):
    return clist(clist(cq(Fraction(float(x))) for x in row) for row in m)


def coq_obs(case, obs):
    if obs.get('raised') is not None or 'shape' not in obs:
        return '(mkfobs true [] [] (@nil N) [] (None, None, None) 0%Q ((@nil N), (@nil N)) None None None [])'
    di = obs['dim_info']
    st = obs['stimes_arg']
    if 'ext' in obs:
        ext = '(Some %s)' % X.ext_to_coq(obs['ext'])
        look = clist(cpair(cnat(fid), cpair(clist(cz(i) for i in ix),
                                             clist(cpair(cstr(k), X.resjv_to_coq(v)) for k, v in vals)))
                     for fid, ix, vals in obs['look'] if ix is not None)
    else:
        ext, look = 'None', '[]'
    T = copt(obs.get('ext_T'), cmat_f)
    return '(mkfobs false %s %s %s %s (%s, %s, %s) %s (%s, %s) %s %s %s %s)' % (
        clist(cnat(x) for x in obs['shape']), clist(cz(x) for x in obs['data']), cstr(obs['dtype']),
        clist(clist(cq(x) for x in row) for row in obs['affine']),
        copt(di[0], cnat), copt(di[1], cnat), copt(di[2], cnat), cq(obs['pixdim4']),
        cstr(obs['units'][0]), cstr(obs['units'][1]),
        copt(st, lambda l: clist(cq(x) for x in l)), ext, T, look)


def coq_hop(stp):
    if stp[0] == 'add':
        return '(HAdd %s)' % cnat(stp[1])
    if stp[0] == 'shape':
        return 'HShape'
    if stp[0] == 'data':
        return 'HData'
    if stp[0] == 'affine':
        return 'HAffine'
    if stp[0] == 'nifti':
        return '(HConv %s %s)' % (cstr(stp[1] or ''), cbool(bool(stp[2])))
    return '(HConv %s true)' % cstr(stp[1] or '')


def coq_hres(r):
    kind, v = r
    if kind == 'none':
        return 'HR_none'
    if kind == 'raised':
        return 'HR_raised'
    if kind == 'shape':
        return '(HR_shape %s)' % clist(cnat(x) for x in v)
    if kind == 'affine':
        return '(HR_affine %s)' % cmat_f(v)
    if kind == 'data':
        return '(HR_data %s %s)' % (clist(cnat(x) for x in v['shape']), clist(cz(x) for x in v['data']))
    return '(HR_conv %s %s %s %s %s)' % (clist(cnat(x) for x in v['shape']), clist(cz(x) for x in v['data']), cstr(v['dtype']),
                                        cmat_f(v['affine']), copt(v['sd'], cnat))


def coq_hist(case, rec):
    return '(mkfhist %s %s %s)' % (clist(coq_hop(x) for x in rec['steps']), clist(coq_hres(r) for r in rec['res']),
                                   coq_obs(case, rec['final']))


def coq_case(case, obs):
    if not isinstance(obs, dict) or 'crash' in obs or 'files' not in obs:
        raise ValueError('implementation runner crashed: %r' % (obs,))
    gs = obs['files']
    files = clist(C.coq_gfile(a) for a in gs)
    metas = clist(clist(cpair(cstr(k), cjv(v)) for k, v in tr[1].items()) for tr in obs['truth'])
    maffs = clist(cmat_f(a) for a in obs['affs'])
    faffs = clist(C.cmat(a['faff']) for a in gs)
    wf = obs['wants_flip']
    vo = 'None' if wf is None else '(Some %s)' % cbool(wf)
    tf = truth_filter(case['filter'])
    allkeys = sorted(set(k for _, d in obs['truth'] for k in d))
    hists = clist(coq_hist(case, rec) for rec in obs.get('hist', []))
    return '(mkfcase %s %s %s %s %s %s %s %s %s false %s %s %s %s)' % (
        cbool(case.get('time_order') is not None), cbool(case.get('vector_order') is not None),
        files, metas, maffs, faffs, cstr(case['vo']), cbool(case['via'] != 'plain'), cbool(bool(case['exact'])),
        clist(cpair(cstr(k), cbool(bool(tf(k)))) for k in allkeys), vo, coq_obs(case, obs), hists)


# ------------------------------------------------------------------------------------------------ oracles

def cell_of(case, fid):
    for f in case['files']:
        if f['id'] == fid:
            return f['cell']
    return None


def oracle_messages(case, obs):
    """every clause is evaluated; C01's clauses first, then C06's, then C12's, then the consistency clauses"""
    if not isinstance(obs, dict):
        return ['crash: the implementation runner returned %r' % (obs,)]
    if 'crash' in obs:
        return ['crash: unexpected %s: %s' % (obs.get('crash'), str(obs.get('msg', ''))[:200])]
    if 'files' not in obs:
        return ['crash: no observation']
    if obs.get('raised') is not None:
        return ['refused: complete stack (%s) was not converted: %s' % (case['dims'], obs['raised'])]
    out = []
    hand = case['meta_mode'] == 'hand'
    spec_of = {f['id']: f for f in case['files']}
    gen = {fid: gen_truth(spec_of[fid], hand) for fid in spec_of}
    seen_truth = {fid: d for fid, d in obs['truth']}
    # the abstraction handed to the model against the generator's truth
    for fid in sorted(gen):
        for k, v in gen[fid].items():
            if k not in seen_truth[fid] or not same_value(v, seen_truth[fid][k]):
                out.append('abstraction: file %d was generated with %s = %r, the extracted dictionary says %r'
                           % (fid, k, v, seen_truth[fid].get(k)))
                break

    def carried(fid, k):
        return gen[fid][k] if k in gen[fid] else seen_truth[fid].get(k)
    removed = truth_filter(case['filter'])
    if case['via'] == 'plain':
        if obs.get('n_ext'):
            out.append('embed: embed_meta=False but the header carries %d extension(s)' % obs['n_ext'])
    else:
        E = obs['ext']
        located = all(ix is not None for _, ix, _ in obs['look'])
        # ---- C01: the lookup at the voxel index of every source file
        for fid, ix, vals in obs['look']:
            if ix is None:
                out.append('located: pixel (0,0) of file %d does not occur exactly once in the output array' % fid)
                break
        bad = None
        for fid, ix, vals in obs['look']:
            if ix is None or bad:
                continue
            for k, v in vals:
                if removed(k):
                    continue
                want = carried(fid, k)
                if 'err' in v:
                    bad = 'lookup raised: key %r at the voxel index %s of file %d raised %s' % (k, ix, fid, v['err'])
                elif not same_value(want, v['val']):
                    what = 'lost' if v['val'] is None else 'altered'
                    bad = 'value %s: key %r at voxel index %s (file %d, cell %s): file carried %r, lookup returned %r' % (
                        what, k, ix, fid, cell_of(case, fid), want, v['val'])
                if bad:
                    break
        if bad:
            out.append(bad)
        # ---- C06: dense canonical class of what the files carried at the positions where their pixels ended up
        if located:
            d = X.dims(E)
            sd = E['sdim']
            at = {}
            clash = None
            for fid, ix, vals in obs['look']:
                p = (ix[sd] if sd is not None and sd < len(ix) else 0, ix[3] if len(ix) > 3 else 0, ix[4] if len(ix) > 4 else 0)
                if p in at:
                    clash = 'located: two source files at grid position %s of the extension' % (p,)
                at[p] = fid
            if clash is None and sorted(at) != sorted(X.grid(d)):
                clash = 'located: the source files do not tile the %s grid of the extension' % (d,)
            if clash:
                out.append(clash)
            else:
                seen = set()
                for k, c, vs in E['entries']:
                    if k in seen:
                        out.append('classification: key %r appears in two classifications' % k)
                        break
                    seen.add(k)
                    f = (lambda key: (lambda p: carried(at[p], key)))(k)
                    want = X.canon_class(E['shape'], d, f)
                    if want != c:
                        out.append('classification: key %r is stored as %s, the simplest classification of its values is %s' % (k, c, want))
                        break
                    if len(vs) != X.mult(d, c):
                        out.append('classification: key %r in %s has %d values, expected %d' % (k, c, len(vs), X.mult(d, c)))
                        break
                allk = sorted(set(k for fid in gen for k in list(gen[fid]) + list(seen_truth[fid])))
                for k in allk:
                    if not removed(k) and k not in seen and any(carried(fid, k) is not None for fid in gen):
                        out.append('missing: key %r is not filtered and has a value in some file but is missing from the extension' % k)
                        break
                    if removed(k) and k in seen:
                        out.append('filtered: key %r is removed by the filter but present in the extension' % k)
                        break
        # consistency of the extension with the image it is embedded in (shape / slice axis are what lookups go by)
        if E['shape'] != obs['shape']:
            out.append('shape: extension shape %s, image shape %s' % (E['shape'], obs['shape']))
        if E['sdim'] != obs['dim_info'][2]:
            out.append('slice-dim: extension slice_dim %s, header slice axis %s' % (E['sdim'], obs['dim_info'][2]))
    # ---- C12
    for rec in obs.get('hist', []):
        calls = [x for x in rec['steps'] if x[0] != 'add']
        adds = [x[1] for x in rec['steps'] if x[0] == 'add']
        if rec.get('diff'):
            out.append('history: after the adds %s with the calls %s the same conversion gives another image (%s differ)'
                       % (adds, calls, ', '.join(rec['diff'])))
            break
        if rec.get('changed'):
            out.append('history-kept: the result of call %s was changed by later calls on the stack (adds %s, calls %s)'
                       % (rec['changed'][0], adds, calls))
            break
    return out


def oracle(case, obs):
    msgs = oracle_messages(case, obs)
    if not msgs:
        return None
    # rule 2: prefer a message that is not a registered open finding (CONVFULL has none: the first one)
    return msgs[0]


def signature(case, obs, msg):
    head = (msg or '').split(':')[0].lower()
    if head == 'crash':
        return 'crash/full/%s' % (obs.get('crash') if isinstance(obs, dict) else 'runner')
    return 'convfull-' + re.sub(r'[^a-z]+', '-', head)[:40]


def nontrivial(case, obs):
    if not isinstance(obs, dict) or obs.get('raised') is not None or 'shape' not in obs:
        return False
    return case['via'] != 'plain' and (len(obs['shape']) > 3 or obs['dim_info'][2] != 2 or case['add_order'] != sorted(case['add_order']))


def shrink(case):
    if case['vo']:
        c = copy.deepcopy(case); c['vo'] = ''; yield c
    if case['filter']['mode'] != 'none':
        c = copy.deepcopy(case); c['filter'] = {'mode': 'none'}; yield c
    if len(case.get('histories', [])) > 1:
        for k in range(len(case['histories'])):
            c = copy.deepcopy(case); c['histories'] = [case['histories'][k]]; yield c
    for k, h in enumerate(case.get('histories', [])):
        for j, stp in enumerate(h['steps']):
            if stp[0] != 'add':
                c = copy.deepcopy(case); del c['histories'][k]['steps'][j]; yield c
    for tag in ('RepetitionTime', 'InPlanePhaseEncodingDirection', 'AcquisitionTime'):
        if any(tag in f['tags'] for f in case['files']):
            c = copy.deepcopy(case)
            for f in c['files']:
                f['tags'].pop(tag, None)
            yield c
    keys = sorted(set(k for f in case['files'] for k in f.get('extra', {})))
    for k in keys:
        c = copy.deepcopy(case)
        for f in c['files']:
            f['extra'].pop(k, None)
        yield c
    if case['add_order'] != sorted(case['add_order']):
        c = copy.deepcopy(case); c['add_order'] = sorted(case['add_order']); yield c


class FullPart:
    NAME = "full"
    CORR_REQUIRE = ("From Coq Require Import Qcanon.\nFrom DV Require Import Common.Jv Stack.Model Orient.Model Ext.Types Ext.Model "
                    "Conv.Geom Conv.Header Conv.Meta Conv.Full Conv.FullHist Conv.FullCorr.")
    CORR_CASE_TYPE = "FullCorr.fcase"
    CORR_CHECK = "FullCorr.check"
    CORR_SHOW = "FullCorr.show"
    SHARD = 6
    IMPL_TIMEOUT = 900
    RULE = ("complete S x T x V grids (quick S <= 4, T, V <= 3) over axial / sagittal / coronal / in-plane rotated / oblique "
            "orientations with dyadic cosines (exact stream) and true obliques with float 3-4-5 / 2-3-6 cosines (15 %) x both slice "
            "directions x pixel matrices with rows != cols and unique values x voxel orders (identity, involutions, 3-cycles; "
            "thorough: all 48 + none) x acquisition-time / TR / phase variants x time / vector ordering guessed, by key, or by "
            "abs_ordering list (35 % of the explicit ones, shuffled) x metadata through add_dcm(ds, meta) with a generator-built "
            "dict (12 value patterns x 5 value types, None values, missing keys) or dcmstack's own extraction x 5 filter families x "
            "{to_nifti_wrapper(order), to_nifti(order, embed_meta=True), to_nifti(order, embed_meta=False)} x shuffled add order; per "
            "case 3-4 HISTORIES carried into the Coq case and evaluated by the model after the same calls: the conversion repeated on "
            "the same stack; 1 (thorough 2) random ones = another add order with 1-5 calls of get_shape / get_data / get_affine / "
            "to_nifti(order' incl. None, embed') / to_nifti_wrapper(order') at random positions, also between adds; for S > 1 one "
            "'slice-first' history (one slice position of every volume, queries, the other files, queries); every call's result is "
            "kept and read at the end of the history, then the case's conversion is made on that stack; non-trivial = embedding "
            "with a 4-D/5-D result, a moved slice axis or a shuffled add order")
    gen_cases = staticmethod(gen_cases)
    run_impl = staticmethod(run_impl)
    coq_case = staticmethod(coq_case)
    oracle = staticmethod(oracle)
    signature = staticmethod(signature)
    nontrivial = staticmethod(nontrivial)
    shrink = staticmethod(shrink)


RULE = FullPart.RULE
PARTS = [FullPart]
