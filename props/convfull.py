"""CONVFULL (development plugin)  the COMPOSED conversion: DicomStack.to_nifti(order, embed_meta) /
to_nifti_wrapper(order) against the single Coq function Conv.Full.conv_full, in ONE correspondence check
(data array, dtype, affine, header fields, state left behind, embedded extension, the voxel-order abstraction
stacklib.wants_flip, and every lookup at the voxel index of a source file), plus three oracles in the
properties' own words:

  C01  the value looked up at the voxel index of every source file is what that file carried;
  C06  every key of the embedded extension sits at the dense canonical classification of the values the source
       files carried at the grid positions where their pixels ended up;
  C12  a second conversion of the same stack, and a stack that received the files in reverse order with queries
       and a conversion in between, give a byte-identical NIfTI.

`FullPart` is reusable: the integrator adds it to props/c01.py, c06.py, c12.py (and may add it to c02.py / c20.py)
together with the theorems of Props/C01full.v, Props/C12full.v, Props/C06conv.v.

Reuses (read-only) props/stacklib.py, convlib.py, convmeta.py, extlib.py.  Nothing here imports dcmstack / numpy at
module level."""
import os, sys, copy, re
from fractions import Fraction

from vlib.coqlit import cnat, cz, cbool, clist, copt, cpair, cstr, cq, cjv
from props import stacklib as L
from props import convlib as C
from props import convmeta as M
from props import extlib as X

ID = "CONVFULL"
COQ_PROPS = ["Props/C01full.v", "Props/C12full.v", "Props/C06conv.v"]
COQ_EXTRA_TARGETS = ["Conv/FullCorr.vo"]
THEOREMS = ["C01_voxel_lossless", "C01_full_projects", "C01_full_flip", "C01_normals_from_sources",
            "C12_full_dependency", "C12_full_history", "C12_full_fresh", "C12_full_resorted",
            "C06_conversion_canonical", "C06_conversion_const_readable", "C06_conversion_per_volume",
            "C06_conversion_den"]
ALLOWED_AXIOMS = []
TABLES = ["t_classes", "t_ext_tol", "t_stack", "t_filter", "t_time", "t_conv"]
TRUSTED_BASE = [
    "as C02 / C20 (props/c02.py): nibabel's classic DicomWrapper as a contract (Conv/Geom.v), checked against the real "
    "wrapper on every case; exact rational arithmetic stands for float64 arithmetic on the generator's exact stream",
    "as C01 (props/c01.py): the extracted / given dictionary of every file and the affine of its per-file extension "
    "(float32 sform) are inputs; Python == on metadata values is structural equality (one value type per key)",
    "nifti_header.get_best_affine() (float32 sform) is modelled as the exact affine of the geometry half: exact on "
    "this generator (checked per case: every observed affine survives a float32 round trip, otherwise the affine "
    "of the extension is compared to 2^-14 only)",
]
ASSUMPTIONS = [
    "classic single-frame data sets, complete S x T x V grids; orientations with exact (dyadic) cosines; "
    "integral pixel values (no rescale in this stream; rescale is C02's)",
    "DOMAIN RESTRICTION inherited from C01 (open finding N9): slice normals of the per-file extension affines "
    "pairwise np.allclose; all files of a generated series share one orientation",
    "metadata filters depend on the key only",
    "the canonical-class oracle reads the slice index of a source file off the output array (unique pixel value), "
    "i.e. it is phrased on OUTPUT voxel positions, like the property",
]

ORDERS_QUICK = ['', 'LAS', 'RAS', 'LPI', 'ASL', 'SAL', 'ILP', 'PSR', 'SPL', 'AIL', 'IRP', 'RSP']
SHAPES = [(2, 3), (3, 2), (2, 4), (3, 4)]          # rows != cols: a wrong slice_dim changes the slice count


# ------------------------------------------------------------------------------------------------ generation

def gen_case(rng, tier, **over):
    big = tier != 'quick'
    for _ in range(200):
        kw = {}
        kw['S'] = rng.choice([1, 2, 3, 3, 4] + ([5] if big else []))
        kw['T'] = rng.choice([1, 1, 2, 2, 3])
        kw['V'] = rng.choice([1, 1, 1, 2, 3])
        kw['orient'] = rng.choice(['ax', 'ax2', 'sag', 'sag', 'cor', 'cor', 'dz', 'dx', 'dsag', 'dcor'])
        kw['direction'] = rng.choice([1, -1])
        kw['gap'] = rng.choice([0.5, 1.0, 2.0, 2.5, 3.0])
        kw['origin'] = [rng.choice([-8., -1.5, 0., 4., 16.25]) for _ in range(3)]
        kw['rows'], kw['cols'] = rng.choice(SHAPES)
        kw['ps'] = rng.choice([[1.0, 1.0], [0.5, 0.75], [2.0, 2.0], [0.25, 1.5]])
        kw['zs'] = rng.choice([None, 1.5, 3.0, 0.5])
        kw['pixrep'] = rng.choice([0, 0, 1])
        kw['alloc'] = 16
        kw['pixmix'] = []
        kw['bits'] = rng.choice([12, 15, 16])
        kw['slope'], kw['intercept'] = None, None
        kw['acq'] = rng.choice(C.ACQ_PATTERNS)
        kw['tr'] = rng.choice(C.TR_VARIANTS)
        kw['phase'] = rng.choice(C.PHASE_VARIANTS)
        kw['vo'] = rng.choice(ORDERS_QUICK if not big else [''] + C.CODES48)
        kw['vo2'] = None
        kw.update({k: v for k, v in over.items() if k not in ('via', 'kind', 'meta_mode', 'filter')})
        try:
            c = C.make_stack_case(rng, **kw)
        except ValueError:
            continue
        if not c['exact']:
            continue
        c.pop('vo2', None)
        dims = c['dims']
        mode = over.get('meta_mode') or rng.choice(['hand', 'hand', 'extract'])
        if mode == 'hand':
            plan = M.add_hand_meta(rng, c['files'], dims, rng.randrange(4, 8))
        else:
            plan = M.add_extract_tags(rng, c['files'], dims, rng.randrange(3, 6), set(c['files'][0]['tags']))
        c['meta_mode'] = mode
        c['plan'] = plan
        c['via'] = over.get('via') or rng.choice(['wrapper', 'wrapper', 'nifti', 'nifti', 'plain'])
        c['filter'] = over.get('filter') or M.gen_filter(rng)
        nd = 3 + (dims[1] > 1 or dims[2] > 1) + (dims[2] > 1)
        c['kind'] = over.get('kind') or '%s/%s/%dd/%s' % (mode, C.ORIENT_CLASS[kw['orient']], nd, c['via'])
        return c
    raise ValueError('no exact case found')


def gen_cases(rng, tier):
    n = 420 if tier == 'quick' else 3000
    out = []
    # systematic block: sagittal / coronal / axial x both directions x orders whose permutation is an involution
    # ('LAS'), a 3-cycle ('ASL', 'SAL', 'ILP', 'PSR') or the identity, 4-D and 5-D, slices > 1
    for orient in ('sag', 'cor', 'ax'):
        for direction in (1, -1):
            for vo in ('LAS', 'ASL', 'ILP', ''):
                out.append(gen_case(rng, tier, orient=orient, direction=direction, vo=vo, S=rng.choice([2, 3]),
                                    T=rng.choice([1, 2]), V=rng.choice([1, 2]), via=rng.choice(['wrapper', 'nifti']),
                                    kind='sys/%s/%s' % (orient, vo or 'none')))
    # shapes (x,y,z,1,n), single-slice volumes, 3-D
    for (S, T, V) in [(2, 1, 2), (1, 2, 1), (1, 2, 2), (3, 1, 1), (1, 1, 1), (1, 1, 2)]:
        out.append(gen_case(rng, tier, S=S, T=T, V=V, via='wrapper', kind='grid-%dx%dx%d' % (S, T, V)))
    while len(out) < n:
        out.append(gen_case(rng, tier))
    return out


# ------------------------------------------------------------------------------------------------ runner

def hand_meta(extracted, spec):
    meta = M.hand_meta(extracted, spec)
    if 'BitsStored' in extracted:
        meta['BitsStored'] = extracted['BitsStored']      # read by get_data through get_meta('BitsStored', default=16)
    return meta


def f32_exact(mats):
    import struct
    for m in mats:
        for row in m:
            for x in row:
                if struct.unpack('f', struct.pack('f', float(x)))[0] != float(x):
                    return False
    return True


def run_impl(case):
    import warnings
    warnings.simplefilter('ignore')
    import numpy as np
    import dcmstack
    from dcmstack import dcmmeta
    from dcmstack.extract import default_extractor
    files = case['files']
    hand = case['meta_mode'] == 'hand'
    vo, via = case['vo'], case['via']
    embed = via != 'plain'

    def build(order):
        st = dcmstack.DicomStack(time_order=L.make_ordering(dcmstack, case.get('time_order')),
                                 vector_order=L.make_ordering(dcmstack, case.get('vector_order')),
                                 meta_filter=M.make_filter(dcmstack, case['filter']))
        dss, wid, truth, affs = {}, {}, {}, {}
        for i in order:
            ds = C.build_ds(files[i])
            dss[i] = ds
            extracted = default_extractor(ds)
            if hand:
                meta = hand_meta(extracted, files[i])
                truth[i] = copy.deepcopy(meta)
                st.add_dcm(ds, meta)
            else:
                truth[i] = extracted
                st.add_dcm(ds)
            w = st._files_info[-1][0]
            wid[id(w)] = files[i]['id']
            affs[i] = [[float(x) for x in row] for row in w.meta_ext.affine]
        return st, dss, wid, truth, affs

    def convert(st):
        if via == 'wrapper':
            w = st.to_nifti_wrapper(vo)
            return w.nii_img, w
        if via == 'nifti':
            img = st.to_nifti(vo, embed_meta=True)
            return img, dcmmeta.NiftiWrapper(img)
        return st.to_nifti(vo, embed_meta=False), None

    order = case['add_order']
    st, dss, wid, truth, affs = build(order)
    absf = {i: C.abstract_gfile(dcmstack, files[i], dss[i], case) for i in order}
    obs = {'files': [absf[i] for i in order], 'affs': [affs[i] for i in order],
           'truth': [[files[i]['id'], M.plain(truth[i])] for i in order],
           'wants_flip': L.wants_flip(dcmstack, dss[order[0]], vo)}
    filt = st._meta_filter
    allkeys = sorted(set(k for d in truth.values() for k in d))
    obs['filt'] = [[k, bool(filt(k, None))] for k in allkeys]
    err = None
    img = w = None
    with C.capture_slice_times() as cap:
        try:
            img, w = convert(st)
        except Exception as e:
            nm = type(e).__name__
            err = C.ERRMAP.get(nm) or X.ERRMAP.get(nm) or ('ECrash:' + nm)
            obs['exc'] = '%s: %s' % (nm, str(e)[:200])
    obs['ids'] = [wid[id(fi[0])] for fi in st._files_info]
    obs['dirty'] = bool(st._shape_dirty)
    obs['ncalls'] = len(cap.calls)
    obs['stimes_arg'] = cap.calls[-1] if cap.calls else None
    if err is not None:
        obs['err'] = err
        return obs
    try:
        obs.update(C.observe_image(img, int(case.get('den', 1))))
    except Exception as e:
        obs['err'] = 'ECrash:unobservable-image(%s)' % type(e).__name__
        return obs
    obs['n_ext'] = len(img.header.extensions)
    mats = list(affs.values()) + [obs['affine']]
    if embed:
        try:
            E = X.ext_to_json(w.meta_ext)
        except ValueError as e:
            obs['err'] = 'ECrash:abstraction(%s)' % str(e)[:120]
            return obs
        obs['ext'] = E
        mats.append(E['aff'])
        loc = C.locate_files(case, obs['shape'], obs['data'])
        look = []
        for fid in obs['ids']:
            ix = loc.get(fid)
            if ix is None:
                look.append([fid, None, []])
                continue
            vals = []
            for k in allkeys:
                try:
                    vals.append([k, {'val': M.plain(w.get_meta(k, tuple(ix)))}])
                except Exception as e:                      # noqa: BLE001
                    vals.append([k, {'err': X.ERRMAP.get(type(e).__name__, 'ECrash')}])
            look.append([fid, ix, vals])
        obs['look'] = look
        # the extension's own affine must be the image's
        obs['ext_aff_is_img_aff'] = bool(np.array_equal(np.array(E['aff'], dtype=np.float64),
                                                        np.asarray(img.affine, dtype=np.float64)))
    obs['f32'] = f32_exact(mats) and all(
        np.array_equal(np.array(affs[i], dtype=np.float64),
                       np.array([[Fraction(x[0], x[1]) for x in row] for row in absf[i]['faff']], dtype=np.float64))
        for i in order)
    # ---- C12 in the property's words: the same stack converted again; another add order with queries and a
    # conversion in between: byte-identical NIfTI
    hist = {}
    ref = L.nifti_parts(img)
    try:
        img_again, _ = convert(st)
        pa = L.nifti_parts(img_again)
        hist['again'] = [k for k in sorted(ref) if ref[k] != pa[k]]
    except Exception as e:
        hist['again'] = ['raised %s' % type(e).__name__]
    try:
        st2 = build(list(reversed(order)))[0]
        st2.get_shape()
        st2.to_nifti(vo or 'LAS', embed_meta=embed)
        st2.get_affine()
        st2.get_data()
        img2, _ = convert(st2)
        p2 = L.nifti_parts(img2)
        hist['other'] = [k for k in sorted(ref) if ref[k] != p2[k]]
    except Exception as e:
        hist['other'] = ['raised %s' % type(e).__name__]
    obs['hist'] = hist
    return obs


# ------------------------------------------------------------------------------------------------ Coq literal

def cmat_f(m):
    return clist(clist(cq(Fraction(float(x))) for x in row) for row in m)


def coq_case(case, obs):
    if not isinstance(obs, dict) or 'crash' in obs or 'files' not in obs:
        raise ValueError('implementation runner crashed: %r' % (obs,))
    gs = obs['files']
    files = clist(C.coq_gfile(a) for a in gs)
    metas = clist(clist(cpair(cstr(k), cjv(v)) for k, v in tr[1].items()) for tr in obs['truth'])
    maffs = clist(cmat_f(a) for a in obs['affs'])
    faffs = clist(C.cmat(a['faff']) for a in gs)
    exact = bool(case['exact']) and bool(obs.get('f32', True))
    wf = obs['wants_flip']
    vo = 'None' if wf is None else '(Some %s)' % cbool(wf)
    geom = C.coq_obs(case, obs)
    if 'ext' in obs and obs.get('err') is None:
        ext = '(Some %s)' % X.ext_to_coq(obs['ext'])
        look = clist(cpair(cnat(fid), cpair(clist(cz(i) for i in ix),
                                             clist(cpair(cstr(k), X.resjv_to_coq(v)) for k, v in vals)))
                     for fid, ix, vals in obs['look'] if ix is not None)
    else:
        ext, look = 'None', '[]'
    return '(mkfcase %s %s %s %s %s %s %s %s %s %s %s %s (mkfobs %s %s %s))' % (
        cbool(case.get('time_order') is not None), cbool(case.get('vector_order') is not None),
        files, metas, maffs, faffs, cstr(case['vo']), cbool(case['via'] != 'plain'), cbool(exact),
        cbool(case['filter']['mode'] == 'default'), clist(cpair(cstr(k), cbool(b)) for k, b in obs['filt']),
        vo, geom, ext, look)


# ------------------------------------------------------------------------------------------------ oracles

def cell_of(case, fid):
    for f in case['files']:
        if f['id'] == fid:
            return f['cell']
    return None


def oracle(case, obs):
    if not isinstance(obs, dict) or 'crash' in obs or 'files' not in obs:
        return None
    if obs.get('err') is not None:
        return 'refused: complete stack (%s) was not converted: %s' % (case['dims'], obs.get('exc', obs['err']))
    # ---- C12
    hist = obs.get('hist', {})
    if hist.get('again'):
        return ('history: converting the same stack a second time changes the NIfTI (%s differ)' % ', '.join(hist['again']))
    if hist.get('other'):
        return ('history: the files added in reverse order, with queries and a conversion in between, give another '
                'NIfTI (%s differ)' % ', '.join(hist['other']))
    if case['via'] == 'plain':
        if obs.get('n_ext'):
            return 'embed: embed_meta=False but the header carries %d extension(s)' % obs['n_ext']
        return None
    E = obs['ext']
    truth = {fid: d for fid, d in obs['truth']}
    filt = dict((k, b) for k, b in obs['filt'])
    if not obs.get('ext_aff_is_img_aff', True):
        return 'affine: the affine recorded in the extension is not the affine of the image'
    if E['shape'] != obs['shape']:
        return 'shape: extension shape %s, image shape %s' % (E['shape'], obs['shape'])
    if E['sdim'] != obs['dim_info'][2]:
        return 'slice-dim: extension slice_dim %s, header slice axis %s' % (E['sdim'], obs['dim_info'][2])
    # ---- C01: the lookup at the voxel index of every source file
    if sorted(f for f, _, _ in obs['look']) != sorted(truth):
        return 'located: not every source file is in the final file list'
    for fid, ix, vals in obs['look']:
        if ix is None:
            return 'located: pixel (0,0) of file %d does not occur exactly once in the output array' % fid
        for k, v in vals:
            if filt.get(k):
                continue
            want = truth[fid].get(k)
            if 'err' in v:
                return 'lookup raised: key %r at the voxel index %s of file %d raised %s' % (k, ix, fid, v['err'])
            if v['val'] != want or type(v['val']) is not type(want):
                what = 'lost' if v['val'] is None else 'altered'
                return 'value %s: key %r at voxel index %s (file %d, cell %s): file carried %r, lookup returned %r' % (
                    what, k, ix, fid, cell_of(case, fid), want, v['val'])
    # ---- C06: dense canonical class of what the files carried at the positions where their pixels ended up
    d = X.dims(E)
    sd = E['sdim']
    at = {}
    for fid, ix, vals in obs['look']:
        p = (ix[sd] if sd is not None else 0, ix[3] if len(ix) > 3 else 0, ix[4] if len(ix) > 4 else 0)
        if p in at:
            return 'located: two source files at grid position %s' % (p,)
        at[p] = fid
    if sorted(at) != sorted(X.grid(d)):
        return 'located: the source files do not tile the %s grid of the extension' % (d,)
    seen = set()
    for k, c, vs in E['entries']:
        if k in seen:
            return 'classification: key %r appears in two classifications' % k
        seen.add(k)
        f = (lambda key: (lambda p: truth[at[p]].get(key)))(k)
        want = X.canon_class(E['shape'], d, f)
        if want != c:
            return 'classification: key %r is stored as %s, the simplest classification of its values is %s' % (k, c, want)
        if len(vs) != X.mult(d, c):
            return 'classification: key %r in %s has %d values, expected %d' % (k, c, len(vs), X.mult(d, c))
    for k in sorted(set(k for dct in truth.values() for k in dct)):
        if not filt.get(k) and k not in seen and any(dct.get(k) is not None for dct in truth.values()):
            return 'missing: key %r is not filtered and has a value in some file but is missing from the extension' % k
    return None


def signature(case, obs, msg):
    return 'convfull-' + re.sub(r'[^a-z]+', '-', (msg or '').split(':')[0].lower())[:40]


def nontrivial(case, obs):
    if not isinstance(obs, dict) or obs.get('err') is not None or 'shape' not in obs:
        return False
    return case['via'] != 'plain' and (len(obs['shape']) > 3 or obs['dim_info'][2] != 2 or obs['ids'] != sorted(obs['ids']))


def shrink(case):
    if case['vo']:
        c = copy.deepcopy(case); c['vo'] = ''; yield c
    if case['filter']['mode'] != 'none':
        c = copy.deepcopy(case); c['filter'] = {'mode': 'none'}; yield c
    for tag in ('RepetitionTime', 'InPlanePhaseEncodingDirection', 'AcquisitionTime'):
        if any(tag in f['tags'] for f in case['files']):
            c = copy.deepcopy(case)
            for f in c['files']:
                f['tags'].pop(tag, None)
            yield c
    keys = sorted(set(k for f in case['files'] for k in f.get('extra', {})))
    for k in keys:
        c = copy.deepcopy(case)
        for f in c['files']:
            f['extra'].pop(k, None)
        yield c
    if case['add_order'] != sorted(case['add_order']):
        c = copy.deepcopy(case); c['add_order'] = sorted(case['add_order']); yield c


class FullPart:
    NAME = "full"
    CORR_REQUIRE = ("From Coq Require Import Qcanon.\nFrom DV Require Import Common.Jv Stack.Model Orient.Model Ext.Types Ext.Model "
                    "Conv.Geom Conv.Header Conv.Meta Conv.CorrGeom Conv.Full Conv.FullCorr.")
    CORR_CASE_TYPE = "FullCorr.fcase"
    CORR_CHECK = "FullCorr.check"
    CORR_SHOW = "FullCorr.show"
    SHARD = 10
    IMPL_TIMEOUT = 120
    RULE = ("complete S x T x V grids (quick S <= 4, T, V <= 3) over axial / sagittal / coronal / in-plane rotated / oblique "
            "orientations with dyadic cosines x both slice directions x pixel matrices with rows != cols and unique values x "
            "voxel orders (identity, involutions, 3-cycles; thorough: all 48 + none) x acquisition-time / TR / phase variants x "
            "metadata through add_dcm(ds, meta) with a hand-built dict (12 value patterns x 5 value types, None values, missing "
            "keys) or dcmstack's own extraction x 5 filter families x {to_nifti_wrapper(order), to_nifti(order, embed_meta=True), "
            "to_nifti(order, embed_meta=False)} x shuffled add order; per case a second conversion of the same stack and a "
            "reversed-add-order stack with queries and a conversion in between (byte comparison); non-trivial = embedding with a "
            "4-D/5-D result, a moved slice axis or a re-sorted file list")
    gen_cases = staticmethod(gen_cases)
    run_impl = staticmethod(run_impl)
    coq_case = staticmethod(coq_case)
    oracle = staticmethod(oracle)
    signature = staticmethod(signature)
    nontrivial = staticmethod(nontrivial)
    shrink = staticmethod(shrink)


RULE = FullPart.RULE
PARTS = [FullPart]
