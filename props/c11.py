"""C11  A stack converts only if its files tile a complete grid; otherwise it refuses."""
import os, sys, json
from fractions import Fraction
from props import stacklib as L

ID = "C11"
COQ_PROPS = "Props/C11.v"
THEOREMS = ["C11_spacing_tol", "C11_congruent_tol", "C11_iff", "C11_refuse", "C11_queries_refuse_together",
            "C11_empty_refused", "C11_uneven_positions_refused", "C11_count_not_factoring_refused",
            "C11_uneven_spacing_refused", "C11_uneven_vectors_refused", "C11_volumes_not_factoring_refused",
            "C11_regular_grid_accepted", "C11_add", "C11_add_transactional"]
ALLOWED_AXIOMS = []
RULE = ("synthetic in-memory DICOM series: S<=4 x T<=3 x V<=3 grids (thorough: S<=6, T<=4) in 7 orientations "
        "(axial, in-plane rotation, sagittal, coronal, two 3-4-5 obliques, one 2-3-6 double oblique) x both slice "
        "directions; explicit time / vector / both orderings (plain key, DicomOrdering with abs_ordering, staggered time "
        "values that straddle volume boundaries) or guessed key with decoy keys; per-file BitsStored / "
        "PixelRepresentation / pixel range / AcquisitionTime presence varied; x 27 defect classes (none, drop 1 / k "
        "files, drop a volume, drop a slice position, duplicate, misfiled duplicate, tie straddling a volume "
        "boundary, irregular gap 0.8..25 %, Rows / Columns +1, PixelSpacing and orientation perturbed below / above "
        "5e-5, no pixel data, colliding file, missing ordering key, extra slice position, vector value moved for a "
        "whole volume, vector values on unequal numbers of whole volumes (n_vols mod n_vec != 0 with S mod n_vec = 0 and != 0), files moved between vector components so that one volume-sized chunk straddles two vector "
        "values, positions swapped between volumes, ordinate not in abs_ordering) x random add order x random order "
        "of the four queries; a case is non-trivial when at least one add is refused, or a query raises, or the "
        "stack has more than one volume")
TRUSTED_BASE = [
    "nibabel DicomWrapper (slice_indicator, affine) and dcmstack.extract.default_extractor are contracts: the per-file "
    "abstraction given to the model (slice position, ordinates, guess-key values, Rows/Columns/PixelSpacing/"
    "ImageOrientationPatient) is read from them by props/stacklib.abstract_file, not recomputed",
    "numpy defaults rtol=1e-5, atol=1e-8 of np.allclose are constants of the model (Stack.Model.np_rtol, np_atol)",
    "Python list.sort is a stable sort and raises TypeError when None meets a number (Stack.Model.ssort, all_comparable)",
]
ASSUMPTIONS = [
    "classic single-frame data sets only (no mosaic / enhanced multi-frame wrappers)",
    "ordinates and guess-key values are numbers or fixed-width TM strings (string order = numeric order); NaN excluded",
    "float arithmetic of the spacing / congruence tests is modelled in exact rationals: generated perturbations stay "
    "away from the tolerance boundaries (spacing irregularities 0.8 %..25 % vs thresholds 6.4 % / 8 %, congruence "
    "perturbations 2^-17, 2^-16 below and 2^-12, 2^-11 above 5e-5)",
    "C11_iff and the refusal theorems are stated for stacks reachable from an empty stack by add_dcm / queries and "
    "exclude the TypeError case (an explicit ordering key missing from some but not all files); that case is "
    "exercised by the correspondence run only (kind missing_key, without vector order)",
    "time ordinates are not required to be uniform inside a volume: the time coordinate of a file is its volume's "
    "rank in the sorted order (DESIGN C11 definition note)",
]


QUERIES = [['shape'], ['data'], ['affine'], ['nifti', 'LAS', False]]


def gen_cases(rng, tier):
    n = 640 if tier == 'quick' else 4000
    cases = []
    for k in range(n):
        cfg = L.rand_config(rng, tier)
        defect = rng.choice(L.DEFECTS)
        if defect in ('collide',) and cfg['mode'] in ('guess', 'none') and rng.random() < 0.7:
            cfg = L.rand_config(rng, tier, want=rng.choice(['time', 'timevec']))
        if defect == 'vec_uneven' and cfg['vector_order'] is None:
            cfg = L.rand_config(rng, tier, want=rng.choice(['vec', 'timevec']))
        if defect == 'missing_key' and not (cfg['time_order'] and not cfg['vector_order']):
            cfg = L.rand_config(rng, tier, want='time')
        if defect in ('vec_straddle', 'vec_move'):
            cfg = L.rand_config(rng, tier, want='timevec')
            cfg['S'] = max(cfg['S'], 2)
            cfg['V'] = max(cfg['V'], 2)
            if rng.random() < 0.6:
                cfg['T'] = max(cfg['T'], 2)
            if cfg['time_order'].get('abs') is not None:
                cfg['time_order'] = {'key': cfg['time_order']['key'], 'abs': None}
        if defect == 'vol_count':
            cfg = L.vol_count_config(rng, tier)
        if defect == 'pos_swap':
            cfg = L.rand_config(rng, tier, want=rng.choice(['time', 'timevec']))
            cfg['S'] = max(cfg['S'], rng.choice([2, 3]))
            cfg['T'] = max(cfg['T'], 2)
            key = cfg['time_order']['key']
            cfg['time_order'] = {'key': key, 'abs': None}
            cfg['tagrules'][key] = rng.choice(['t', 'trev'])
        if defect == 'bad_ordinate':
            cfg = L.rand_config(rng, tier, want=rng.choice(['time', 'timevec']), force_abs=True)
        if defect == 'tie_straddle' and (cfg['mode'] != 'guess' or cfg['S'] < 2 or cfg['T'] < 2):
            cfg = L.rand_config(rng, tier, want='guess')
            cfg['S'] = max(cfg['S'], 2)
            cfg['T'] = max(cfg['T'], 2)
        if defect == 'gap' and cfg['S'] < 3:
            cfg['S'] = rng.choice([3, 4])
        files = L.grid_from_config(rng, cfg)
        attrs = L.vary_attrs(rng, cfg, files)
        files, note = L.apply_defect(rng, cfg, files, defect)
        order = L.add_order(rng, files)
        qs = [list(q) for q in QUERIES]
        rng.shuffle(qs)
        if rng.random() < 0.3:
            qs[-1:] = [['nifti', rng.choice(['', 'RAS', 'LPI']), rng.random() < 0.5]] if qs[-1][0] == 'nifti' else qs[-1:]
        note['attrs'] = attrs
        case = {'kind': '%s/%s' % (cfg['mode'], defect), 'note': note,
                'dims': [cfg['S'], cfg['T'], cfg['V']], 'orient': cfg['orient'], 'direction': cfg['direction']}
        case.update(L.case_header(cfg))
        case['files'] = files
        case['ops'] = [['add', i] for i in order] + qs
        cases.append(case)
    return cases


def run_impl(case):
    import dcmstack
    r, obs = L.run_history(dcmstack, case)
    return obs


def coq_case(case, obs):
    # C11 does not talk about the array's data type: that observation belongs to C12 / C02
    if isinstance(obs, dict) and 'ops' in obs:
        obs = dict(obs, ops=[dict(o, dtype=None) for o in obs['ops']])
    return L.coq_case(case, obs)


CORR_REQUIRE = "From Coq Require Import Qcanon.\nFrom DV Require Import Stack.Model Stack.Corr."
CORR_CASE_TYPE = "Corr.case"
CORR_CHECK = "Corr.check"
CORR_SHOW = "Corr.show"
SHARD = 40
IMPL_TIMEOUT = 60
NAME = "main"


def _accepted(case, obs):
    adds = [(op, o) for op, o in zip(case['ops'], obs['ops']) if op[0] == 'add']
    return adds, [obs['files'][op[1]] for op, o in adds if o['r'] == 'ok']


def oracle(case, obs):
    """C11 on the implementation alone: (1) every add is refused / accepted as the property says and a
    refused add leaves the file list unchanged; (2) the four queries all raise InvalidStackError when the
    accepted files do not tile a complete grid (Python transcription of the spec, spacing tolerance 4 %),
    and all succeed with the grid's shape when they do."""
    if not isinstance(obs, dict) or 'ops' not in obs:
        return None
    ct, cv = case.get('time_order') is not None, case.get('vector_order') is not None
    adds, acc = _accepted(case, obs)
    exp = L.expected_add(obs['files'], [op[1] for op, o in adds], ct, cv)
    prev_ids = []
    for (op, o), e in zip(adds, exp):
        if o['r'] != e:
            return 'add of file %d: expected %s, implementation %s' % (op[1], e, o['r'])
        if e != 'ok' and (o['ids'] != prev_ids or not o['dirty']):
            return 'refused add of file %d changed the stack' % op[1]
        prev_ids = o['ids']
    g = L.grid_complete(acc, ct, cv, obs['guesses'])
    if g == 'mixed':
        return None
    qs = [(op, o) for op, o in zip(case['ops'], obs['ops']) if op[0] != 'add']
    for op, o in qs:
        if g is None:
            if o['r'] == 'ok':
                return 'files do not tile a complete grid but %s succeeded (shape %s, %d files accepted)' % (
                    op[0], o.get('shape'), len(acc))
            if o['r'] != 'EInvalidStack':
                return 'incomplete grid: %s raised %s instead of InvalidStackError' % (op[0], o['r'])
        else:
            if o['r'] != 'ok':
                return 'complete %dx%dx%d grid rejected by %s with %s' % (g[0], g[1], g[2], op[0], o['r'])
            if o['shape'] is not None:
                nout = 1
                for x in o['shape'][2:]:
                    nout *= x
                if nout != len(acc):
                    return 'output holds %d files, %d were accepted' % (nout, len(acc))
                S, T, V = g
                want = [acc[0]['rows'], acc[0]['cols'], S, T, V]
                if V == 1:
                    want = want[:-1]
                    if T == 1:
                        want = want[:-1]
                if o['shape'] != want:
                    return 'shape %s, grid dimensions %s' % (o['shape'], want)
    return None


def signature(case, obs, msg):
    return 'c11/' + msg.split(':')[0].split(' (')[0][:40].replace(' ', '-')


def nontrivial(case, obs):
    if not isinstance(obs, dict) or 'ops' not in obs:
        return False
    return any(o['r'] != 'ok' for o in obs['ops']) or (case.get('dims', [1, 1, 1])[1] * case.get('dims', [1, 1, 1])[2] > 1)


def shrink(case):
    return L.shrink_files(case)
