"""C11  A stack converts only if its files tile a complete grid; otherwise it refuses."""
import os, sys, json
from fractions import Fraction
from props import stacklib as L

ID = "C11"
COQ_PROPS = "Props/C11.v"
THEOREMS = ["C11_spacing_tol", "C11_congruent_tol", "C11_iff", "C11_refuse", "C11_queries_refuse_together",
            "C11_empty_refused", "C11_uneven_positions_refused", "C11_count_not_factoring_refused",
            "C11_uneven_spacing_refused", "C11_uneven_vectors_refused", "C11_volumes_not_factoring_refused",
            "C11_regular_grid_accepted", "C11_add", "C11_add_transactional"]
ALLOWED_AXIOMS = []
RULE = ("synthetic in-memory DICOM series: S<=4 x T<=3 x V<=3 grids (thorough: S<=6, T<=4) in 7 orientations "
        "(axial, in-plane rotation, sagittal, coronal, two 3-4-5 obliques, one 2-3-6 double oblique) x both slice "
        "directions; explicit time / vector / both orderings (plain key, DicomOrdering with abs_ordering or abs_as_str, "
        "staggered time values that straddle volume boundaries) or guessed key with decoy keys; default extractor or a "
        "hand-built meta argument; per-file BitsStored / PixelRepresentation / pixel range / AcquisitionTime presence "
        "varied; x 29 defect classes (none, drop 1 / k files, drop a volume, drop a slice position, duplicate, misfiled "
        "duplicate, tie straddling a volume boundary, irregular gap 0.8..25 %, Rows / Columns +1, PixelSpacing and "
        "orientation perturbed below / above 5e-5, no pixel data, PixelSpacing / orientation creeping along a chain of files by 0.29..0.8 x tolerance per step (added in chain order, reversed, or at random), colliding file (also on the cell with ordinate 0 / index 0 / no ordinate, and one for every time and vector value), missing ordering key, extra slice "
        "position, vector value moved for a whole volume, vector values on unequal numbers of whole volumes, files "
        "moved between vector components, positions swapped between volumes, ordinate not in abs_ordering), 15 % with "
        "a second defect on top, x random add order, 30 % with queries interleaved between the adds, x the queries "
        "shape / data / affine / to_nifti (several voxel orders, None, embed) / to_nifti_wrapper in random order.  "
        "Every add and every query is judged against the generator's ground truth (never a library call); the "
        "order of the files in returned voxels is read off the pixel values.  Non-trivial: at least two files "
        "accepted and at least one query answered")
TRUSTED_BASE = [
    "nibabel DicomWrapper (slice_indicator, affine, get_data) and pydicom are contracts; the per-file abstraction "
    "given to the Coq model is read from them and from the meta dictionary add_dcm works with "
    "(props/stacklib.abstract_file) as model INPUT only: the oracle clause `abstraction == generator spec` "
    "(stacklib.spec_truth / abstraction_diff) checks it, and every expected refusal, cell, shape and file order of "
    "the oracle is computed from the generator's spec",
    "numpy defaults rtol=1e-5, atol=1e-8 of np.allclose are constants of the model (Stack.Model.np_rtol, np_atol)",
    "Python list.sort is a stable sort and raises TypeError when None meets a number (Stack.Model.ssort, all_comparable)",
]
ASSUMPTIONS = [
    "classic single-frame data sets only (no mosaic / enhanced multi-frame wrappers)",
    "ordinates and guess-key values are numbers, or strings (every TM form: the extractor hands the raw string to the sorter) embedded order- and equality-preservingly for Python's string comparison; a key mixing strings and numbers, and NaN, are excluded",
    "float arithmetic of the spacing / congruence tests is modelled in exact rationals: generated perturbations stay "
    "away from the tolerance boundaries (spacing irregularities 0.8 %..25 % vs thresholds 6.4 % / 8 %, congruence "
    "perturbations 2^-17, 2^-16 below and 2^-12, 2^-11 above 5e-5)",
    "exception classes: InvalidStackError (named by the property) and the three classes documented by add_dcm are "
    "compared exactly; an ordinate that cannot be evaluated (value not in abs_ordering) and a file without a cell "
    "(explicit key missing on some files only: TypeError inside list.sort) count as refusals by ANY exception",
    "C11_iff and the refusal theorems are stated for stacks reachable from an empty stack by add_dcm / queries and "
    "exclude the TypeError case",
    "only public results are observed; a refused add leaving the stack unchanged is observed through the later "
    "queries (they are judged on the files accepted so far)",
    "files sharing an ImagePositionPatient share their orientation exactly whenever a query is made (a below-"
    "tolerance orientation difference at one position gives two 'slices' 1e-5 apart with a zero slice column; "
    "observation reported, not a finding): the orient_lo defect is only queried after all files were added",
    "time ordinates are not required to be uniform inside a volume: the time coordinate of a file is its volume's "
    "rank in the sorted order (DESIGN C11 definition note)",
]


QUERIES = [['shape'], ['data'], ['affine'], ['nifti', 'LAS', False]]


def gen_cases(rng, tier):
    n = 640 if tier == 'quick' else 4000
    cases = []
    for k in range(n):
        cfg = L.rand_config(rng, tier)
        defect = rng.choice(L.DEFECTS)
        if defect in ('collide', 'collide_each') and cfg['mode'] in ('guess', 'none') and rng.random() < 0.8:
            cfg = L.rand_config(rng, tier, want=rng.choice(['time', 'timevec']))
        if defect == 'vec_uneven' and cfg['vector_order'] is None:
            cfg = L.rand_config(rng, tier, want=rng.choice(['vec', 'timevec']))
        if defect == 'missing_key' and not (cfg['time_order'] and not cfg['vector_order']):
            cfg = L.rand_config(rng, tier, want='time')
        if defect in ('vec_straddle', 'vec_move'):
            cfg = L.rand_config(rng, tier, want='timevec')
            cfg['S'] = max(cfg['S'], 2)
            cfg['V'] = max(cfg['V'], 2)
            if rng.random() < 0.6:
                cfg['T'] = max(cfg['T'], 2)
            if cfg['time_order'].get('abs') is not None:
                cfg['time_order'] = {'key': cfg['time_order']['key'], 'abs': None}
        if defect == 'creep':
            cfg = L.rand_config(rng, tier, want=rng.choice(['none', 'none', 'time']))
            cfg['S'] = rng.randint(3, 10 if tier == 'quick' else 30)
            cfg['T'] = 1 if cfg['mode'] == 'none' else rng.choice([1, 2])
            cfg['V'] = 1
            if rng.random() < 0.5:
                cfg['orient'] = 'ax'
            if cfg['time_order'] is not None:
                cfg['time_order'] = {'key': cfg['time_order']['key'], 'abs': None}
                if callable(cfg['tagrules'].get(cfg['time_order']['key'])):
                    cfg['tagrules'][cfg['time_order']['key']] = 't'
        if defect == 'vol_count':
            cfg = L.vol_count_config(rng, tier)
        if defect == 'pos_swap':
            cfg = L.rand_config(rng, tier, want=rng.choice(['time', 'timevec']))
            cfg['S'] = max(cfg['S'], rng.choice([2, 3]))
            cfg['T'] = max(cfg['T'], 2)
            key = cfg['time_order']['key']
            cfg['time_order'] = {'key': key, 'abs': None}
            cfg['tagrules'][key] = rng.choice(['t', 'trev'])
        if defect == 'bad_ordinate':
            cfg = L.rand_config(rng, tier, want=rng.choice(['time', 'timevec']), force_abs=True)
        if defect == 'tie_straddle' and (cfg['mode'] != 'guess' or cfg['S'] < 2 or cfg['T'] < 2):
            cfg = L.rand_config(rng, tier, want='guess')
            cfg['S'] = max(cfg['S'], 2)
            cfg['T'] = max(cfg['T'], 2)
        if defect == 'gap' and cfg['S'] < 3:
            cfg['S'] = rng.choice([3, 4])
        files = L.grid_from_config(rng, cfg)
        attrs = L.vary_attrs(rng, cfg, files)
        files, note = L.apply_defect(rng, cfg, files, defect)
        if rng.random() < 0.15:
            # a second, independent defect on top
            d2 = rng.choice(SECOND_DEFECTS)
            try:
                files, note2 = L.apply_defect(rng, cfg, files, d2)
                note['second'] = note2
            except (IndexError, ValueError, KeyError):
                pass
        order = L.add_order(rng, files, note.get('order'))
        qs = [list(q) for q in QUERIES]
        if rng.random() < 0.4:
            qs.append(['wrapper', rng.choice(['', 'LAS', 'RPI'])])
        rng.shuffle(qs)
        for q in qs:
            if q[0] == 'nifti' and rng.random() < 0.3:
                q[1:] = [rng.choice(['', 'RAS', 'LPI', None]), rng.random() < 0.5]
        ops = []
        early = rng.random() < 0.3            # histories: queries while files are still being added
        if defect == 'orient_lo':
            # two files with IDENTICAL ImagePositionPatient whose orientations differ within tolerance get slice
            # indicators 1e-5 apart and would pass, in a partial history, as two slices with a zero slice column
            # (reorder_voxels then raises ValueError): outside the modelled geometry, see ASSUMPTIONS
            early = False
        for i in order:
            ops.append(['add', i])
            if early and rng.random() < 0.2:
                ops.append(list(rng.choice(QUERIES + [['wrapper', '']])))
        ops += qs
        note['attrs'] = attrs
        case = {'kind': '%s/%s' % (cfg['mode'], defect), 'note': note,
                'dims': [cfg['S'], cfg['T'], cfg['V']], 'orient': cfg['orient'], 'direction': cfg['direction']}
        if rng.random() < 0.15:
            case['meta_arg'] = True           # add_dcm(dcm, meta) with a hand-built meta dictionary
        case.update(L.case_header(cfg))
        case['files'] = files
        case['ops'] = ops
        if not L.case_valid(case):
            # the file with the out-of-tolerance orientation would become the reference: put a regular file first
            good = [i for i in order if not files[i].get('notfirst') and files[i].get('pix', True)]
            if not good:
                continue
            case['ops'] = [['add', good[0]]] + [op for op in ops if op != ['add', good[0]]]
            if not L.case_valid(case):
                continue
        cases.append(case)
    return cases


SECOND_DEFECTS = ['drop1', 'duplicate', 'nopix', 'rows', 'cols', 'spacing_hi', 'spacing_lo', 'extra_position',
                  'collide', 'orient_hi', 'gap']


def run_impl(case):
    import dcmstack
    r, obs = L.run_history(dcmstack, case)
    return obs


def coq_case(case, obs):
    # C11 does not talk about the array's data type or the header fields: those observations belong to C12 / C02
    if isinstance(obs, dict) and 'ops' in obs:
        obs = dict(obs, ops=[dict(o, dtype=None, pixdim4=None, phase=None, aff=None) for o in obs['ops']])
    return L.coq_case(case, obs)


CORR_REQUIRE = "From Coq Require Import Qcanon.\nFrom DV Require Import Stack.Model Stack.Corr."
CORR_CASE_TYPE = "Corr.case"
CORR_CHECK = "Corr.check"
CORR_SHOW = "Corr.show"
SHARD = 40
IMPL_TIMEOUT = 60
NAME = "main"


def grid_shape(ref, g):
    S, T, V = g[0], g[1], g[2]
    want = [ref['rows'], ref['cols'], S, T, V]
    if V == 1:
        want = want[:-1]
        if T == 1:
            want = want[:-1]
    return want


def judge(case, obs):
    """All clauses of C11, evaluated on the implementation's PUBLIC results against the generator's ground truth
    (props/stacklib.spec_truth): -> list of (code, message).
      add/...        every add is accepted / refused as the property says (documented exception classes exact;
                     an ordinate that cannot be evaluated: any exception)
      nongrid-...    the accepted files do not tile a complete grid: the query must raise InvalidStackError
      mixed-...      a file without a cell (ordering key missing on some files only): no query may succeed
      grid-rejected  a complete grid is never rejected
      shape, file-count, order   the result has the grid's dimensions, holds every accepted file, and the files
                     appear in the order the property demands (volumes by vector then time ordinate, inside a
                     volume by slice position; a conversion may reverse the slice direction)
      abstraction    the library-derived per-file abstraction given to the Coq model equals the ground truth"""
    out = []
    ct, cv = case.get('time_order') is not None, case.get('vector_order') is not None
    truth = [L.spec_truth(f, case) for f in case['files']]
    acc, ref, cells = [], None, set()
    for op, o in zip(case['ops'], obs['ops']):
        if op[0] == 'add':
            f = truth[op[1]]
            e = L.expected_add_one(f, ref, cells, ct, cv)
            r = o['r']
            good = (r == 'ok') if e == 'ok' else (r != 'ok') if e == 'refused' else (r == e)
            if not good:
                out.append(('add/expected-%s' % e, 'add of file %d: expected %s, implementation %s' % (op[1], e, r)))
            if r == 'ok':
                acc.append(f)
                cells.add(L.cell_of(f, ct, cv))
                if ref is None:
                    ref = f
            continue
        if op[0] == 'clear':
            acc, ref, cells = [], None, set()
            continue
        if op[0] == 'mutate':
            continue
        q = op[0]
        g = L.grid_complete(acc, ct, cv, L.GUESS_TAGS, with_order=True)
        r = o['r']
        if g == 'mixed':
            if r == 'ok':
                out.append(('mixed-converted/' + q, 'a file has no time / vector ordinate but %s succeeded' % q))
        elif g is None:
            if r == 'ok':
                out.append(('nongrid-converted/' + q, 'files do not tile a complete grid but %s succeeded (shape %s, '
                            '%d files accepted)' % (q, o.get('shape'), len(acc))))
            elif r != 'EInvalidStack':
                out.append(('nongrid-wrong-exception/' + q, 'incomplete grid: %s raised %s instead of InvalidStackError'
                            % (q, r)))
        else:
            if r != 'ok':
                out.append(('grid-rejected/' + q, 'complete %dx%dx%d grid rejected by %s with %s' % (g[0], g[1], g[2], q, r)))
                continue
            if o.get('shape') is not None:
                nout = 1
                for x in o['shape'][2:]:
                    nout *= x
                if nout != len(acc):
                    out.append(('file-count/' + q, 'output holds %d files, %d were accepted' % (nout, len(acc))))
                if o['shape'] != grid_shape(ref, g):
                    out.append(('shape/' + q, 'shape %s, grid dimensions %s' % (o['shape'], grid_shape(ref, g))))
            if o.get('order') is not None:
                want = g[3]
                S = g[0]
                flipped = []
                for k in range(0, len(want), S):
                    flipped += want[k:k + S][::-1]
                okay = o['order'] == want or (q in ('nifti', 'wrapper') and o['order'] == flipped)
                if not okay:
                    out.append(('order/' + q, 'files appear in the order %s, the grid order is %s' % (o['order'], want)))
    for f, a in zip(truth, obs['files']):
        d = L.abstraction_diff(a, f)
        if d:
            out.append(('abstraction/' + d, 'file %d: the library-derived %s differs from the generator spec' % (f['id'], d)))
            break
    return out


def oracle(case, obs):
    """one message per case: '[code] text' (the code is the signature)"""
    if not isinstance(obs, dict) or 'ops' not in obs:
        return None
    msgs = judge(case, obs)
    if not msgs:
        return None
    return '[%s] %s' % msgs[0]


def signature(case, obs, msg):
    return 'c11/' + (msg[1:msg.index(']')] if msg.startswith('[') and ']' in msg else 'other')


def nontrivial(case, obs):
    """at least two files were accepted and at least one query was answered (result or InvalidStackError)"""
    if not isinstance(obs, dict) or 'ops' not in obs:
        return False
    nacc = len([1 for op, o in zip(case['ops'], obs['ops']) if op[0] == 'add' and o['r'] == 'ok'])
    nq = len([1 for op, o in zip(case['ops'], obs['ops']) if op[0] != 'add' and o['r'] in ('ok', 'EInvalidStack')])
    return nacc >= 2 and nq >= 1


def shrink(case):
    return L.shrink_files(case)
