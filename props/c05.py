"""C05 Split then merge, and merge then split, are identities.

Parts
  extrt           extension level: a canonical extension is split with DcmMetaExtension.get_subset for EVERY index of the
                  slice / time / vector axis and the pieces are merged back with DcmMetaExtension.from_sequence.
                  correspondence: Ext/ProofsRoundtripCorr.v check_ert (model round trip == observed merged extension);
                  oracle (implementation alone): merged == original (DcmMetaExtension.__eq__), per key identical
                  (values, class) through get_values_and_class, same key set, check_valid.  Every piece is SNAPSHOT before the
                  merge (abstraction, to_json, per-key get_values_and_class, check_valid): the live pieces after the merge must
                  equal their snapshots and still pass check_valid, merging the same piece objects a SECOND time must give the
                  same result, and get_subset of the merged extension must return the snapshots.
  chains          image level: chains  split(d1) -> from_sequence -> split(d1) again -> split(d2) -> from_sequence -> ...
                  through NiftiWrapper.split / NiftiWrapper.from_sequence on real in-memory images with unique voxel values.
                  correspondence: check_chain (Wrapper/Model.v composed); oracle: after every merge the voxel data, the
                  affine (exactly), the header slice dim and the extension are the starting image's; splitting the merged
                  image again returns pieces whose voxels, extension and get_meta lookups at every voxel equal those of the
                  pieces AS THEY WERE BEFORE the merge (snapshots); the live pieces after the merge equal their snapshots (image
                  bytes, affines, dim_info, extension, lookups) and merging them a second time gives the same wrapper.
The image-half theorems (Props/C05img.v, agent of coq/Wrapper) are checked here too."""
import copy, itertools

from vlib.coqlit import cnat, cbool, clist, cpair
from props import extlib, imglib

ID = 'C05'
COQ_PROPS = ['Props/C05.v', 'Props/C05img.v', 'Props/C05total.v']
THEOREMS = ['C05w_split_merge', 'C05_split_all_total', 'C05_split_merge_total', 'C05_split_merge_mod_none_total', 'C05_chain_total',
            'C05_canonical_unique', 'C05_canonical_unique_key', 'C05_canonical_unique_strict',
            'C05_split_merge', 'C05_split_merge_mod_none', 'C05_split_all_defined',
            'C05_split_merge_trailing1_refuted', 'C05_split_merge_no_slice_dim_refuted',
            'C05_merge_split', 'C05_merge_split_same_normal', 'C05_chain', 'C05_chain_sound',
            'C05img_split_merge', 'C05img_merge_split']
ALLOWED_AXIOMS = []
TABLES = ['t_classes', 't_ext_tol']
RULE = ('see the parts: canonical extensions with one or more keys per value pattern, split along every admissible axis and '
        'merged back; chains of such round trips on real images; non-trivial = some key in a varying class')
TRUSTED_BASE = ['hand-written Gallina model coq/Ext/Model.v of get_subset / from_sequence / _insert* / _simplify (tied to the code by '
                'the ext-roundtrip correspondence here and by the C03 / C04 / C06 correspondences, and by the generated class tables)',
                'coq/Wrapper/Model.v: hand model of NiftiWrapper.split / from_sequence (tied by the chains correspondence here and by '
                'the imgmerge / imgsplit / imgrt parts); its two sqrt normalisations are instantiated with exact rational square roots',
                'np.allclose on slice normals modelled exactly in Q; affines are dyadic and exact in float32']
ASSUMPTIONS = ['values: Python == coincides with structural equality (generators never mix 1 / 1.0 / True, no NaN)',
               'domain of C05_split_merge / C05_chain: valid, nondegenerate (no key in a varying class of multiplicity 1), canonical in '
               'the literal sense (every key at its simplest class, no key that is None everywhere), base dictionaries tight, NO '
               'trailing singleton dimension (get_subset trims them: C05_split_merge_trailing1_refuted = open finding N12, corpus case; also N2/N4), a slice '
               'dimension is recorded (5-D time round trips raise TypeError otherwise: C05_split_merge_no_slice_dim_refuted = open '
               'finding N3, corpus case), axis = slice dim, 3 or 4 with at least two positions; from_sequence gets the parent affine / slice dim or '
               'leaves them out',
               'extensions that carry all-None keys as the global constant None come back identical up to the representation of those '
               'keys (C05_split_merge_mod_none)',
               'totality of a single get_subset is NOT proved (C04): C05_split_merge takes the pieces as given, C05_chain reduces the '
               'success of a whole chain to the success of get_subset on the STARTING extension; the correspondence + oracle check '
               'that it never raises on the generated domain',
               'key order of the result is not modelled (compared as unordered maps, as DcmMetaExtension.__eq__ does)',
               'image level: nibabel header book-keeping is not modelled (see imglib.ASSUMPTIONS); chains use images whose extension '
               'matches the image (same shape, slice dim_info = extension slice dim, same affine)']

# ------------------------------------------------------------------------------------------------ extension level

SIG_N12 = 'ext-rt/4D-trailing1/slice/wrong-value'      # open: property=C05 (trailing singleton dim lost by split -> merge)
SIG_N3 = 'ext-rt/5D/time/TypeError'                    # open: property=C05 (no slice dimension, 5-D, along time)

EXT_PATTERNS = ['const', 'vec', 'time', 'vol', 'slice', 'slice_time', 'irregular', 'none_heavy', 'const_none_some', 'late_change']


def rt_dims(E):
    """The axes of the property with at least two positions."""
    sh, sd = E['shape'], E['sdim']
    out = []
    if sd is not None and sh[sd] >= 2:
        out.append(sd)
    for d in (3, 4):
        if d < len(sh) and sh[d] >= 2:
            out.append(d)
    return out


def gen_canonical_ext(rng, tier, shape=None, sdim=None, aff=None, nkeys=None):
    """Canonical (widen = 0), nondegenerate, with a slice dimension, no trailing singleton dim; one key per pattern drawn,
    list-valued keys included."""
    if shape is None:
        while True:
            shape, sdim = extlib.gen_shape(rng, tier, ndim=rng.choice([3, 4, 4, 5, 5, 5]), sdim=rng.choice([0, 1, 2]))
            if rt_dims({'shape': shape, 'sdim': sdim}):
                break
    aff = aff or extlib.gen_affine(rng)
    d = extlib.dims({'shape': shape, 'sdim': sdim})
    ents = {}
    nkeys = nkeys or rng.randint(2, 6)
    for k in rng.sample(extlib.KEYNAMES, nkeys):
        kind = rng.choice(['int', 'int', 'str', 'float', 'list', 'list', 'nested', 'bool'])
        f = extlib.gen_fn(rng, d, rng.choice(EXT_PATTERNS), alphabet=extlib.gen_alphabet(rng, kind))
        e = extlib.encode(rng, shape, sdim, f, 0.0)
        if e is not None:
            ents[k] = e
    return extlib.mk_E(shape, sdim, aff, ents)


def is_canonical_E(E):
    d = extlib.dims(E)
    for k, c, vs in E['entries']:
        f = (lambda kk: (lambda p: extlib.den(E, kk, p)))(k)
        if extlib.canon_class(E['shape'], d, f) != c:
            return False
        if all(f(p) is None for p in extlib.grid(d)):
            return False
    return extlib.is_nondegenerate(E)


def snapshot_ext(x):
    """Everything of an extension that a later call must leave alone, in plain (deep-copied) form: the abstraction, the
    serialised JSON, per key (values, class) through get_values_and_class, and the verdict of check_valid."""
    per_key = {}
    for k in sorted(x.get_keys()):
        v, c = x.get_values_and_class(k)
        per_key[k] = [copy.deepcopy(extlib._plain(v)), list(c) if c is not None else None]
    try:
        x.check_valid()
        valid = True
    except Exception:           # noqa: BLE001
        valid = False
    try:
        js = x.to_json()
    except Exception as e:      # noqa: BLE001  (to_json refuses an extension that check_valid rejects)
        js = 'exc:' + type(e).__name__
    return {'abs': extlib.ext_to_json(x), 'json': js, 'per_key': per_key, 'valid': valid}


def run_ext_roundtrip(case):
    def go():
        np, dcmmeta = extlib._imports()
        E, dim = case['ext'], case['dim']
        ext = extlib.build_ext(E)
        before = extlib.ext_to_json(ext)
        pieces = [ext.get_subset(dim, i) for i in range(E['shape'][dim])]
        snaps = [snapshot_ext(p) for p in pieces]             # BEFORE the merge
        aff = np.array(E['aff'], dtype=float) if case['with_aff'] else None
        sd = E['sdim'] if case['with_sd'] else None
        merged = dcmmeta.DcmMetaExtension.from_sequence(pieces, dim, aff, sd)
        out = {'ext': extlib.ext_to_json(merged), 'input_untouched': extlib.ext_to_json(ext) == before,
               'piece_shapes': [[int(x) for x in p.shape] for p in pieces]}
        # (b) the live inputs after the merge against their snapshots
        live = [snapshot_ext(p) for p in pieces]
        out['pieces_changed'] = [i for i, (a, b) in enumerate(zip(snaps, live)) if a != b]
        out['pieces_invalid'] = [i for i, b in enumerate(live) if not b['valid']]
        # (c) the same piece objects merged a second time
        try:
            merged2 = dcmmeta.DcmMetaExtension.from_sequence(pieces, dim, aff, sd)
            out['second'] = {'same': extlib.ext_to_json(merged2) == out['ext'] and bool(merged2 == merged)}
        except Exception as e:      # noqa: BLE001
            out['second'] = {'exc': type(e).__name__, 'msg': str(e)[:200]}
        # (a) merge then split: the pieces of the merged extension against the SNAPSHOTS of the inputs
        try:
            again = [snapshot_ext(merged.get_subset(dim, i)) for i in range(len(pieces))]
            out['resplit_diff'] = [i for i, (a, b) in enumerate(zip(snaps, again))
                                   if (a['abs'], a['per_key'], a['valid']) != (b['abs'], b['per_key'], b['valid'])]
        except Exception as e:      # noqa: BLE001
            out['resplit_exc'] = '%s: %s' % (type(e).__name__, str(e)[:200])
        out['eq'] = bool(merged == ext) and bool(ext == merged)
        per_key = {}
        for k in sorted(set(ext.get_keys()) | set(merged.get_keys())):
            v0, c0 = ext.get_values_and_class(k)
            v1, c1 = merged.get_values_and_class(k)
            per_key[k] = bool(c0 == c1 and v0 == v1 and type(v0) is type(v1))
        out['per_key'] = per_key
        out['keys_eq'] = sorted(ext.get_keys()) == sorted(merged.get_keys())
        try:
            merged.check_valid()
            out['valid'] = True
        except Exception:       # noqa: BLE001
            out['valid'] = False
        return out
    return extlib._guard(go)


def judge_inputs(obs, what='from_sequence'):
    """Clauses about the INPUTS of a merge (shared by both parts): untouched, still valid, mergeable again to the same result,
    and found again when the merged object is split."""
    if obs.get('pieces_changed'):
        return '%s modified its input %d (snapshot taken before the merge differs from the live object afterwards)' % (
            what, obs['pieces_changed'][0])
    if obs.get('pieces_invalid'):
        return 'input %d fails check_valid after the merge' % obs['pieces_invalid'][0]
    sec = obs.get('second')
    if sec is not None:
        if 'exc' in sec:
            return 'merging the same pieces a second time raised %s: %s' % (sec['exc'], sec.get('msg'))
        if not sec.get('same'):
            return 'merging the same pieces a second time gave a different result'
    if 'resplit_exc' in obs:
        return 'splitting the merged object raised %s' % obs['resplit_exc']
    if obs.get('resplit_diff'):
        return 'merge then split: piece %d differs from the input as it was before the merge' % obs['resplit_diff'][0]
    return None


def ext_rt_to_coq(case, obs):
    return '(mk_ert_case %s %s %s %s %s)' % (extlib.ext_to_coq(case['ext']), cnat(case['dim']), cbool(case['with_aff']),
                                             cbool(case['with_sd']), extlib.obs_to_coq(obs))


def oracle_ext_roundtrip(case, obs):
    """The property on the implementation alone."""
    if 'crash' in obs:
        return 'harness: %s' % obs.get('msg')
    E, dim = case['ext'], case['dim']
    if 'err' in obs:
        return 'split along %d then merge raised %s: %s' % (dim, obs.get('exc'), obs.get('msg'))
    R = obs['ext']
    if R['shape'] != E['shape'] or R['sdim'] != E['sdim']:
        return 'merged extension has shape %r slice dim %r, original %r / %r' % (R['shape'], R['sdim'], E['shape'], E['sdim'])
    if R['aff'] != E['aff']:
        return 'merged extension has another affine'
    if not obs['eq']:
        return 'merged extension != original (DcmMetaExtension.__eq__)'
    if not obs['keys_eq']:
        return 'merged extension has another key set'
    bad = [k for k, ok in obs['per_key'].items() if not ok]
    if bad:
        a, b = extlib.entry_map(E).get(bad[0]), extlib.entry_map(R).get(bad[0])
        return 'key %r: original %r, after the round trip %r' % (bad[0], a, b)
    if R['entries'] != E['entries'] or (R['ht'], R['hv']) != (E['ht'], E['hv']):
        return 'merged extension differs from the original in its abstraction'
    if not obs.get('valid', True):
        return 'merged extension fails check_valid'
    if obs.get('input_untouched') is False:
        return 'the round trip modified the original extension'
    return judge_inputs(obs)


class ExtRoundtripPart:
    NAME = 'extrt'
    CORR_REQUIRE = ('From DV Require Import Common.Jv Ext.Types Ext.Model Ext.Corr Orient.Model Wrapper.Model Wrapper.Corr '
                    'Ext.ProofsRoundtrip Ext.ProofsRoundtripCorr.')
    CORR_CASE_TYPE = 'ert_case'
    CORR_CHECK = 'check_ert'
    CORR_SHOW = 'show_ert'
    SHARD = 60
    IMPL_TIMEOUT = 30
    RULE = ('canonical nondegenerate 3-5-D extensions (S,T,V in 1..3 quick / 1..4 thorough, >= 2 on the split axis, slice axis 0/1/2, '
            '(X,Y,Z,1,V) included, never a trailing singleton dim), 2-6 keys over the patterns per-vector-constant, per-volume, '
            'per-time, per-slice repeating, slice x time, irregular, None-heavy, constant-with-holes, late-change, with int / str / '
            'float / bool / list / nested values; EVERY admissible axis (slice dim, 3, 4) of each extension, from_sequence with and '
            'without the affine / slice_dim arguments; plus a forced family of 3-D pieces carrying per-slice-varying keys (4-D along '
            'time, (X,Y,Z,1,V) along the vector axis); inputs of every merge are snapshot before it and compared afterwards, merged '
            'twice, and compared with the re-split pieces; non-trivial = some key in a varying class')

    @staticmethod
    def gen_cases(rng, tier):
        n = 400 if tier == 'quick' else 3000
        cases = []
        for _ in range(n):
            E = gen_canonical_ext(rng, tier)
            for dim in rt_dims(E):
                cases.append({'kind': 'ext-rt/%dD/%s' % (len(E['shape']), 'slice' if dim == E['sdim'] else ('time' if dim == 3 else 'vector')),
                              'ext': E, 'dim': dim, 'with_aff': rng.random() < 0.5, 'with_sd': rng.random() < 0.5})
        # the (X,Y,Z,1,V) family explicitly (time axis singular: the F4 neighbourhood) and 5-D with T,V >= 2 along time
        for _ in range(40 if tier == 'quick' else 300):
            sd = rng.choice([0, 1, 2])
            sh = [rng.randint(1, 2) for _ in range(3)] + [rng.choice([1, 2, 3]), rng.randint(2, 3)]
            sh[sd] = rng.randint(2, 3)
            E = gen_canonical_ext(rng, tier, shape=sh, sdim=sd)
            for dim in rt_dims(E):
                cases.append({'kind': 'ext-rt/5D-forced/%s' % ('slice' if dim == sd else ('time' if dim == 3 else 'vector')),
                              'ext': E, 'dim': dim, 'with_aff': rng.random() < 0.5, 'with_sd': rng.random() < 0.5})
        # 3-D pieces that carry per-slice-varying meta data: 4-D along time, (X,Y,Z,1,V) along the vector axis
        for _ in range(60 if tier == 'quick' else 400):
            sd = rng.choice([0, 1, 2])
            sh = [rng.randint(1, 2) for _ in range(3)]
            sh[sd] = rng.randint(2, 3)
            dim = rng.choice([3, 4])
            sh += [rng.randint(2, 4)] if dim == 3 else [1, rng.randint(2, 4)]
            d = extlib.dims({'shape': sh, 'sdim': sd})
            ents = {}
            for k in rng.sample(extlib.KEYNAMES, rng.randint(2, 4)):
                f = extlib.gen_fn(rng, d, rng.choice(['slice', 'slice', 'slice_time', 'irregular', 'late_change', 'vol']),
                                  alphabet=extlib.gen_alphabet(rng, rng.choice(['int', 'str', 'list'])))
                e = extlib.encode(rng, sh, sd, f, 0.0)
                if e is not None:
                    ents[k] = e
            E = extlib.mk_E(sh, sd, extlib.gen_affine(rng), ents)
            cases.append({'kind': 'ext-rt/3D-pieces/%s' % ('time' if dim == 3 else 'vector'),
                          'ext': E, 'dim': dim, 'with_aff': rng.random() < 0.5, 'with_sd': rng.random() < 0.5})
        return cases

    run_impl = staticmethod(run_ext_roundtrip)
    coq_case = staticmethod(ext_rt_to_coq)
    oracle = staticmethod(oracle_ext_roundtrip)

    @staticmethod
    def signature(case, obs, msg):
        E = case['ext']
        sh, dim = E['shape'], case['dim']
        ax = 'slice' if dim == E['sdim'] else ('time' if dim == 3 else 'vector')
        # the two open findings registered for C05 -- exactly their regions, exactly their strings
        if extlib.trailing1(sh) and ax == 'slice' and 'ext' in obs and obs['ext']['shape'] != sh:
            return 'ext-rt/%dD-trailing1/slice/wrong-value' % len(sh)                    # N12 (registered for 4-D)
        if E['sdim'] is None and len(sh) == 5 and dim == 3 and obs.get('exc') == 'TypeError':
            return SIG_N3
        # everything else: strings that cannot collide with the registered ones
        return 'ext-rt/%s/%s/%s' % (extlib.shape_family(sh), ax, ('exc:%s' % obs.get('exc')) if 'err' in obs else 'mismatch')

    @staticmethod
    def nontrivial(case, obs):
        return any(c != 'GConst' for _, c, _ in case['ext']['entries'])

    @staticmethod
    def shrink(case):
        for F in extlib.shrink_E(case['ext']):
            c = dict(case)
            c['ext'] = F
            yield c


# ------------------------------------------------------------------------------------------------ image level: chains

def gen_chain_case(rng, tier):
    maxlen = 2 if tier == 'quick' else 4
    hi = 3
    nd = rng.choice([3, 4, 4, 5, 5])
    sl = rng.choice([0, 1, 2])
    sh = [rng.randint(1, hi) for _ in range(nd)]
    sh[sl] = rng.randint(2, hi)
    if nd > 3 and sh[-1] == 1:
        sh[-1] = rng.randint(2, hi)
    kind = rng.choice(['diag', 'perm', 'oblique', 'oblique', 'shear'])
    A = imglib.gen_img_affine(rng, kind, keep=sl)
    E = gen_canonical_ext(rng, 'quick', shape=list(sh), sdim=sl, aff=A, nkeys=rng.randint(1, 4))
    dims_ok = rt_dims(E)
    dims = [rng.choice(dims_ok) for _ in range(rng.randint(1, maxlen))]
    W = {'img': imglib.mk_I(rng, sh, A, sl, rng.randrange(0, 20) * 1000), 'ext': E}
    return {'kind': 'chain/%dD/len%d' % (nd, len(dims)), 'affine': kind, 'w': W, 'dims': dims}


def _lookups(w, keys):
    """get_meta of every key at every voxel index (default None)."""
    shape = [int(x) for x in w.nii_img.shape]
    out = {}
    for k in keys:
        tab = []
        for idx in itertools.product(*[range(x) for x in shape]):
            try:
                tab.append(extlib._plain(w.get_meta(k, idx, None)))
            except Exception as e:      # noqa: BLE001
                tab.append({'__exc__': type(e).__name__})
        out[k] = tab
    return out


def snapshot_w(p, keys):
    """Plain snapshot of a wrapper: image (data bytes, shape, affines, dim_info), extension (snapshot_ext) and every lookup."""
    return {'img': repr(imglib.snapshot(p)[:5]), 'ext': snapshot_ext(p.meta_ext), 'lookups': _lookups(p, keys)}


def run_chain(case):
    np, dcmmeta = extlib._imports()
    NW = dcmmeta.NiftiWrapper
    w = imglib.build_w(case['w'])
    before = imglib.snapshot(w)
    keys = [k for k, _, _ in case['w']['ext']['entries']]
    out = {'in_ext': extlib.ext_to_json(w.meta_ext), 'start': imglib.observe(w), 'steps': []}
    cur = w
    try:
        for d in case['dims']:
            pieces = list(cur.split(d))
            snaps = [snapshot_w(p, keys) for p in pieces]         # BEFORE the merge
            step = {'pieces': [{'data': [int(x) for x in np.asanyarray(p.nii_img.dataobj).ravel()],
                                'shape': [int(x) for x in p.nii_img.shape], 'lookups': sn['lookups'],
                                'ext': sn['ext']['abs']} for p, sn in zip(pieces, snaps)]}
            out['steps'].append(step)
            merged = NW.from_sequence(pieces, d)
            step['merged'] = imglib.observe(merged)
            step['merged_eq'] = bool(merged.meta_ext == w.meta_ext)
            live = []                                             # the live inputs AFTER the merge
            for p in pieces:
                try:
                    live.append(snapshot_w(p, keys))
                except Exception as e:    # noqa: BLE001  (an input damaged so badly that it cannot even be read)
                    live.append({'img': None, 'ext': {'valid': False}, 'lookups': 'exc:' + type(e).__name__})
            step['pieces_changed'] = [i for i, (a, b) in enumerate(zip(snaps, live)) if a != b]
            step['pieces_invalid'] = [i for i, b in enumerate(live) if not b['ext']['valid']]
            try:
                m2 = imglib.observe(NW.from_sequence(pieces, d))  # the same objects merged a second time
                step['second'] = {'same': m2 == step['merged']}
            except Exception as e:    # noqa: BLE001
                step['second'] = {'exc': type(e).__name__, 'msg': str(e)[:200]}
            again = list(merged.split(d))
            step['resplit'] = [dict(imglib.observe(p), lookups=_lookups(p, keys)) for p in again]
            cur = merged
    except Exception as e:        # noqa: BLE001
        out.update(imglib._err(e))
    out['untouched'] = imglib.snapshot(w) == before
    return out


def chain_to_coq(case, obs):
    if 'crash' in obs or 'in_ext' not in obs:
        raise ValueError('no observation')
    items = []
    for st in obs['steps']:
        if 'merged' in st and 'resplit' in st:
            items.append(cpair(imglib.wobs_to_coq(st['merged']), '(LOk %s)' % clist(imglib.wobs_to_coq(p) for p in st['resplit'])))
        else:
            items.append(cpair('(WErr %s)' % obs.get('err', 'ECrash'), '(LErr %s)' % obs.get('err', 'ECrash')))
    return '(mk_chain_case %s %s %s %s)' % (imglib.w_to_coq(case['w'], obs['in_ext']), clist(cnat(d) for d in case['dims']),
                                            clist(items), cbool(bool(obs['untouched'])))


def oracle_chain(case, obs):
    if 'crash' in obs:
        return 'harness: %s %s' % (obs.get('crash'), obs.get('msg'))
    I, E = case['w']['img'], case['w']['ext']
    if 'err' in obs:
        return 'chain %r raised %s at step %d: %s' % (case['dims'], obs.get('exc'), len(obs['steps']), obs.get('msg'))
    if obs.get('untouched') is False:
        return 'the chain modified the starting image / extension'
    for n, (d, st) in enumerate(zip(case['dims'], obs['steps'])):
        M = st['merged']
        where = 'step %d (dim %d)' % (n, d)
        if M['shape'] != I['shape']:
            return '%s: merged shape %r, original %r' % (where, M['shape'], I['shape'])
        if M['data'] != I['data']:
            return '%s: merged voxel data differ from the original' % where
        if imglib.fmat(M['aff']) != imglib.fmat(I['aff']):
            return '%s: merged affine %r, original %r' % (where, M['aff'], I['aff'])
        if M['slice'] != I['slice']:
            return '%s: merged header slice dim %r, original %r' % (where, M['slice'], I['slice'])
        if M['ext'] != E:
            X = M['ext']
            if (X['shape'], X['sdim'], X['aff']) != (E['shape'], E['sdim'], E['aff']):
                return '%s: merged extension header (shape %r, slice dim %r, affine) differs from the original' % (where, X['shape'], X['sdim'])
            a, b = extlib.entry_map(E), extlib.entry_map(X)
            for k in sorted(set(a) | set(b)):
                if a.get(k) != b.get(k):
                    return '%s: key %r: original %r, merged %r' % (where, k, a.get(k), b.get(k))
            return '%s: merged extension differs from the original' % where
        if not st['merged_eq']:
            return '%s: merged extension != original (DcmMetaExtension.__eq__)' % where
        m = judge_inputs(st, 'NiftiWrapper.from_sequence')
        if m:
            return '%s: %s' % (where, m)
        P, Q = st['pieces'], st['resplit']
        if len(P) != len(Q):
            return '%s: %d pieces merged, %d pieces after splitting again' % (where, len(P), len(Q))
        for i, (p, q) in enumerate(zip(P, Q)):
            if p['shape'] != q['shape'] or p['data'] != q['data']:
                return '%s: merge then split: piece %d does not carry the voxels of input %d' % (where, i, i)
            if p['ext'] != q['ext']:
                return '%s: merge then split: the extension of piece %d differs from the input\'s as it was before the merge' % (where, i)
            for k in p['lookups']:
                if p['lookups'][k] != q['lookups'][k]:
                    j = [x != y for x, y in zip(p['lookups'][k], q['lookups'][k])].index(True)
                    return '%s: merge then split: piece %d key %r voxel %d reads %r, the input read %r' % (
                        where, i, k, j, q['lookups'][k][j], p['lookups'][k][j])
    if len(obs['steps']) != len(case['dims']):
        return 'chain stopped after %d of %d steps' % (len(obs['steps']), len(case['dims']))
    return None


class ChainPart:
    NAME = 'chains'
    CORR_REQUIRE = ExtRoundtripPart.CORR_REQUIRE
    CORR_CASE_TYPE = 'chain_case'
    CORR_CHECK = 'check_chain'
    CORR_SHOW = 'show_chain'
    SHARD = 25
    IMPL_TIMEOUT = 60
    RULE = ('in-memory Nifti images (3-5 D, extents 1..3, >= 2 on the slice axis, unique voxel values, int16/int32) with axis-aligned '
            'anisotropic, axis-permuted and integer-Pythagorean oblique affines (NON-symmetric 3x3, sheared variants; dyadic and '
            'float32-exact), header slice dim = extension slice dim, canonical extension with 1-4 keys; random chains of length <= 2 '
            '(quick) / <= 4 (thorough) over the slice / time / vector axes with >= 2 positions; after every merge the merged image is '
            'split again along the same axis; non-trivial = some key in a varying class')

    @staticmethod
    def gen_cases(rng, tier):
        return [gen_chain_case(rng, tier) for _ in range(300 if tier == 'quick' else 2000)]

    run_impl = staticmethod(run_chain)
    coq_case = staticmethod(chain_to_coq)
    oracle = staticmethod(oracle_chain)

    @staticmethod
    def signature(case, obs, msg):
        return 'chain/%s/%s' % (extlib.shape_family(case['w']['img']['shape']), obs.get('exc') if 'err' in obs else 'wrong-result')

    @staticmethod
    def nontrivial(case, obs):
        return any(c != 'GConst' for _, c, _ in case['w']['ext']['entries'])

    @staticmethod
    def shrink(case):
        if len(case['dims']) > 1:
            for i in range(len(case['dims'])):
                c = copy.deepcopy(case)
                del c['dims'][i]
                yield c
        for F in extlib.shrink_E(case['w']['ext']):
            c = copy.deepcopy(case)
            c['w']['ext'] = F
            yield c


PARTS = [ExtRoundtripPart, ChainPart]


# source tie (integrator): the helper functions the extension model rests on are TRANSLATED from the Python AST on every
# run (tools/tables/py2coq.py, t_src_ext.py -> Generated/T_src_ext.v) and the hand models are proved equal to the translation
COQ_PROPS = (list(COQ_PROPS) if isinstance(COQ_PROPS, (list, tuple)) else [COQ_PROPS]) + ['Props/SRC.v']
THEOREMS = list(THEOREMS) + ['SRC_valid_classes', 'SRC_class_valid', 'SRC_multiplicity', 'SRC_is_constant', 'SRC_is_repeating', 'SRC_const_period', 'SRC_n_slices']
TABLES = sorted(set(list(globals().get('TABLES') or ['t_classes', 't_ext_tol']) + ['t_src_ext', 't_classes', 't_ext_tol']))
TRUSTED_BASE = list(TRUSTED_BASE) + ['tools/tables/py2coq.py + t_src_ext.py: typed fail-closed translator of is_constant, is_repeating, get_valid_classes, get_multiplicity, _get_const_period, n_slices into Gallina; coq/Common/PyOps2.v as the meaning of the translated primitives']


# source tie, stage A (integrator): _global_slice_subset and _get_changed_class are TRANSLATED from the AST on every run and the
# hand model (global_slice_subset, changed_class) is proved equal to the translation on stored content (Props/SRCalg.v)
COQ_PROPS = list(COQ_PROPS) + ['Props/SRCalg.v']
THEOREMS = list(THEOREMS) + ['SRC_global_slice_subset', 'SRC_changed_class']


# source tie, stage B (integrator): _change_class / _simplify are TRANSLATED in state-passing form (t_src_state.py) and the per-key
# model (change_class_k, simplify_k) is proved to be a refinement of the translation on the stored content (Props/SRCstate.v)
COQ_PROPS = list(COQ_PROPS) + ['Props/SRCstate.v']
THEOREMS = list(THEOREMS) + ['SRC_change_class', 'SRC_simplify', 'SRC_to_content_holds']
TABLES = sorted(set(list(TABLES) + ['t_src_state', 't_content', 't_cli']))
