"""C05 Split then merge, and merge then split, are identities.

Parts
  extrt           extension level: a canonical extension is split with DcmMetaExtension.get_subset for EVERY index of the
                  slice / time / vector axis and the pieces are merged back with DcmMetaExtension.from_sequence.
                  correspondence: Ext/ProofsRoundtripCorr.v check_ert (model round trip == observed merged extension);
                  oracle (implementation alone): merged == original (DcmMetaExtension.__eq__), per key identical
                  (values, class) through get_values_and_class, same key set, check_valid.
  chains          image level: chains  split(d1) -> from_sequence -> split(d1) again -> split(d2) -> from_sequence -> ...
                  through NiftiWrapper.split / NiftiWrapper.from_sequence on real in-memory images with unique voxel values.
                  correspondence: check_chain (Wrapper/Model.v composed); oracle: after every merge the voxel data, the
                  affine (exactly), the header slice dim and the extension are the starting image's; splitting the merged
                  image again returns pieces whose voxels and get_meta lookups at every voxel equal those of the pieces
                  that were merged.
The image-half theorems (Props/C05img.v, agent of coq/Wrapper) are checked here too."""
import copy, itertools

from vlib.coqlit import cnat, cbool, clist, cpair
from props import extlib, imglib

ID = 'C05'
COQ_PROPS = ['Props/C05.v', 'Props/C05img.v']
THEOREMS = ['C05_canonical_unique', 'C05_canonical_unique_key', 'C05_canonical_unique_strict',
            'C05_split_merge', 'C05_split_merge_mod_none', 'C05_split_all_defined',
            'C05_split_merge_trailing1_refuted', 'C05_split_merge_no_slice_dim_refuted',
            'C05_merge_split', 'C05_merge_split_same_normal', 'C05_chain', 'C05_chain_sound',
            'C05img_split_merge', 'C05img_merge_split']
ALLOWED_AXIOMS = []
TABLES = ['t_classes', 't_ext_tol']
RULE = ('see the parts: canonical extensions with one or more keys per value pattern, split along every admissible axis and '
        'merged back; chains of such round trips on real images; non-trivial = some key in a varying class')
TRUSTED_BASE = ['hand-written Gallina model coq/Ext/Model.v of get_subset / from_sequence / _insert* / _simplify (tied to the code by '
                'the ext-roundtrip correspondence here and by the C03 / C04 / C06 correspondences, and by the generated class tables)',
                'coq/Wrapper/Model.v: hand model of NiftiWrapper.split / from_sequence (tied by the chains correspondence here and by '
                'the imgmerge / imgsplit / imgrt parts); its two sqrt normalisations are instantiated with exact rational square roots',
                'np.allclose on slice normals modelled exactly in Q; affines are dyadic and exact in float32']
ASSUMPTIONS = ['values: Python == coincides with structural equality (generators never mix 1 / 1.0 / True, no NaN)',
               'domain of C05_split_merge / C05_chain: valid, nondegenerate (no key in a varying class of multiplicity 1), canonical in '
               'the literal sense (every key at its simplest class, no key that is None everywhere), base dictionaries tight, NO '
               'trailing singleton dimension (get_subset trims them: C05_split_merge_trailing1_refuted = open finding N12, corpus case; also N2/N4), a slice '
               'dimension is recorded (5-D time round trips raise TypeError otherwise: C05_split_merge_no_slice_dim_refuted = open '
               'finding N3, corpus case), axis = slice dim, 3 or 4 with at least two positions; from_sequence gets the parent affine / slice dim or '
               'leaves them out',
               'extensions that carry all-None keys as the global constant None come back identical up to the representation of those '
               'keys (C05_split_merge_mod_none)',
               'totality of a single get_subset is NOT proved (C04): C05_split_merge takes the pieces as given, C05_chain reduces the '
               'success of a whole chain to the success of get_subset on the STARTING extension; the correspondence + oracle check '
               'that it never raises on the generated domain',
               'key order of the result is not modelled (compared as unordered maps, as DcmMetaExtension.__eq__ does)',
               'image level: nibabel header book-keeping is not modelled (see imglib.ASSUMPTIONS); chains use images whose extension '
               'matches the image (same shape, slice dim_info = extension slice dim, same affine)']

# ------------------------------------------------------------------------------------------------ extension level

SIG_N12 = 'ext-rt/4D-trailing1/slice/wrong-value'      # open: property=C05 (trailing singleton dim lost by split -> merge)
SIG_N3 = 'ext-rt/5D/time/TypeError'                    # open: property=C05 (no slice dimension, 5-D, along time)

EXT_PATTERNS = ['const', 'vec', 'time', 'vol', 'slice', 'slice_time', 'irregular', 'none_heavy', 'const_none_some', 'late_change']


def rt_dims(E):
    """The axes of the property with at least two positions."""
    sh, sd = E['shape'], E['sdim']
    out = []
    if sd is not None and sh[sd] >= 2:
        out.append(sd)
    for d in (3, 4):
        if d < len(sh) and sh[d] >= 2:
            out.append(d)
    return out


def gen_canonical_ext(rng, tier, shape=None, sdim=None, aff=None, nkeys=None):
    """Canonical (widen = 0), nondegenerate, with a slice dimension, no trailing singleton dim; one key per pattern drawn,
    list-valued keys included."""
    if shape is None:
        while True:
            shape, sdim = extlib.gen_shape(rng, tier, ndim=rng.choice([3, 4, 4, 5, 5, 5]), sdim=rng.choice([0, 1, 2]))
            if rt_dims({'shape': shape, 'sdim': sdim}):
                break
    aff = aff or extlib.gen_affine(rng)
    d = extlib.dims({'shape': shape, 'sdim': sdim})
    ents = {}
    nkeys = nkeys or rng.randint(2, 6)
    for k in rng.sample(extlib.KEYNAMES, nkeys):
        kind = rng.choice(['int', 'int', 'str', 'float', 'list', 'list', 'nested', 'bool'])
        f = extlib.gen_fn(rng, d, rng.choice(EXT_PATTERNS), alphabet=extlib.gen_alphabet(rng, kind))
        e = extlib.encode(rng, shape, sdim, f, 0.0)
        if e is not None:
            ents[k] = e
    return extlib.mk_E(shape, sdim, aff, ents)


def is_canonical_E(E):
    d = extlib.dims(E)
    for k, c, vs in E['entries']:
        f = (lambda kk: (lambda p: extlib.den(E, kk, p)))(k)
        if extlib.canon_class(E['shape'], d, f) != c:
            return False
        if all(f(p) is None for p in extlib.grid(d)):
            return False
    return extlib.is_nondegenerate(E)


def run_ext_roundtrip(case):
    def go():
        np, dcmmeta = extlib._imports()
        E, dim = case['ext'], case['dim']
        ext = extlib.build_ext(E)
        before = extlib.ext_to_json(ext)
        pieces = [ext.get_subset(dim, i) for i in range(E['shape'][dim])]
        aff = np.array(E['aff'], dtype=float) if case['with_aff'] else None
        sd = E['sdim'] if case['with_sd'] else None
        merged = dcmmeta.DcmMetaExtension.from_sequence(pieces, dim, aff, sd)
        out = {'ext': extlib.ext_to_json(merged), 'input_untouched': extlib.ext_to_json(ext) == before,
               'piece_shapes': [[int(x) for x in p.shape] for p in pieces]}
        out['eq'] = bool(merged == ext) and bool(ext == merged)
        per_key = {}
        for k in sorted(set(ext.get_keys()) | set(merged.get_keys())):
            v0, c0 = ext.get_values_and_class(k)
            v1, c1 = merged.get_values_and_class(k)
            per_key[k] = bool(c0 == c1 and v0 == v1 and type(v0) is type(v1))
        out['per_key'] = per_key
        out['keys_eq'] = sorted(ext.get_keys()) == sorted(merged.get_keys())
        try:
            merged.check_valid()
            out['valid'] = True
        except Exception:       # noqa: BLE001
            out['valid'] = False
        return out
    return extlib._guard(go)


def ext_rt_to_coq(case, obs):
    return '(mk_ert_case %s %s %s %s %s)' % (extlib.ext_to_coq(case['ext']), cnat(case['dim']), cbool(case['with_aff']),
                                             cbool(case['with_sd']), extlib.obs_to_coq(obs))


def oracle_ext_roundtrip(case, obs):
    """The property on the implementation alone."""
    if 'crash' in obs:
        return 'harness: %s' % obs.get('msg')
    E, dim = case['ext'], case['dim']
    if 'err' in obs:
        return 'split along %d then merge raised %s: %s' % (dim, obs.get('exc'), obs.get('msg'))
    R = obs['ext']
    if R['shape'] != E['shape'] or R['sdim'] != E['sdim']:
        return 'merged extension has shape %r slice dim %r, original %r / %r' % (R['shape'], R['sdim'], E['shape'], E['sdim'])
    if R['aff'] != E['aff']:
        return 'merged extension has another affine'
    if not obs['eq']:
        return 'merged extension != original (DcmMetaExtension.__eq__)'
    if not obs['keys_eq']:
        return 'merged extension has another key set'
    bad = [k for k, ok in obs['per_key'].items() if not ok]
    if bad:
        a, b = extlib.entry_map(E).get(bad[0]), extlib.entry_map(R).get(bad[0])
        return 'key %r: original %r, after the round trip %r' % (bad[0], a, b)
    if R['entries'] != E['entries'] or (R['ht'], R['hv']) != (E['ht'], E['hv']):
        return 'merged extension differs from the original in its abstraction'
    if not obs.get('valid', True):
        return 'merged extension fails check_valid'
    if obs.get('input_untouched') is False:
        return 'the round trip modified the original extension'
    return None


class ExtRoundtripPart:
    NAME = 'extrt'
    CORR_REQUIRE = ('From DV Require Import Common.Jv Ext.Types Ext.Model Ext.Corr Orient.Model Wrapper.Model Wrapper.Corr '
                    'Ext.ProofsRoundtrip Ext.ProofsRoundtripCorr.')
    CORR_CASE_TYPE = 'ert_case'
    CORR_CHECK = 'check_ert'
    CORR_SHOW = 'show_ert'
    SHARD = 60
    IMPL_TIMEOUT = 30
    RULE = ('canonical nondegenerate 3-5-D extensions (S,T,V in 1..3 quick / 1..4 thorough, >= 2 on the split axis, slice axis 0/1/2, '
            '(X,Y,Z,1,V) included, never a trailing singleton dim), 2-6 keys over the patterns per-vector-constant, per-volume, '
            'per-time, per-slice repeating, slice x time, irregular, None-heavy, constant-with-holes, late-change, with int / str / '
            'float / bool / list / nested values; EVERY admissible axis (slice dim, 3, 4) of each extension, from_sequence with and '
            'without the affine / slice_dim arguments; non-trivial = some key in a varying class')

    @staticmethod
    def gen_cases(rng, tier):
        n = 400 if tier == 'quick' else 3000
        cases = []
        for _ in range(n):
            E = gen_canonical_ext(rng, tier)
            for dim in rt_dims(E):
                cases.append({'kind': 'ext-rt/%dD/%s' % (len(E['shape']), 'slice' if dim == E['sdim'] else ('time' if dim == 3 else 'vector')),
                              'ext': E, 'dim': dim, 'with_aff': rng.random() < 0.5, 'with_sd': rng.random() < 0.5})
        # the (X,Y,Z,1,V) family explicitly (time axis singular: the F4 neighbourhood) and 5-D with T,V >= 2 along time
        for _ in range(40 if tier == 'quick' else 300):
            sd = rng.choice([0, 1, 2])
            sh = [rng.randint(1, 2) for _ in range(3)] + [rng.choice([1, 2, 3]), rng.randint(2, 3)]
            sh[sd] = rng.randint(2, 3)
            E = gen_canonical_ext(rng, tier, shape=sh, sdim=sd)
            for dim in rt_dims(E):
                cases.append({'kind': 'ext-rt/5D-forced/%s' % ('slice' if dim == sd else ('time' if dim == 3 else 'vector')),
                              'ext': E, 'dim': dim, 'with_aff': rng.random() < 0.5, 'with_sd': rng.random() < 0.5})
        return cases

    run_impl = staticmethod(run_ext_roundtrip)
    coq_case = staticmethod(ext_rt_to_coq)
    oracle = staticmethod(oracle_ext_roundtrip)

    @staticmethod
    def signature(case, obs, msg):
        E = case['ext']
        sh, dim = E['shape'], case['dim']
        ax = 'slice' if dim == E['sdim'] else ('time' if dim == 3 else 'vector')
        # the two open findings registered for C05 -- exactly their regions, exactly their strings
        if extlib.trailing1(sh) and ax == 'slice' and 'ext' in obs and obs['ext']['shape'] != sh:
            return 'ext-rt/%dD-trailing1/slice/wrong-value' % len(sh)                    # N12 (registered for 4-D)
        if E['sdim'] is None and len(sh) == 5 and dim == 3 and obs.get('exc') == 'TypeError':
            return SIG_N3
        # everything else: strings that cannot collide with the registered ones
        return 'ext-rt/%s/%s/%s' % (extlib.shape_family(sh), ax, ('exc:%s' % obs.get('exc')) if 'err' in obs else 'mismatch')

    @staticmethod
    def nontrivial(case, obs):
        return any(c != 'GConst' for _, c, _ in case['ext']['entries'])

    @staticmethod
    def shrink(case):
        for F in extlib.shrink_E(case['ext']):
            c = dict(case)
            c['ext'] = F
            yield c


# ------------------------------------------------------------------------------------------------ image level: chains

def gen_chain_case(rng, tier):
    maxlen = 2 if tier == 'quick' else 4
    hi = 3
    nd = rng.choice([3, 4, 4, 5, 5])
    sl = rng.choice([0, 1, 2])
    sh = [rng.randint(1, hi) for _ in range(nd)]
    sh[sl] = rng.randint(2, hi)
    if nd > 3 and sh[-1] == 1:
        sh[-1] = rng.randint(2, hi)
    kind = rng.choice(['diag', 'perm', 'oblique', 'oblique', 'shear'])
    A = imglib.gen_img_affine(rng, kind, keep=sl)
    E = gen_canonical_ext(rng, 'quick', shape=list(sh), sdim=sl, aff=A, nkeys=rng.randint(1, 4))
    dims_ok = rt_dims(E)
    dims = [rng.choice(dims_ok) for _ in range(rng.randint(1, maxlen))]
    W = {'img': imglib.mk_I(rng, sh, A, sl, rng.randrange(0, 20) * 1000), 'ext': E}
    return {'kind': 'chain/%dD/len%d' % (nd, len(dims)), 'affine': kind, 'w': W, 'dims': dims}


def _lookups(w, keys):
    """get_meta of every key at every voxel index (default None)."""
    shape = [int(x) for x in w.nii_img.shape]
    out = {}
    for k in keys:
        tab = []
        for idx in itertools.product(*[range(x) for x in shape]):
            try:
                tab.append(extlib._plain(w.get_meta(k, idx, None)))
            except Exception as e:      # noqa: BLE001
                tab.append({'__exc__': type(e).__name__})
        out[k] = tab
    return out


def run_chain(case):
    np, dcmmeta = extlib._imports()
    NW = dcmmeta.NiftiWrapper
    w = imglib.build_w(case['w'])
    before = imglib.snapshot(w)
    keys = [k for k, _, _ in case['w']['ext']['entries']]
    out = {'in_ext': extlib.ext_to_json(w.meta_ext), 'start': imglib.observe(w), 'steps': []}
    cur = w
    try:
        for d in case['dims']:
            pieces = list(cur.split(d))
            step = {'pieces': [{'data': [int(x) for x in np.asanyarray(p.nii_img.dataobj).ravel()],
                                'shape': [int(x) for x in p.nii_img.shape], 'lookups': _lookups(p, keys)} for p in pieces]}
            out['steps'].append(step)
            merged = NW.from_sequence(pieces, d)
            step['merged'] = imglib.observe(merged)
            step['merged_eq'] = bool(merged.meta_ext == w.meta_ext)
            again = list(merged.split(d))
            step['resplit'] = [dict(imglib.observe(p), lookups=_lookups(p, keys)) for p in again]
            cur = merged
    except Exception as e:        # noqa: BLE001
        out.update(imglib._err(e))
    out['untouched'] = imglib.snapshot(w) == before
    return out


def chain_to_coq(case, obs):
    if 'crash' in obs or 'in_ext' not in obs:
        raise ValueError('no observation')
    items = []
    for st in obs['steps']:
        if 'merged' in st and 'resplit' in st:
            items.append(cpair(imglib.wobs_to_coq(st['merged']), '(LOk %s)' % clist(imglib.wobs_to_coq(p) for p in st['resplit'])))
        else:
            items.append(cpair('(WErr %s)' % obs.get('err', 'ECrash'), '(LErr %s)' % obs.get('err', 'ECrash')))
    return '(mk_chain_case %s %s %s %s)' % (imglib.w_to_coq(case['w'], obs['in_ext']), clist(cnat(d) for d in case['dims']),
                                            clist(items), cbool(bool(obs['untouched'])))


def oracle_chain(case, obs):
    if 'crash' in obs:
        return 'harness: %s %s' % (obs.get('crash'), obs.get('msg'))
    I, E = case['w']['img'], case['w']['ext']
    if 'err' in obs:
        return 'chain %r raised %s at step %d: %s' % (case['dims'], obs.get('exc'), len(obs['steps']), obs.get('msg'))
    if obs.get('untouched') is False:
        return 'the chain modified the starting image / extension'
    for n, (d, st) in enumerate(zip(case['dims'], obs['steps'])):
        M = st['merged']
        where = 'step %d (dim %d)' % (n, d)
        if M['shape'] != I['shape']:
            return '%s: merged shape %r, original %r' % (where, M['shape'], I['shape'])
        if M['data'] != I['data']:
            return '%s: merged voxel data differ from the original' % where
        if imglib.fmat(M['aff']) != imglib.fmat(I['aff']):
            return '%s: merged affine %r, original %r' % (where, M['aff'], I['aff'])
        if M['slice'] != I['slice']:
            return '%s: merged header slice dim %r, original %r' % (where, M['slice'], I['slice'])
        if M['ext'] != E:
            X = M['ext']
            if (X['shape'], X['sdim'], X['aff']) != (E['shape'], E['sdim'], E['aff']):
                return '%s: merged extension header (shape %r, slice dim %r, affine) differs from the original' % (where, X['shape'], X['sdim'])
            a, b = extlib.entry_map(E), extlib.entry_map(X)
            for k in sorted(set(a) | set(b)):
                if a.get(k) != b.get(k):
                    return '%s: key %r: original %r, merged %r' % (where, k, a.get(k), b.get(k))
            return '%s: merged extension differs from the original' % where
        if not st['merged_eq']:
            return '%s: merged extension != original (DcmMetaExtension.__eq__)' % where
        P, Q = st['pieces'], st['resplit']
        if len(P) != len(Q):
            return '%s: %d pieces merged, %d pieces after splitting again' % (where, len(P), len(Q))
        for i, (p, q) in enumerate(zip(P, Q)):
            if p['shape'] != q['shape'] or p['data'] != q['data']:
                return '%s: merge then split: piece %d does not carry the voxels of input %d' % (where, i, i)
            for k in p['lookups']:
                if p['lookups'][k] != q['lookups'][k]:
                    j = [x != y for x, y in zip(p['lookups'][k], q['lookups'][k])].index(True)
                    return '%s: merge then split: piece %d key %r voxel %d reads %r, the input read %r' % (
                        where, i, k, j, q['lookups'][k][j], p['lookups'][k][j])
    if len(obs['steps']) != len(case['dims']):
        return 'chain stopped after %d of %d steps' % (len(obs['steps']), len(case['dims']))
    return None


class ChainPart:
    NAME = 'chains'
    CORR_REQUIRE = ExtRoundtripPart.CORR_REQUIRE
    CORR_CASE_TYPE = 'chain_case'
    CORR_CHECK = 'check_chain'
    CORR_SHOW = 'show_chain'
    SHARD = 25
    IMPL_TIMEOUT = 60
    RULE = ('in-memory Nifti images (3-5 D, extents 1..3, >= 2 on the slice axis, unique voxel values, int16/int32) with axis-aligned '
            'anisotropic, axis-permuted and integer-Pythagorean oblique affines (NON-symmetric 3x3, sheared variants; dyadic and '
            'float32-exact), header slice dim = extension slice dim, canonical extension with 1-4 keys; random chains of length <= 2 '
            '(quick) / <= 4 (thorough) over the slice / time / vector axes with >= 2 positions; after every merge the merged image is '
            'split again along the same axis; non-trivial = some key in a varying class')

    @staticmethod
    def gen_cases(rng, tier):
        return [gen_chain_case(rng, tier) for _ in range(300 if tier == 'quick' else 2000)]

    run_impl = staticmethod(run_chain)
    coq_case = staticmethod(chain_to_coq)
    oracle = staticmethod(oracle_chain)

    @staticmethod
    def signature(case, obs, msg):
        return 'chain/%s/%s' % (extlib.shape_family(case['w']['img']['shape']), obs.get('exc') if 'err' in obs else 'wrong-result')

    @staticmethod
    def nontrivial(case, obs):
        return any(c != 'GConst' for _, c, _ in case['w']['ext']['entries'])

    @staticmethod
    def shrink(case):
        if len(case['dims']) > 1:
            for i in range(len(case['dims'])):
                c = copy.deepcopy(case)
                del c['dims'][i]
                yield c
        for F in extlib.shrink_E(case['w']['ext']):
            c = copy.deepcopy(case)
            c['w']['ext'] = F
            yield c


PARTS = [ExtRoundtripPart, ChainPart]
