"""C05 Split then merge, and merge then split, are identities.

Parts
  extrt           extension level: a canonical extension is split with DcmMetaExtension.get_subset for EVERY index of the
                  slice / time / vector axis and the pieces are merged back with DcmMetaExtension.from_sequence.
                  correspondence: Ext/ProofsRoundtripCorr.v check_ert (model round trip == observed merged extension);
                  oracle (implementation alone): merged == original (DcmMetaExtension.__eq__), per key identical
                  (values, class) through get_values_and_class, same key set, check_valid.  Every piece is SNAPSHOT before the
                  merge (abstraction, to_json, per-key get_values_and_class, check_valid): the live pieces after the merge must
                  equal their snapshots and still pass check_valid, merging the same piece objects a SECOND time must give the
                  same result, and get_subset of the merged extension must return the snapshots.
  chains          image level: chains  split(d1) -> from_sequence -> split(d1) again -> split(d2) -> from_sequence -> ...
                  through NiftiWrapper.split / NiftiWrapper.from_sequence on real in-memory images with unique voxel values.
                  correspondence: check_chain (Wrapper/Model.v composed); oracle: after every merge the voxel data, the
                  affine (exactly), the header slice dim and the extension are the starting image's; splitting the merged
                  image again returns pieces whose voxels, extension and get_meta lookups at every voxel equal those of the
                  pieces AS THEY WERE BEFORE the merge (snapshots); the live pieces after the merge equal their snapshots (image
                  bytes, affines, dim_info, extension, lookups) and merging them a second time gives the same wrapper.
The image-half theorems (Props/C05img.v, agent of coq/Wrapper) are checked here too."""
import copy, itertools

from vlib.coqlit import cnat, cbool, clist, cpair
from props import extlib, imglib

ID = 'C05'
COQ_PROPS = ['Props/C05.v', 'Props/C05img.v', 'Props/C05total.v']
THEOREMS = ['C05w_split_merge', 'C05_split_all_total', 'C05_split_merge_total', 'C05_split_merge_mod_none_total', 'C05_chain_total',
            'C05_canonical_unique', 'C05_canonical_unique_key', 'C05_canonical_unique_strict',
            'C05_split_merge', 'C05_split_merge_mod_none', 'C05_split_all_defined',
            'C05_split_merge_trailing1_refuted', 'C05_split_merge_no_slice_dim_refuted',
            'C05_merge_split', 'C05_merge_split_same_normal', 'C05_chain', 'C05_chain_sound',
            'C05img_split_merge', 'C05img_merge_split']
ALLOWED_AXIOMS = []
TABLES = ['t_classes', 't_ext_tol']
RULE = ('see the parts: canonical extensions with one or more keys per value pattern, split along every admissible axis and '
        'merged back; chains of such round trips on real images; non-trivial = some key in a varying class')
TRUSTED_BASE = ['hand-written Gallina model coq/Ext/Model.v of get_subset / from_sequence / _insert* / _simplify (tied to the code by '
                'the ext-roundtrip correspondence here and by the C03 / C04 / C06 correspondences, and by the generated class tables)',
                'coq/Wrapper/Model.v: hand model of NiftiWrapper.split / from_sequence (tied by the chains correspondence here and by '
                'the imgmerge / imgsplit / imgrt parts); its two sqrt normalisations are instantiated with exact rational square roots',
                'np.allclose on slice normals modelled exactly in Q; affines are dyadic and exact in float32']
ASSUMPTIONS = ['values: Python == coincides with structural equality (generators never mix 1 / 1.0 / True, no NaN)',
               'domain of C05_split_merge / C05_chain: valid, nondegenerate (no key in a varying class of multiplicity 1), canonical in '
               'the literal sense (every key at its simplest class, no key that is None everywhere), base dictionaries tight, NO '
               'trailing singleton dimension (get_subset trims them: C05_split_merge_trailing1_refuted = open finding N12, corpus case; also N2/N4), a slice '
               'dimension is recorded (5-D time round trips raise TypeError otherwise: C05_split_merge_no_slice_dim_refuted = open '
               'finding N3, corpus case), axis = slice dim, 3 or 4 with at least two positions; from_sequence gets the parent affine / slice dim or '
               'leaves them out',
               'extensions that carry all-None keys as the global constant None come back identical up to the representation of those '
               'keys (C05_split_merge_mod_none)',
               'totality of a single get_subset is NOT proved (C04): C05_split_merge takes the pieces as given, C05_chain reduces the '
               'success of a whole chain to the success of get_subset on the STARTING extension; the correspondence + oracle check '
               'that it never raises on the generated domain',
               'key order of the result is not modelled (compared as unordered maps, as DcmMetaExtension.__eq__ does)',
               'image level: nibabel header book-keeping is not modelled (see imglib.ASSUMPTIONS); chains use images whose extension '
               'matches the image (same shape, slice dim_info = extension slice dim, same affine)']

# ------------------------------------------------------------------------------------------------ extension level

SIG_N12 = 'ext-rt/4D-trailing1/slice/wrong-value'      # open: property=C05 (trailing singleton dim lost by split -> merge)
SIG_N3 = 'ext-rt/5D/time/TypeError'                    # open: property=C05 (no slice dimension, 5-D, along time)

EXT_PATTERNS = ['const', 'vec', 'time', 'vol', 'slice', 'slice_time', 'irregular', 'none_heavy', 'const_none_some', 'late_change']


def rt_dims(E):
    """The axes of the property with at least two positions."""
    sh, sd = E['shape'], E['sdim']
    out = []
    if sd is not None and sh[sd] >= 2:
        out.append(sd)
    for d in (3, 4):
        if d < len(sh) and sh[d] >= 2:
            out.append(d)
    return out


def gen_canonical_ext(rng, tier, shape=None, sdim=None, aff=None, nkeys=None):
    """Canonical (widen = 0), nondegenerate, with a slice dimension, no trailing singleton dim; one key per pattern drawn,
    list-valued keys included."""
    if shape is None:
        while True:
            shape, sdim = extlib.gen_shape(rng, tier, ndim=rng.choice([3, 4, 4, 5, 5, 5]), sdim=rng.choice([0, 1, 2]))
            if rt_dims({'shape': shape, 'sdim': sdim}):
                break
    aff = aff or extlib.gen_affine(rng)
    d = extlib.dims({'shape': shape, 'sdim': sdim})
    ents = {}
    nkeys = nkeys or rng.randint(2, 6)
    for k in rng.sample(extlib.KEYNAMES, nkeys):
        kind = rng.choice(['int', 'int', 'str', 'float', 'list', 'list', 'nested', 'bool'])
        f = extlib.gen_fn(rng, d, rng.choice(EXT_PATTERNS), alphabet=extlib.gen_alphabet(rng, kind))
        e = extlib.encode(rng, shape, sdim, f, 0.0)
        if e is not None:
            ents[k] = e
    return extlib.mk_E(shape, sdim, aff, ents)


def is_canonical_E(E):
    d = extlib.dims(E)
    for k, c, vs in E['entries']:
        f = (lambda kk: (lambda p: extlib.den(E, kk, p)))(k)
        if extlib.canon_class(E['shape'], d, f) != c:
            return False
        if all(f(p) is None for p in extlib.grid(d)):
            return False
    return extlib.is_nondegenerate(E)


def sys_axis_cases():
    """extlib.systematic_merge_cases() restricted to the axes of this property (slice / time / vector)."""
    return [c for c in extlib.systematic_merge_cases()
            if extlib.merge_axis_kind(c['dim'], c['exts'][0]['sdim']) is not None and c['exts'][0]['sdim'] is not None]


def merged_truth(mc):
    """The CANONICAL extension that merging the inputs of merge case mc must give, built from the generator's values only:
    position i on the merge axis reads input i (documented layout, extlib.den), every key encoded at its simplest class.
    None when the result leaves the domain (trailing singleton shape) or holds no key."""
    import random
    exts, dim = mc['exts'], mc['dim']
    E0 = exts[0]
    sd = E0['sdim']
    ax = extlib.merge_axis_kind(dim, sd)
    sh = list(E0['shape'])
    while len(sh) <= dim:
        sh.append(1)
    sh[dim] = len(exts)
    if extlib.trailing1(sh):
        return None
    d_out = extlib.dims({'shape': sh, 'sdim': sd})
    ents = {}
    for k in extlib.keys_of(*exts):
        f = {}
        for p in extlib.grid(d_out):
            q = list(p)
            i = q[ax]
            q[ax] = 0
            f[p] = copy.deepcopy(extlib.den(exts[i], k, tuple(q)))
        e = extlib.encode(random.Random(0), sh, sd, f, 0.0)
        if e is not None:
            ents[k] = e
    if not ents:
        return None
    return extlib.mk_E(sh, sd, copy.deepcopy(E0['aff']), ents)


def sys_roundtrip_cases():
    """DETERMINISTIC block: the merged truth of every systematic merge case, round-tripped along the SAME dim.  Present in
    every seed: every (axis kind x dimensionality x class x value pattern) cell.  Identical extensions are kept once."""
    out, seen = [], set()
    for mc in sys_axis_cases():
        E = merged_truth(mc)
        if E is None or mc['dim'] not in rt_dims(E):
            continue
        key = repr((E['shape'], E['sdim'], E['entries'], mc['dim']))
        if key in seen:
            continue
        seen.add(key)
        out.append({'kind': 'sysrt/' + '/'.join(mc['kind'].split('/')[1:3] + [E['entries'][0][1]]), 'ext': E, 'dim': mc['dim'],
                    'with_aff': len(out) % 2 == 0, 'with_sd': len(out) % 3 == 0, 'from': mc['kind']})
    return out


def _no_timeout(e):
    """The driver's per-case alarm must never be swallowed by a broad handler (it derives from BaseException in newer
    drivers; this keeps older ones honest too)."""
    if type(e).__name__ == 'CaseTimeout':
        raise e


def _err_obs(e, stage):
    name = type(e).__name__
    if name == 'ValueError' and str(e).startswith('abs:'):
        return {'err': 'ECrash', 'exc': 'Abstraction', 'msg': str(e), 'stage': stage}
    return {'err': extlib.ERRMAP.get(name, 'ECrash'), 'exc': name, 'msg': str(e)[:200], 'stage': stage}


def snapshot_ext(x):
    """Everything of an extension that a later call must leave alone, in plain (deep-copied) form: the abstraction, the
    serialised JSON PARSED back into a map (dictionary order and the exact text are not part of the property), per key
    (values, class) through get_values_and_class, and the verdict of check_valid."""
    import json
    per_key = {}
    for k in sorted(x.get_keys()):
        v, c = x.get_values_and_class(k)
        per_key[k] = [copy.deepcopy(extlib._plain(v)), list(c) if c is not None else None]
    try:
        x.check_valid()
        valid = True
    except Exception as e:      # noqa: BLE001
        _no_timeout(e)
        valid = False
    try:
        js = json.loads(x.to_json())
    except Exception as e:      # noqa: BLE001  (to_json refuses an extension that check_valid rejects)
        _no_timeout(e)
        js = 'exc:' + type(e).__name__
    return {'abs': extlib.ext_to_json(x), 'json': js, 'per_key': per_key, 'valid': valid}


def run_ext_roundtrip(case):
    """Observation: the merged extension, or {'err', 'exc', 'stage'} where stage names the operation that raised
    ('split' = get_subset, 'merge' = from_sequence, 'observe' = reading the result back)."""
    np, dcmmeta = extlib._imports()
    E, dim = case['ext'], case['dim']
    stage = 'build'
    try:
        ext = extlib.build_ext(E)
        before = extlib.ext_to_json(ext)
        stage = 'split'
        pieces = [ext.get_subset(dim, i) for i in range(E['shape'][dim])]
        stage = 'observe'
        snaps = [snapshot_ext(p) for p in pieces]             # BEFORE the merge
        aff = np.array(E['aff'], dtype=float) if case['with_aff'] else None
        sd = E['sdim'] if case['with_sd'] else None
        stage = 'merge'
        merged = dcmmeta.DcmMetaExtension.from_sequence(pieces, dim, aff, sd)
        stage = 'observe'
        out = {'ext': extlib.ext_to_json(merged), 'input_untouched': extlib.ext_to_json(ext) == before,
               'piece_shapes': [[int(x) for x in p.shape] for p in pieces]}
    except Exception as e:          # noqa: BLE001  (every exception class is an observation here)
        _no_timeout(e)
        return _err_obs(e, stage)
    # (b) the live inputs after the merge against their snapshots
    live = []
    for p in pieces:
        try:
            live.append(snapshot_ext(p))
        except Exception as e:      # noqa: BLE001  (an input damaged so badly that it cannot be read back)
            _no_timeout(e)
            live.append({'valid': False, 'unreadable': type(e).__name__})
    out['pieces_changed'] = [i for i, (a, b) in enumerate(zip(snaps, live)) if a != b]
    out['pieces_invalid'] = [i for i, b in enumerate(live) if not b['valid']]
    # (c) the same piece objects merged a second time
    try:
        merged2 = dcmmeta.DcmMetaExtension.from_sequence(pieces, dim, aff, sd)
        out['second'] = {'same': extlib.ext_to_json(merged2) == out['ext'] and bool(merged2 == merged)}
    except Exception as e:          # noqa: BLE001
        _no_timeout(e)
        out['second'] = {'exc': type(e).__name__, 'msg': str(e)[:200]}
    # (a) merge then split: the pieces of the merged extension against the SNAPSHOTS of the inputs
    try:
        again = [snapshot_ext(merged.get_subset(dim, i)) for i in range(len(pieces))]
        out['resplit_diff'] = [i for i, (a, b) in enumerate(zip(snaps, again))
                               if (a['abs'], a['per_key'], a['valid']) != (b['abs'], b['per_key'], b['valid'])]
    except Exception as e:          # noqa: BLE001
        _no_timeout(e)
        out['resplit_exc'] = '%s: %s' % (type(e).__name__, str(e)[:200])
    try:
        out['eq'] = bool(merged == ext) and bool(ext == merged)
        per_key = {}
        for k in sorted(set(ext.get_keys()) | set(merged.get_keys())):
            v0, c0 = ext.get_values_and_class(k)
            v1, c1 = merged.get_values_and_class(k)
            per_key[k] = bool(c0 == c1 and v0 == v1 and type(v0) is type(v1))
        out['per_key'] = per_key
        out['keys_eq'] = sorted(ext.get_keys()) == sorted(merged.get_keys())
    except Exception as e:          # noqa: BLE001
        _no_timeout(e)
        return _err_obs(e, 'observe')
    try:
        merged.check_valid()
        out['valid'] = True
    except Exception as e:          # noqa: BLE001
        _no_timeout(e)
        out['valid'] = False
    return out


def input_messages(obs, what='from_sequence'):
    """Clauses about the INPUTS of a merge (shared by all parts), every one evaluated: untouched, still valid, mergeable
    again to the same result, and found again when the merged object is split.  -> [(tag, text)]"""
    out = []
    if obs.get('pieces_changed'):
        out.append(('input-modified', '%s modified its input %d (snapshot taken before the merge differs from the live object '
                    'afterwards)' % (what, obs['pieces_changed'][0])))
    if obs.get('pieces_invalid'):
        out.append(('input-invalid', 'input %d fails check_valid after the merge' % obs['pieces_invalid'][0]))
    sec = obs.get('second')
    if sec is not None:
        if 'exc' in sec:
            out.append(('second-merge-raised', 'merging the same pieces a second time raised %s: %s' % (sec['exc'], sec.get('msg'))))
        elif not sec.get('same'):
            out.append(('second-merge-differs', 'merging the same pieces a second time gave a different result'))
    if 'resplit_exc' in obs:
        out.append(('resplit-raised', 'splitting the merged object raised %s' % obs['resplit_exc']))
    if obs.get('resplit_diff'):
        out.append(('resplit-differs', 'merge then split: piece %d differs from the input as it was before the merge'
                    % obs['resplit_diff'][0]))
    return out


def judge_inputs(obs, what='from_sequence'):
    m = input_messages(obs, what)
    return '[%s] %s' % m[0] if m else None


def ext_rt_to_coq(case, obs):
    return '(mk_ert_case %s %s %s %s %s)' % (extlib.ext_to_coq(case['ext']), cnat(case['dim']), cbool(case['with_aff']),
                                             cbool(case['with_sd']), extlib.obs_to_coq(obs))


def axis_name(E, dim):
    return 'slice' if dim == E['sdim'] else ('time' if dim == 3 else 'vector')


def trimmed(sh):
    sh = list(sh)
    while len(sh) > 3 and sh[-1] == 1:
        sh = sh[:-1]
    return sh


def n12_mechanism(case, obs):
    """Open finding N12, re-derived: the shape has a trailing singleton dimension, the split is along the slice axis, nothing
    raised, and the merged extension is EXACTLY the original with the trailing singleton axes lost: shape = original shape
    without them, same slice dim and affine, same key set, and every key reads the same value at every grid position
    (the lost axes have extent 1, so the grids coincide)."""
    E, dim = case['ext'], case['dim']
    sh = E['shape']
    if not (extlib.trailing1(sh) and E['sdim'] is not None and dim == E['sdim'] and 'ext' in obs):
        return False
    R = obs['ext']
    if R['shape'] != trimmed(sh) or R['sdim'] != E['sdim'] or R['aff'] != E['aff']:
        return False
    if sorted(k for k, _, _ in R['entries']) != sorted(k for k, _, _ in E['entries']):
        return False
    dE, dR = extlib.dims(E), extlib.dims(R)
    if dE != dR:
        return False
    for k in extlib.keys_of(E, R):
        for p in extlib.grid(dE):
            if extlib.den(R, k, p) != extlib.den(E, k, p):
                return False
    return True


def needs_global_slices(E, dim):
    """Does merging the pieces of E along dim (3 or 4) send some key through ('global','slices')?  From the documented
    merge rules and the generator's values only: along time in 5-D every key that is not the same constant in all pieces;
    along the vector axis every key that varies inside a piece (a constant that merely differs between pieces becomes
    ('vector','samples'))."""
    sh = E['shape']
    d = extlib.dims(E)
    ax = extlib.merge_axis_kind(dim, E['sdim'])
    if ax is None or dim >= len(sh):
        return False
    for k, _, _ in E['entries']:
        tabs = []
        for i in range(d[ax]):
            tab = []
            for p in extlib.grid(d):
                if p[ax] == 0:
                    q = list(p)
                    q[ax] = i
                    tab.append(extlib.den(E, k, tuple(q)))
            tabs.append(tab)
        varying_inside = any(any(x != t[0] for x in t) for t in tabs)
        differ = any(t != tabs[0] for t in tabs)
        if dim == 3 and len(sh) == 5 and (varying_inside or differ):
            return True
        if dim == 4 and varying_inside:
            return True
    return False


def n3_mechanism(case, obs):
    """Open finding N3 seen through the round trip, re-derived: no slice dimension, the axis is time or vector, every
    get_subset succeeded, from_sequence (and not another operation) raised TypeError, and some key has to pass through
    ('global','slices') in that merge."""
    E, dim = case['ext'], case['dim']
    return (E['sdim'] is None and dim in (3, 4) and obs.get('exc') == 'TypeError' and obs.get('stage') == 'merge'
            and needs_global_slices(E, dim))


def explained(case, obs):
    """tag -> signature of the open finding that explains a message with this tag in this case."""
    if n12_mechanism(case, obs):
        # the lost axis changes the shape, hence __eq__ and the abstraction (base dictionaries); nothing else
        return {'shape': SIG_N12, 'eq': SIG_N12, 'abstraction': SIG_N12}
    if n3_mechanism(case, obs):
        return {'raised': SIG_N3}
    return {}


def ext_rt_messages(case, obs):
    """Every clause of the property on the implementation alone -> [(tag, text)] (all evaluated)."""
    E, dim = case['ext'], case['dim']
    if 'err' in obs:
        return [('raised', '%s raised %s during the round trip along %d: %s' % (
            {'split': 'get_subset', 'merge': 'from_sequence'}.get(obs.get('stage'), obs.get('stage')), obs.get('exc'), dim, obs.get('msg')))]
    out = []
    R = obs['ext']
    if R['shape'] != E['shape']:
        out.append(('shape', 'merged extension has shape %r, original %r' % (R['shape'], E['shape'])))
    if R['sdim'] != E['sdim']:
        out.append(('slice-dim', 'merged extension has slice dim %r, original %r' % (R['sdim'], E['sdim'])))
    if R['aff'] != E['aff']:
        out.append(('affine', 'merged extension has another affine'))
    if not obs['eq']:
        out.append(('eq', 'merged extension != original (DcmMetaExtension.__eq__)'))
    if not obs['keys_eq']:
        out.append(('keys', 'merged extension has another key set'))
    bad = [k for k, ok in obs['per_key'].items() if not ok]
    if bad:
        a, b = extlib.entry_map(E).get(bad[0]), extlib.entry_map(R).get(bad[0])
        out.append(('key-value', 'key %r: original %r, after the round trip %r' % (bad[0], a, b)))
    if R['entries'] != E['entries']:
        out.append(('entries', 'merged extension stores other (class, values) than the original'))
    if (R['ht'], R['hv']) != (E['ht'], E['hv']):
        out.append(('abstraction', 'merged extension has other base dictionaries (time / vector) than the original'))
    if not obs.get('valid', True):
        out.append(('invalid', 'merged extension fails check_valid'))
    if obs.get('input_untouched') is False:
        out.append(('original-modified', 'the round trip modified the original extension'))
    return out + input_messages(obs)


def oracle_ext_roundtrip(case, obs):
    """Evaluate every clause; a message that no open finding explains wins."""
    if 'crash' in obs:
        return '[harness] %s %s' % (obs.get('crash'), obs.get('msg'))
    msgs = ext_rt_messages(case, obs)
    if not msgs:
        return None
    known = explained(case, obs)
    for tag, text in msgs:
        if tag not in known:
            return '[%s] %s' % (tag, text)
    return '[%s] %s' % msgs[0]


def _first(msgs):
    return '[%s] %s' % msgs[0] if msgs else None


def msg_tag(msg):
    return msg[1:msg.index(']')] if msg and msg.startswith('[') and ']' in msg else 'untagged'


class ExtRoundtripPart:
    NAME = 'extrt'
    CORR_REQUIRE = ('From DV Require Import Common.Jv Ext.Types Ext.Model Ext.Corr Orient.Model Wrapper.Model Wrapper.Corr '
                    'Ext.ProofsRoundtrip Ext.ProofsRoundtripCorr.')
    CORR_CASE_TYPE = 'ert_case'
    CORR_CHECK = 'check_ert'
    CORR_SHOW = 'show_ert'
    SHARD = 60
    IMPL_TIMEOUT = 30
    RULE = ('canonical nondegenerate 3-5-D extensions (S,T,V in 1..3 quick / 1..4 thorough, >= 2 on the split axis, slice axis 0/1/2, '
            '(X,Y,Z,1,V) included, never a trailing singleton dim), 2-6 keys over the patterns per-vector-constant, per-volume, '
            'per-time, per-slice repeating, slice x time, irregular, None-heavy, constant-with-holes, late-change, with int / str / '
            'float / bool / list / nested values; EVERY admissible axis (slice dim, 3, 4) of each extension, from_sequence with and '
            'without the affine / slice_dim arguments; plus a forced family of 3-D pieces carrying per-slice-varying keys (4-D along '
            'time, (X,Y,Z,1,V) along the vector axis); inputs of every merge are snapshot before it and compared afterwards, merged '
            'twice, and compared with the re-split pieces; non-trivial = some key in a varying class')

    @staticmethod
    def gen_cases(rng, tier):
        n = 180 if tier == 'quick' else 3000
        cases = sys_roundtrip_cases()          # deterministic, every seed
        for _ in range(n):
            E = gen_canonical_ext(rng, tier)
            for dim in rt_dims(E):
                cases.append({'kind': 'ext-rt/%dD/%s' % (len(E['shape']), 'slice' if dim == E['sdim'] else ('time' if dim == 3 else 'vector')),
                              'ext': E, 'dim': dim, 'with_aff': rng.random() < 0.5, 'with_sd': rng.random() < 0.5})
        # the (X,Y,Z,1,V) family explicitly (time axis singular: the F4 neighbourhood) and 5-D with T,V >= 2 along time
        for _ in range(25 if tier == 'quick' else 300):
            sd = rng.choice([0, 1, 2])
            sh = [rng.randint(1, 2) for _ in range(3)] + [rng.choice([1, 2, 3]), rng.randint(2, 3)]
            sh[sd] = rng.randint(2, 3)
            E = gen_canonical_ext(rng, tier, shape=sh, sdim=sd)
            for dim in rt_dims(E):
                cases.append({'kind': 'ext-rt/5D-forced/%s' % ('slice' if dim == sd else ('time' if dim == 3 else 'vector')),
                              'ext': E, 'dim': dim, 'with_aff': rng.random() < 0.5, 'with_sd': rng.random() < 0.5})
        # 3-D pieces that carry per-slice-varying meta data: 4-D along time, (X,Y,Z,1,V) along the vector axis
        for _ in range(30 if tier == 'quick' else 400):
            sd = rng.choice([0, 1, 2])
            sh = [rng.randint(1, 2) for _ in range(3)]
            sh[sd] = rng.randint(2, 3)
            dim = rng.choice([3, 4])
            sh += [rng.randint(2, 4)] if dim == 3 else [1, rng.randint(2, 4)]
            d = extlib.dims({'shape': sh, 'sdim': sd})
            ents = {}
            for k in rng.sample(extlib.KEYNAMES, rng.randint(2, 4)):
                f = extlib.gen_fn(rng, d, rng.choice(['slice', 'slice', 'slice_time', 'irregular', 'late_change', 'vol']),
                                  alphabet=extlib.gen_alphabet(rng, rng.choice(['int', 'str', 'list'])))
                e = extlib.encode(rng, sh, sd, f, 0.0)
                if e is not None:
                    ents[k] = e
            E = extlib.mk_E(sh, sd, extlib.gen_affine(rng), ents)
            cases.append({'kind': 'ext-rt/3D-pieces/%s' % ('time' if dim == 3 else 'vector'),
                          'ext': E, 'dim': dim, 'with_aff': rng.random() < 0.5, 'with_sd': rng.random() < 0.5})
        return cases

    run_impl = staticmethod(run_ext_roundtrip)
    coq_case = staticmethod(ext_rt_to_coq)
    oracle = staticmethod(oracle_ext_roundtrip)

    @staticmethod
    def signature(case, obs, msg):
        E = case['ext']
        tag = msg_tag(msg)
        known = explained(case, obs)          # the mechanism of an open finding, re-derived from case + observation
        if tag in known:
            return known[tag]
        # everything else: the violated clause (+ the raising operation and exception class); cannot collide with the above
        extra = '/%s/exc:%s' % (obs.get('stage'), obs.get('exc')) if tag == 'raised' else ''
        return 'ext-rt/%s/%s/%s%s' % (extlib.shape_family(E['shape']), axis_name(E, case['dim']), tag, extra)

    @staticmethod
    def nontrivial(case, obs):
        return any(c != 'GConst' for _, c, _ in case['ext']['entries'])

    @staticmethod
    def shrink(case):
        for F in extlib.shrink_E(case['ext']):
            c = dict(case)
            c['ext'] = F
            yield c


# ------------------------------------------------------------------------------------------------ extension level: merge then split

def run_merge_split(case):
    """from_sequence(inputs, dim) then get_subset(dim, i) for every i.  Observation: the pieces (or the first exception with
    the operation that raised it), plus the clauses about the inputs (snapshot before / live after, second merge)."""
    np, dcmmeta = extlib._imports()
    stage = 'build'
    try:
        exts = [extlib.build_ext(E) for E in case['exts']]
        snaps = [snapshot_ext(x) for x in exts]               # BEFORE the merge
        stage = 'merge'
        merged = dcmmeta.DcmMetaExtension.from_sequence(exts, case['dim'])
        stage = 'split'
        pieces = [merged.get_subset(case['dim'], i) for i in range(len(exts))]
        stage = 'observe'
        out = {'pieces': [extlib.ext_to_json(p) for p in pieces], 'merged': extlib.ext_to_json(merged)}
        out['pieces_valid'] = [snapshot_ext(p)['valid'] for p in pieces]
    except Exception as e:          # noqa: BLE001
        _no_timeout(e)
        return _err_obs(e, stage)
    live = []
    for x in exts:
        try:
            live.append(snapshot_ext(x))
        except Exception as e:      # noqa: BLE001
            _no_timeout(e)
            live.append({'valid': False, 'unreadable': type(e).__name__})
    out['pieces_changed'] = [i for i, (a, b) in enumerate(zip(snaps, live)) if a != b]
    out['pieces_invalid'] = [i for i, b in enumerate(live) if not b['valid']]
    try:
        m2 = dcmmeta.DcmMetaExtension.from_sequence(exts, case['dim'])
        out['second'] = {'same': extlib.ext_to_json(m2) == out['merged']}
    except Exception as e:          # noqa: BLE001
        _no_timeout(e)
        out['second'] = {'exc': type(e).__name__, 'msg': str(e)[:200]}
    return out


def merge_split_to_coq(case, obs):
    o = '(Ok %s)' % clist(extlib.ext_to_coq(p) for p in obs['pieces']) if 'pieces' in obs else '(Err %s)' % obs.get('err', 'ECrash')
    return '(mk_ems_case %s %s %s)' % (clist(extlib.ext_to_coq(E) for E in case['exts']), cnat(case['dim']), o)


def merge_split_messages(case, obs):
    exts, dim = case['exts'], case['dim']
    if 'err' in obs:
        return [('raised', '%s raised %s in merge along %d then split: %s' % (
            {'split': 'get_subset', 'merge': 'from_sequence'}.get(obs.get('stage'), obs.get('stage')), obs.get('exc'), dim, obs.get('msg')))]
    out = []
    P = obs['pieces']
    if len(P) != len(exts):
        return [('count', '%d inputs merged, %d pieces' % (len(exts), len(P)))]
    for i, (X, Pi) in enumerate(zip(exts, P)):
        if Pi['shape'] != trimmed(X['shape']):
            out.append(('shape', 'piece %d has shape %r, input %d has %r' % (i, Pi['shape'], i, X['shape'])))
            continue
        if Pi['sdim'] != X['sdim']:
            out.append(('slice-dim', 'piece %d has slice dim %r, input %r' % (i, Pi['sdim'], X['sdim'])))
        dP = extlib.dims(Pi)
        bad = None
        for k in extlib.keys_of(X, Pi):
            for p in extlib.grid(dP):
                if extlib.den(Pi, k, p) != extlib.den(X, k, p):
                    bad = (k, p, extlib.den(Pi, k, p), extlib.den(X, k, p))
                    break
            if bad:
                break
        if bad:
            out.append(('lookup', 'merge then split: piece %d key %r at %r reads %r, input %d reads %r' % ((i,) + bad[:3] + (i, bad[3]))))
        if not obs['pieces_valid'][i]:
            out.append(('invalid', 'piece %d fails check_valid' % i))
    return out + input_messages(obs)


def oracle_merge_split(case, obs):
    if 'crash' in obs:
        return '[harness] %s %s' % (obs.get('crash'), obs.get('msg'))
    return _first(merge_split_messages(case, obs))


class MergeSplitPart:
    NAME = 'mergesplit'
    CORR_REQUIRE = ('From DV Require Import Common.Jv Ext.Types Ext.Model Ext.Corr Orient.Model Wrapper.Model Wrapper.Corr '
                    'Ext.ProofsRoundtrip Ext.ProofsRoundtripCorr.')
    CORR_CASE_TYPE = 'ems_case'
    CORR_CHECK = 'check_ems'
    CORR_SHOW = 'show_ems'
    SHARD = 80
    IMPL_TIMEOUT = 30
    RULE = ('the DETERMINISTIC block extlib.systematic_merge_cases() restricted to the slice / time / vector axes (axis kind x input '
            'dimensionality 3-5 incl. (X,Y,Z,1,V) x every valid nondegenerate class of the key in the inputs, canonical or not, x five '
            'value patterns; every seed contains all of them) plus random merge cases of the C03 generator on those axes with equal '
            'slice normals: from_sequence, then get_subset for every index; every piece must read, at every position, what the input '
            'at that place reads (generator values, documented layout), have its shape and slice dim; inputs snapshot before the merge '
            'and compared afterwards, merged twice; non-trivial = some input key in a varying class')

    @staticmethod
    def gen_cases(rng, tier):
        cases = [dict(c, aff=None, sdim_arg=None) for c in sys_axis_cases()]
        n = 60 if tier == 'quick' else 1200
        while n > 0:
            c = extlib.gen_merge_case(rng, tier, dim=rng.choice([0, 1, 2, 3, 3, 4, 4]))
            E0 = c['exts'][0]
            out_sh = list(E0['shape']) + [1] * (c['dim'] + 1 - len(E0['shape']))
            if (E0['sdim'] is None or extlib.merge_axis_kind(c['dim'], E0['sdim']) is None or extlib.trailing1(E0['shape'])
                    or extlib.trailing1(out_sh[:c['dim']] + [2] + out_sh[c['dim'] + 1:])
                    or any(E['aff'] != E0['aff'] or E['shape'] != E0['shape'] for E in c['exts'])
                    or not all(extlib.is_nondegenerate(E) for E in c['exts'])
                    or (c['dim'] < len(E0['shape']) and E0['shape'][c['dim']] != 1)):
                continue
            cases.append({'kind': 'ms/' + c['kind'], 'exts': c['exts'], 'dim': c['dim']})
            n -= 1
        return cases

    run_impl = staticmethod(run_merge_split)
    coq_case = staticmethod(merge_split_to_coq)
    oracle = staticmethod(oracle_merge_split)

    @staticmethod
    def signature(case, obs, msg):
        extra = '/%s/exc:%s' % (obs.get('stage'), obs.get('exc')) if 'err' in obs else ''
        return 'ext-ms/%s%s' % (msg_tag(msg), extra)

    @staticmethod
    def nontrivial(case, obs):
        return any(c != 'GConst' for E in case['exts'] for _, c, _ in E['entries'])

    @staticmethod
    def shrink(case):
        if len(case['exts']) > 2:
            for i in range(len(case['exts'])):
                c = copy.deepcopy(case)
                del c['exts'][i]
                yield c
        for k in extlib.keys_of(*case['exts']):
            c = copy.deepcopy(case)
            for E in c['exts']:
                E['entries'] = [e for e in E['entries'] if e[0] != k]
            yield c


# ------------------------------------------------------------------------------------------------ image level: chains

def gen_chain_wrapper(rng, tier):
    hi = 3 if tier == 'quick' or rng.random() < 0.7 else 4
    nd = rng.choice([3, 4, 4, 5, 5])
    sl = rng.choice([0, 1, 2])
    sh = [rng.randint(1, hi) for _ in range(nd)]
    sh[sl] = rng.randint(2, hi)
    if nd > 3 and sh[-1] == 1:
        sh[-1] = rng.randint(2, hi)
    kind = rng.choice(['diag', 'perm', 'oblique', 'oblique', 'shear'])
    A = imglib.gen_img_affine(rng, kind, keep=sl)
    E = gen_canonical_ext(rng, 'quick', shape=list(sh), sdim=sl, aff=A, nkeys=rng.randint(1, 4))
    return {'img': imglib.mk_I(rng, sh, A, sl, rng.randrange(0, 20) * 1000), 'ext': E}, kind


def gen_chain_case(rng, tier):
    maxlen = 3 if tier == 'quick' else 4
    W, kind = gen_chain_wrapper(rng, tier)
    dims_ok = rt_dims(W['ext'])
    dims = [rng.choice(dims_ok) for _ in range(rng.randint(1, maxlen))]
    return {'kind': 'chain/%dD/len%d' % (len(W['img']['shape']), len(dims)), 'affine': kind, 'w': W, 'dims': dims}


def sys_chain_cases():
    """DETERMINISTIC image-level block: one wrapper per (axis kind, dimensionality, canonical class of the merged key) cell of
    sys_roundtrip_cases(), a single round trip along that axis; affines drawn from a FIXED generator (same in every seed)."""
    import random
    out, seen = [], set()
    for n, c in enumerate(sys_roundtrip_cases()):
        E = c['ext']
        cell = (extlib.merge_axis_kind(c['dim'], E['sdim']), len(E['shape']), E['entries'][0][1], 1 in E['shape'][3:])
        if cell in seen:
            continue
        seen.add(cell)
        r = random.Random(1000 + n)
        kind = ['diag', 'perm', 'oblique', 'shear'][len(out) % 4]
        A = imglib.gen_img_affine(r, kind, keep=E['sdim'])
        X = dict(E, aff=A)
        W = {'img': imglib.mk_I(r, list(E['shape']), A, E['sdim'], 1000 * (len(out) % 20)), 'ext': X}
        out.append({'kind': 'syschain/%dD/%s' % (len(E['shape']), axis_name(E, c['dim'])), 'affine': kind, 'w': W, 'dims': [c['dim']],
                    'from': c['from']})
    return out


def gen_nested_case(rng, tier):
    """split along a, split EVERY piece along b, merge each back along b, then merge the results along a."""
    while True:
        W, kind = gen_chain_wrapper(rng, tier)
        ok = rt_dims(W['ext'])
        if len(ok) >= 2:
            break
    a, b = rng.sample(ok, 2)
    return {'kind': 'nested/%dD/%s-in-%s' % (len(W['img']['shape']), axis_name(W['ext'], b), axis_name(W['ext'], a)),
            'affine': kind, 'w': W, 'a': a, 'b': b}


def _lookups(w, keys):
    """get_meta of every key at every voxel index (default None), C order."""
    shape = [int(x) for x in w.nii_img.shape]
    out = {}
    for k in keys:
        tab = []
        for idx in itertools.product(*[range(x) for x in shape]):
            try:
                tab.append(extlib._plain(w.get_meta(k, idx, None)))
            except Exception as e:      # noqa: BLE001
                _no_timeout(e)
                tab.append({'__exc__': type(e).__name__})
        out[k] = tab
    return out


def snapshot_w(p, keys):
    """Plain snapshot of a wrapper: image (data bytes, shape, affines, dim_info), extension (snapshot_ext) and every lookup."""
    return {'img': repr(imglib.snapshot(p)[:5]), 'ext': snapshot_ext(p.meta_ext), 'lookups': _lookups(p, keys)}


def _live(pieces, keys):
    live = []
    for p in pieces:
        try:
            live.append(snapshot_w(p, keys))
        except Exception as e:    # noqa: BLE001  (an input damaged so badly that it cannot even be read)
            _no_timeout(e)
            live.append({'img': None, 'ext': {'valid': False}, 'lookups': 'exc:' + type(e).__name__})
    return live


def _merge_observed(NW, pieces, d, keys, step):
    """from_sequence(pieces, d) with the clauses about its inputs: snapshots before, live objects afterwards, second merge."""
    snaps = [snapshot_w(p, keys) for p in pieces]             # BEFORE the merge
    merged = NW.from_sequence(pieces, d)
    step['merged'] = dict(imglib.observe(merged), lookups=_lookups(merged, keys))
    live = _live(pieces, keys)                                # the live inputs AFTER the merge
    step['pieces_changed'] = [i for i, (x, y) in enumerate(zip(snaps, live)) if x != y]
    step['pieces_invalid'] = [i for i, y in enumerate(live) if not y['ext']['valid']]
    try:
        m2 = imglib.observe(NW.from_sequence(pieces, d))      # the same objects merged a second time
        step['second'] = {'same': m2 == imglib.observe(merged)}
    except Exception as e:    # noqa: BLE001
        _no_timeout(e)
        step['second'] = {'exc': type(e).__name__, 'msg': str(e)[:200]}
    return merged, snaps


def run_chain(case):
    np, dcmmeta = extlib._imports()
    NW = dcmmeta.NiftiWrapper
    w = imglib.build_w(case['w'])
    before = imglib.snapshot(w)
    keys = [k for k, _, _ in case['w']['ext']['entries']]
    out = {'in_ext': extlib.ext_to_json(w.meta_ext), 'steps': []}
    cur = w
    try:
        for d in case['dims']:
            step = {}
            out['steps'].append(step)
            pieces = list(cur.split(d))
            step['pieces'] = [dict(imglib.observe(p), lookups=_lookups(p, keys)) for p in pieces]
            merged, _ = _merge_observed(NW, pieces, d, keys, step)
            step['merged_eq'] = bool(merged.meta_ext == w.meta_ext)
            again = list(merged.split(d))
            step['resplit'] = [dict(imglib.observe(p), lookups=_lookups(p, keys)) for p in again]
            cur = merged
    except Exception as e:        # noqa: BLE001  (CaseTimeout is re-raised)
        _no_timeout(e)
        out.update(imglib._err(e))
    out['untouched'] = imglib.snapshot(w) == before
    return out


def run_nested(case):
    np, dcmmeta = extlib._imports()
    NW = dcmmeta.NiftiWrapper
    w = imglib.build_w(case['w'])
    before = imglib.snapshot(w)
    keys = [k for k, _, _ in case['w']['ext']['entries']]
    a, b = case['a'], case['b']
    out = {'in_ext': extlib.ext_to_json(w.meta_ext), 'outer': [], 'inner': []}
    try:
        Pa = list(w.split(a))
        out['outer'] = [dict(imglib.observe(p), lookups=_lookups(p, keys)) for p in Pa]
        snapsA = [snapshot_w(p, keys) for p in Pa]
        P2 = []
        for p in Pa:
            step = {}
            out['inner'].append(step)
            Pb = list(p.split(b))
            step['pieces'] = [dict(imglib.observe(q), lookups=_lookups(q, keys)) for q in Pb]
            p2, _ = _merge_observed(NW, Pb, b, keys, step)
            P2.append(p2)
        liveA = _live(Pa, keys)                               # splitting a piece must leave the piece alone
        out['outer_changed'] = [i for i, (x, y) in enumerate(zip(snapsA, liveA)) if x != y]
        final = {}
        out['final'] = final
        merged, _ = _merge_observed(NW, P2, a, keys, final)
        final['merged_eq'] = bool(merged.meta_ext == w.meta_ext)
    except Exception as e:        # noqa: BLE001  (CaseTimeout is re-raised)
        _no_timeout(e)
        out.update(imglib._err(e))
    out['untouched'] = imglib.snapshot(w) == before
    return out


def chain_to_coq(case, obs):
    if 'crash' in obs or 'in_ext' not in obs:
        raise ValueError('no observation')
    items = []
    for st in obs['steps']:
        if 'merged' in st and 'resplit' in st:
            items.append(cpair(imglib.wobs_to_coq(st['merged']), '(LOk %s)' % clist(imglib.wobs_to_coq(p) for p in st['resplit'])))
        else:
            items.append(cpair('(WErr %s)' % obs.get('err', 'ECrash'), '(LErr %s)' % obs.get('err', 'ECrash')))
    return '(mk_chain_case %s %s %s %s)' % (imglib.w_to_coq(case['w'], obs['in_ext']), clist(cnat(d) for d in case['dims']),
                                            clist(items), cbool(bool(obs['untouched'])))


def nested_to_coq(case, obs):
    if 'crash' in obs or 'in_ext' not in obs:
        raise ValueError('no observation')
    if 'err' in obs or 'final' not in obs or 'merged' not in obs['final']:
        inner, final = '[]', '(WErr %s)' % obs.get('err', 'ECrash')
    else:
        inner = clist(imglib.wobs_to_coq(st['merged']) for st in obs['inner'])
        final = imglib.wobs_to_coq(obs['final']['merged'])
    return '(mk_nested_case %s %s %s %s %s %s)' % (imglib.w_to_coq(case['w'], obs['in_ext']), cnat(case['a']), cnat(case['b']),
                                                  inner, final, cbool(bool(obs['untouched'])))


# ---- generator ground truth for wrappers (nothing below calls the library)

def sub_indices(sh, fixed):
    """The voxel indices of an image of shape sh whose coordinates listed in `fixed` (axis -> value) are pinned, in C order.
    Dropping or keeping singleton axes does not change the C order, so this is the voxel order of the corresponding piece."""
    return [idx for idx in itertools.product(*[range(x) for x in sh]) if all(idx[ax] == v for ax, v in fixed.items())]


def truth_of(W, fixed):
    """What a faithful piece of W (coordinates `fixed` pinned) must contain: shape, voxels, affine, lookups -- from the
    generator's image and extension only (documented layout, extlib.den)."""
    I, E = W['img'], W['ext']
    sh = I['shape']
    idxs = sub_indices(sh, fixed)
    strides = [1] * len(sh)
    for i in range(len(sh) - 2, -1, -1):
        strides[i] = strides[i + 1] * sh[i + 1]
    data = [I['data'][sum(x * y for x, y in zip(idx, strides))] for idx in idxs]
    psh = list(sh)
    for ax in sorted(fixed, reverse=True):
        if ax >= 3 and ax == len(psh) - 1:
            psh = psh[:-1]
        else:
            psh[ax] = 1
    psh = trimmed(psh)
    A = imglib.fmat(I['aff'])
    for ax, v in fixed.items():
        if ax < 3:
            for r in range(3):
                A[r][3] = A[r][3] + v * A[r][ax]
    sd = E['sdim']
    lookups = {}
    for k, _, _ in E['entries']:
        lookups[k] = [extlib.den(E, k, (idx[sd], idx[3] if len(idx) > 3 else 0, idx[4] if len(idx) > 4 else 0)) for idx in idxs]
    return {'shape': psh, 'data': data, 'aff': A, 'lookups': lookups}


def against_truth(O, T, what, slice_dim, check_shape=True):
    """Observed wrapper O (imglib.observe + lookups) against generator truth T -> [(tag, text)]"""
    out = []
    if check_shape and O['shape'] != T['shape']:
        out.append(('shape', '%s: image shape %r, expected %r' % (what, O['shape'], T['shape'])))
    if O['data'] != T['data']:
        out.append(('data', '%s: voxel data are not the expected voxels of the original' % what))
    if imglib.fmat(O['aff']) != T['aff']:
        out.append(('affine', '%s: affine %r, expected %r' % (what, O['aff'], [[float(x) for x in r] for r in T['aff']])))
    if O['slice'] != slice_dim:
        out.append(('slice-dim', '%s: header slice dim %r, original %r' % (what, O['slice'], slice_dim)))
    if O['ext']['shape'] != O['shape'] or O['ext']['sdim'] != slice_dim:
        out.append(('ext-header', '%s: extension shape %r / slice dim %r do not match the image' % (what, O['ext']['shape'], O['ext']['sdim'])))
    for k, tab in T['lookups'].items():
        got = O['lookups'].get(k)
        if got != tab:
            j = [x != y for x, y in zip(got or [], tab)].index(True) if got and len(got) == len(tab) and got != tab else 0
            gv = got[j] if got and j < len(got) else None
            if isinstance(gv, dict) and '__exc__' in gv:
                out.append(('lookup-raised', '%s: get_meta(%r) raised %s at voxel %d' % (what, k, gv['__exc__'], j)))
            else:
                out.append(('lookup', '%s: get_meta(%r) at voxel %d reads %r, the original holds %r there' % (what, k, j, gv, tab[j] if tab else None)))
            break
    return out


def ext_mod_translation(X):
    """An extension without the translation column of its affine: NiftiWrapper.split leaves the parent's affine in the
    extension of a spatially shifted piece, NiftiWrapper.from_sequence writes the image's; the property does not speak
    about it (lookups only use the direction rows)."""
    Y = dict(X)
    Y['aff'] = [list(r[:3]) for r in X['aff'][:3]]
    return Y


def merged_messages(W, M, merged_eq, where):
    """A merged wrapper against the ORIGINAL (generator ground truth)."""
    out = against_truth(M, truth_of(W, {}), '%s: merged image' % where, W['img']['slice'])
    E, X = W['ext'], M['ext']
    if X != E:
        if (X['shape'], X['sdim'], X['aff']) != (E['shape'], E['sdim'], E['aff']):
            out.append(('ext-header', '%s: merged extension header (shape %r, slice dim %r, affine) differs from the original'
                        % (where, X['shape'], X['sdim'])))
        a, b = extlib.entry_map(E), extlib.entry_map(X)
        bad = [k for k in sorted(set(a) | set(b)) if a.get(k) != b.get(k)]
        if bad:
            out.append(('key-value', '%s: key %r: original %r, merged %r' % (where, bad[0], a.get(bad[0]), b.get(bad[0]))))
        elif not out or out[-1][0] != 'ext-header':
            out.append(('abstraction', '%s: merged extension differs from the original' % where))
    if not merged_eq:
        out.append(('eq', '%s: merged extension != original (DcmMetaExtension.__eq__)' % where))
    return out


def resplit_messages(P, Q, where):
    """merge then split: the pieces Q of the merged wrapper against the pieces P observed BEFORE the merge."""
    out = []
    if len(P) != len(Q):
        return [('resplit-count', '%s: %d pieces merged, %d pieces after splitting again' % (where, len(P), len(Q)))]
    for i, (p, q) in enumerate(zip(P, Q)):
        if p['shape'] != q['shape'] or p['data'] != q['data']:
            out.append(('resplit-data', '%s: merge then split: piece %d does not carry the voxels of input %d' % (where, i, i)))
        elif imglib.fmat(p['aff']) != imglib.fmat(q['aff']) or p['slice'] != q['slice']:
            out.append(('resplit-geometry', '%s: merge then split: piece %d has another affine / slice dim than input %d' % (where, i, i)))
        elif p['ext'] != q['ext']:
            out.append(('resplit-ext', "%s: merge then split: the extension of piece %d differs from the input's as it was before "
                        'the merge' % (where, i)))
        elif p['lookups'] != q['lookups']:
            out.append(('resplit-lookup', '%s: merge then split: piece %d answers get_meta differently from input %d' % (where, i, i)))
        if out:
            break
    return out


def chain_messages(case, obs):
    W = case['w']
    sl = W['img']['slice']
    if 'err' in obs:
        return [('raised', 'chain %r raised %s at step %d: %s' % (case['dims'], obs.get('exc'), len(obs['steps']), obs.get('msg')))]
    out = []
    if obs.get('untouched') is False:
        out.append(('original-modified', 'the chain modified the starting image / extension'))
    for n, (d, st) in enumerate(zip(case['dims'], obs['steps'])):
        where = 'step %d (dim %d)' % (n, d)
        for i, p in enumerate(st['pieces']):              # split: every piece against the generator's truth
            out += against_truth(p, truth_of(W, {d: i}), '%s: piece %d' % (where, i), sl)
        out += merged_messages(W, st['merged'], st['merged_eq'], where)
        out += [(t, '%s: %s' % (where, m)) for t, m in input_messages(st, 'NiftiWrapper.from_sequence')]
        out += resplit_messages(st['pieces'], st['resplit'], where)
    if len(obs['steps']) != len(case['dims']):
        out.append(('incomplete', 'chain stopped after %d of %d steps' % (len(obs['steps']), len(case['dims']))))
    return out


def nested_messages(case, obs):
    W, a, b = case['w'], case['a'], case['b']
    sl = W['img']['slice']
    if 'err' in obs:
        return [('raised', 'nested history (split %d, split %d, merge %d, merge %d) raised %s after %d inner merges: %s' % (
            a, b, b, a, obs.get('exc'), len([s for s in obs['inner'] if 'merged' in s]), obs.get('msg')))]
    out = []
    if obs.get('untouched') is False:
        out.append(('original-modified', 'the history modified the starting image / extension'))
    if obs.get('outer_changed'):
        out.append(('input-modified', 'splitting piece %d along %d modified that piece' % (obs['outer_changed'][0], b)))
    for i, (p, st) in enumerate(zip(obs['outer'], obs['inner'])):
        where = 'piece %d of the split along %d' % (i, a)
        Tp = truth_of(W, {a: i})
        out += against_truth(p, Tp, where, sl)
        for j, q in enumerate(st['pieces']):
            out += against_truth(q, truth_of(W, {a: i, b: j}), '%s: sub-piece %d along %d' % (where, j, b), sl)
        M = st['merged']                                   # the piece merged back along b: the piece again
        out += against_truth(M, Tp, '%s merged back along %d' % (where, b), sl)
        if ext_mod_translation(M['ext']) != ext_mod_translation(p['ext']):
            out.append(('inner-ext', '%s: after split along %d and merge the extension differs from the piece\'s' % (where, b)))
        out += [(t, '%s: %s' % (where, m)) for t, m in input_messages(st, 'NiftiWrapper.from_sequence')]
    fin = obs['final']
    out += merged_messages(W, fin['merged'], fin['merged_eq'], 'final merge along %d' % a)
    out += [(t, 'final merge: %s' % m) for t, m in input_messages(fin, 'NiftiWrapper.from_sequence')]
    return out


def oracle_chain(case, obs):
    if 'crash' in obs:
        return '[harness] %s %s' % (obs.get('crash'), obs.get('msg'))
    return _first(chain_messages(case, obs))


def oracle_nested(case, obs):
    if 'crash' in obs:
        return '[harness] %s %s' % (obs.get('crash'), obs.get('msg'))
    return _first(nested_messages(case, obs))


CHAIN_REQ = ('From DV Require Import Common.Jv Ext.Types Ext.Model Ext.Corr Orient.Model Wrapper.Model Wrapper.Corr '
             'Ext.ProofsRoundtrip Ext.ProofsRoundtripCorr.')


class ChainPart:
    NAME = 'chains'
    CORR_REQUIRE = CHAIN_REQ
    CORR_CASE_TYPE = 'chain_case'
    CORR_CHECK = 'check_chain'
    CORR_SHOW = 'show_chain'
    SHARD = 25
    IMPL_TIMEOUT = 60
    RULE = ('in-memory Nifti images (3-5 D, extents 1..3, in thorough also 4, >= 2 on the slice axis, unique voxel values, int16/int32) '
            'with axis-aligned anisotropic, axis-permuted and integer-Pythagorean oblique affines (NON-symmetric 3x3, sheared variants; '
            'dyadic and float32-exact), header slice dim = extension slice dim, canonical extension with 1-4 keys; random chains of '
            'length <= 3 (quick) / <= 4 (thorough) over the slice / time / vector axes with >= 2 positions; every piece, every merged '
            'image and every get_meta answer is compared with the GENERATOR\'s image and extension (documented layout), the inputs of '
            'every merge are snapshot before it, and after every merge the merged image is split again; non-trivial = some key in a '
            'varying class')

    @staticmethod
    def gen_cases(rng, tier):
        return sys_chain_cases() + [gen_chain_case(rng, tier) for _ in range(80 if tier == 'quick' else 1500)]

    run_impl = staticmethod(run_chain)
    coq_case = staticmethod(chain_to_coq)
    oracle = staticmethod(oracle_chain)

    @staticmethod
    def signature(case, obs, msg):
        extra = '/exc:%s' % obs.get('exc') if 'err' in obs else ''
        return 'chain/%s%s' % (msg_tag(msg), extra)

    @staticmethod
    def nontrivial(case, obs):
        return any(c != 'GConst' for _, c, _ in case['w']['ext']['entries'])

    @staticmethod
    def shrink(case):
        if len(case['dims']) > 1:
            for i in range(len(case['dims'])):
                c = copy.deepcopy(case)
                del c['dims'][i]
                yield c
        for F in extlib.shrink_E(case['w']['ext']):
            c = copy.deepcopy(case)
            c['w']['ext'] = F
            yield c


class NestedPart:
    NAME = 'nested'
    CORR_REQUIRE = CHAIN_REQ
    CORR_CASE_TYPE = 'nested_case'
    CORR_CHECK = 'check_nested'
    CORR_SHOW = 'show_nested'
    SHARD = 25
    IMPL_TIMEOUT = 60
    RULE = ('NESTED histories on the images of the chains part: split along a, split EVERY piece along b (a != b, both among slice / '
            'time / vector with >= 2 positions), merge each piece back along b, merge the results along a.  Every piece, sub-piece, '
            're-merged piece and the final image are compared with the generator\'s image and extension (voxels, exact affine incl. '
            'the translation of spatial pieces, slice dim, every get_meta answer); a re-merged piece must carry the piece\'s '
            'extension; the final extension must be the original\'s; inputs of every merge snapshot / compared / merged twice; '
            'non-trivial = some key in a varying class')

    @staticmethod
    def gen_cases(rng, tier):
        return [gen_nested_case(rng, tier) for _ in range(60 if tier == 'quick' else 800)]

    run_impl = staticmethod(run_nested)
    coq_case = staticmethod(nested_to_coq)
    oracle = staticmethod(oracle_nested)

    @staticmethod
    def signature(case, obs, msg):
        extra = '/exc:%s' % obs.get('exc') if 'err' in obs else ''
        return 'nested/%s%s' % (msg_tag(msg), extra)

    @staticmethod
    def nontrivial(case, obs):
        return any(c != 'GConst' for _, c, _ in case['w']['ext']['entries'])

    @staticmethod
    def shrink(case):
        for F in extlib.shrink_E(case['w']['ext']):
            c = copy.deepcopy(case)
            c['w']['ext'] = F
            yield c


PARTS = [ExtRoundtripPart, MergeSplitPart, ChainPart, NestedPart]


# source tie (integrator): the pure helper functions of the extension algebra are TRANSLATED from the Python AST on every run
# (tools/tables/t_src_ext.py -> Generated/T_src_ext.v) and the hand model is proved equal to the translation (Props/SRC.v)
COQ_PROPS = (list(COQ_PROPS) if isinstance(COQ_PROPS, (list, tuple)) else [COQ_PROPS]) + ['Props/SRC.v']
THEOREMS = list(THEOREMS) + ['SRC_valid_classes', 'SRC_class_valid', 'SRC_multiplicity', 'SRC_is_constant', 'SRC_is_repeating', 'SRC_const_period', 'SRC_n_slices']
TABLES = sorted(set(list(globals().get('TABLES') or ['t_classes', 't_ext_tol']) + ['t_src_ext', 't_classes', 't_ext_tol']))

# source tie, stage A (integrator): _global_slice_subset and _get_changed_class (Props/SRCalg.v)
COQ_PROPS = list(COQ_PROPS) + ['Props/SRCalg.v']
THEOREMS = list(THEOREMS) + ['SRC_global_slice_subset', 'SRC_changed_class']

# source tie, stage B (integrator): _change_class / _simplify in state-passing form (Props/SRCstate.v)
COQ_PROPS = list(COQ_PROPS) + ['Props/SRCstate.v']
THEOREMS = list(THEOREMS) + ['SRC_change_class', 'SRC_simplify', 'SRC_to_content_holds']
TABLES = sorted(set(list(TABLES) + ['t_src_state', 't_content', 't_cli']))


# source tie, stage C (integrator): _copy_slice is TRANSLATED in state-passing form and copy_slice_k folded over the source class
# dictionary is proved equal to the translation (Props/SRCsubset.v)
COQ_PROPS = list(COQ_PROPS) + ['Props/SRCsubset.v']
THEOREMS = list(THEOREMS) + ['SRC_copy_slice_step', 'SRC_copy_slice']


# source tie, stage C2 (integrator): _copy_sample TRANSLATED in state-passing form; copy_sample_k folded over the source class dictionary
# is proved equal to the translation (Props/SRCsample.v)
COQ_PROPS = list(COQ_PROPS) + ['Props/SRCsample.v']
THEOREMS = list(THEOREMS) + ['SRC_copy_sample_step', 'SRC_copy_sample']


# source tie, stage C3 (integrator): get_subset as a whole TRANSLATED (class-major) and proved to produce, on to_content e, a content that
# Holds exactly the hand model's get_subset result (Props/SRCgetsubset.v, success-case form)
COQ_PROPS = list(COQ_PROPS) + ['Props/SRCgetsubset.v']
THEOREMS = list(THEOREMS) + ['SRC_get_subset_content', 'SRC_get_subset']


# source tie, stage D (integrator): _insert_slice TRANSLATED in state-passing form and proved a refinement of insert_slice_k for the five
# varying classes (Props/SRCinsert.v); the ('global','const') path is translated and executed against the code only
COQ_PROPS = list(COQ_PROPS) + ['Props/SRCinsert.v']
THEOREMS = list(THEOREMS) + ['SRC_insert_slice', 'SRC_insert_non_slice', 'SRC_insert_sample']


# source tie, stage D (integrator): _insert as a whole TRANSLATED and proved to refine insert_k over all keys (success-case form), and the
# reclassification step refines reclassify_k (Props/SRCinsertall.v)
COQ_PROPS = list(COQ_PROPS) + ['Props/SRCinsertall.v']
THEOREMS = list(THEOREMS) + ['SRC_insert', 'SRC_reclassify']


# source tie, stage D (integrator): from_sequence as a whole TRANSLATED and proved to refine merge_hdr + merge_k over all keys
# (success-case form) (Props/SRCfromseq.v)
COQ_PROPS = list(COQ_PROPS) + ['Props/SRCfromseq.v']
THEOREMS = list(THEOREMS) + ['SRC_from_sequence', 'SRC_merge_hdr']


# source tie, end to end (integrator): Props/SRCtop.v composes the translated get_subset / from_sequence with Link.Abs.to_content:
# for valid nondegenerate extensions the code's method on to_content e returns a content that Holds exactly the hand model's result
COQ_PROPS = list(COQ_PROPS) + ['Props/SRCtop.v']
THEOREMS = list(THEOREMS) + ['SRC_top_get_subset', 'SRC_top_get_subset_valid', 'SRC_sideb_sound', 'SRC_top_from_sequence', 'SRC_top_from_sequence_valid', 'SRC_traj_okb_sound', 'SRC_from_sequence_ext', 'SRC_valid_inputs']
