"""C10  The validity check accepts exactly the extensions that meet the format rules.

Two correspondence parts:
  check  valid contents x {no corruption, every single corruption kind, double corruptions} plus a separate
         malformed stream -> DcmMetaExtension.from_json(json.dumps(content)) accepted / raised (any exception =
         rejected), and get_valid_classes() / get_multiplicity(cl) of the same content.
  gate   image headers carrying 0-3 extensions (valid / corrupted / foreign ecode), make_empty on or off ->
         from_runtime_repr on every candidate content and NiftiWrapper(img, make_empty), in memory or after a
         save/load through a .nii file: adopted extension (position and content) or raised.
The ORACLE is a direct, LITERAL re-statement of the format rules of the property text (independent of the Coq
model and of the source tables; Content/Rules.v valid_rules is the same text in Coq): a violation is an accepted
content that breaks a rule, a rejected content that meets all of them, or a wrapper / loader that adopts content
which the rules (or the implementation's own check_valid on that very content) reject.  Acceptances that break
ONLY a rule check_valid does not enforce (GAP_RULES) carry one of the five signatures of the open finding N14.
"""
import os, json, copy

from vlib.coqlit import cstr, cz, cnat, cbool, clist, cpair, copt, cjv

ID = "C10"
COQ_PROPS = "Props/C10.v"
THEOREMS = ["C10_iff", "C10_reject_outside", "C10_corruptions", "C10_doubles", "C10_gate", "C10_multiplicity",
            "C10_accepts", "C10_gap", "C10_iff_rules",
            "C10_gap_degenerate_refuted", "C10_gap_stale_refuted", "C10_gap_nonpositive_refuted",
            "C10_gap_affine_refuted", "C10_gap_sized_refuted"]
KNOWN_SIG = "check-valid/unchecked-degenerate-or-stale"      # open finding N14 (known-findings.txt): five lines,
                                                             # KNOWN_SIG + '/' + one of GAP_RULES' suffixes
ALLOWED_AXIOMS = []
TABLES = ["t_content"]
RULE = ("check: base contents = valid extensions for EVERY combination of dimensionality (3-D, 4-D, 5-D, (X,Y,Z,1,V)) and "
        "slice dim (None, 0, 1, 2), both versions, 0-3 keys in every classification (unicode / empty / class-name-like "
        "keys; values of every JSON type), extra top-level keys and stale dictionaries of classes that are not "
        "valid for the shape; x no corruption, single corruptions of every kind of the property (drop field / "
        "sub-dictionary; add / remove one or two values at the front, middle or end; duplicate a key into every other "
        "classification; a per-slice key planted with an empty / one-element value in every */slices dictionary; slice dim; shape length; shape entry incl. zero and negative; affine shape and entry type; "
        "version; list replaced by a str/dict of the same len()), random double corruptions plus one double for EVERY "
        "unordered pair of corruption kinds (thorough: exhaustive singles, capped-exhaustive doubles over 32 bases); "
        "separate malformed stream: random sub-values replaced by wild JSON values, kept when inside the model's domain; "
        "plus eleven contents that show the five blind spots of check_valid (open finding N14, five signatures) and "
        "corpus/C10/gap_*.json. gate: 0-3 extensions per header (valid, corrupted in every order, foreign ecode), "
        "make_empty on/off, injected as raw bytes or as runtime object, wrapped in memory or after nibabel save/load of "
        "a .nii file. Compared: raised vs not raised (no exception class), values exactly. non-trivial = the content "
        "holds a key in a valid classification of multiplicity > 1")
TRUSTED_BASE = [
    "Section variable `parse : str -> res jv` in Content/Model.v standing for json.loads (from_json = parse then check_valid); "
    "json itself is the subject of C09",
    "argument `empty` of wrapper_init standing for DcmMetaExtension.make_empty(img.shape, best affine, None, slice dim) "
    "(nibabel header access + make_empty are external to this model); in the correspondence the content the wrapper "
    "ADOPTED (observed through ext.get_content()) is what the model's check_valid is applied to",
    "numpy: np.array(x).shape is modelled by Content.Model.np_shape (scalar -> (), equal-shaped items -> n :: s, ragged -> "
    "ValueError); checked against numpy 2.x on 200000 random nested values of depth <= 4 and by every run's affine corruptions",
    "Python value semantics of Content/PyVal.v (True/False are the ints 1/0, float == by repr, len() of list/str/dict)",
]
ASSUMPTIONS = [
    "jv reading: JObj = dict in insertion order with distinct keys, JNum tok = float with repr tok (no NaN/Infinity); "
    "True/False are read as the ints 1/0 wherever Python does (slice dim, version, shape entries in the model)",
    "TWO rule sets: Content/Rules.v valid_rules = the property's rules taken literally; Content/Spec.v valid_spec = what "
    "check_valid inspects. C10_iff is about valid_spec; C10_accepts (valid_rules -> accepted) needs no domain hypothesis; "
    "C10_gap / C10_gap_*_refuted show that the property's literal iff FAILS on the real code in exactly five situations "
    "(open finding N14): a varying classification of multiplicity 1 "
    "is not inspected; dictionaries of classifications not valid for the shape are ignored (a key may be repeated there); "
    "a non-positive shape entry passes; affine entries need not be numbers; a str/dict whose len() is the multiplicity "
    "passes for a list of values (signatures check-valid/unchecked-degenerate-or-stale/{degenerate,stale,nonpositive,"
    "affine,sized}, each hit by corpus/C10/gap_<name>.json on every run). C10_iff_rules: outside these situations "
    "check_valid is exact for the literal rules",
    "wf_domain (hypothesis of C10_iff / C10_iff_rules): dcmmeta_shape, when it is a list, has non-zero int entries (no "
    "bools, no floats), is not a str/dict, and the entries content[base], content[base][sub] of the classifications valid "
    "for the shape are dicts. Outside it the real code is even laxer: a float shape entry computes float multiplicities, a "
    "str/dict 'shape' is iterated (tuple('abc') has length 3), a zero entry makes a multiplicity 0 (class must be empty), "
    "a classification entry that is a LIST of strings is taken for a key set by the uniqueness loop. The oracle is silent "
    "on float entries / non-list shapes / non-dict entries and the generator does not go there",
    "exception classes are NOT compared (the property says 'rejected'): model vs implementation and the oracle use "
    "raised / not raised, any Exception subclass is a refusal; the model's err values (InvalidExtensionError, KeyError, "
    "TypeError ...) were exact on 1465/1465 cases when they were compared and are kept as documentation only. The model "
    "agrees with the code on accept/reject when shape entries in use are ints/bools (zero and negative included) and "
    "the present classification entries are dicts; other contents are not generated",
    "zero shape entries ARE generated (shape-entry corruption, malformed stream): the model is exact there; a zero entry "
    "is a non-positive dimension for the literal rules, so an accepted one is filed under the nonpositive signature of N14",
    "C10_gap_*_refuted, C10_gate_ext_refuted and SRC_check_valid are statements about the code AS IT IS: repairing a blind "
    "spot of N14 upstream makes the corresponding witness theorem (and the source tie) fail and the matching open: line "
    "disappear - that alarm is intended and means the finding, the model and Content/Spec.v must be updated together",
    "an unknown or missing dcmmeta_version raises KeyError (not InvalidExtensionError): NiftiWrapper then propagates "
    "KeyError instead of skipping the candidate; a ragged affine raises ValueError. Both are rejections",
]

REPO = os.environ.get('DCMSTACK_REPO', '/repo')

# ------------------------------------------------------------------------------------------------
# vocabulary of the FORMAT (doc/DcmMeta_Extension.rst and the property text), not read from the sources

CLASSES = [('global', 'const'), ('global', 'slices'), ('time', 'samples'), ('time', 'slices'),
           ('vector', 'samples'), ('vector', 'slices')]
REQUIRED = {0.5: ['dcmmeta_affine', 'dcmmeta_slice_dim', 'dcmmeta_shape', 'dcmmeta_version', 'global'],
            0.6: ['dcmmeta_affine', 'dcmmeta_reorient_transform', 'dcmmeta_slice_dim', 'dcmmeta_shape',
                  'dcmmeta_version', 'global']}


def is_int(x):
    return isinstance(x, int) and not isinstance(x, bool)


def rule_classes(shape):
    nd = len(shape)
    out = [('global', 'const'), ('global', 'slices')]
    if nd == 4 or (nd == 5 and shape[3] != 1):
        out += [('time', 'samples'), ('time', 'slices')]
    if nd == 5:
        out += [('vector', 'samples'), ('vector', 'slices')]
    return out


def rule_mult(shape, sd, cl):
    """Number of values the format prescribes for one key of classification cl."""
    S = None if sd is None else shape[sd]
    T = shape[3] if len(shape) > 3 else 1
    V = shape[4] if len(shape) > 4 else 1
    base, sub = cl
    if sub == 'const':
        return 1
    if sub == 'samples':
        return T * V if base == 'time' else V
    if S is None:
        return 0
    return {'global': S * T * V, 'time': S, 'vector': S * T}[base]


# Rules that check_valid does not enforce (open finding N14): breaking ONLY such a rule is the known finding.
GAP_RULES = {'degenerate-count': 'degenerate', 'stale-duplicate': 'stale', 'dim-not-positive': 'nonpositive',
             'affine-not-numeric': 'affine', 'sized-non-list': 'sized'}


def rules(c):
    """The format rules LITERALLY as the property states them (Content/Rules.v valid_rules is the same text in Coq).
    Returns (verdict, broken rule): verdict True = meets every rule, False = breaks one, None = the property is
    silent (a value whose reading the format does not define: float slice dim, non-list shape, non-int shape entry,
    non-dict entry of a valid classification).  When several rules are broken, a rule that check_valid enforces is
    reported in preference to one of GAP_RULES."""
    if not isinstance(c, dict):
        return False, 'content-not-a-dict'
    if 'dcmmeta_version' not in c:
        return False, 'required-field'
    ver = c['dcmmeta_version']
    if isinstance(ver, bool) or not isinstance(ver, (int, float)):
        return False, 'version'
    req = None
    for k in REQUIRED:
        if ver == k:
            req = REQUIRED[k]
    if req is None:
        return False, 'version'
    for k in req:
        if k not in c:
            return False, 'required-field'
    gaps = []
    # a 4x4 affine of numbers
    a = c['dcmmeta_affine']
    if not (isinstance(a, list) and len(a) == 4 and all(isinstance(r, list) and len(r) == 4 and
                                                         all(not isinstance(x, list) for x in r) for r in a)):
        return False, 'affine'
    if not all(isinstance(x, (int, float)) for r in a for x in r):
        gaps.append('affine-not-numeric')
    # slice dimension None or 0..2 (True/False are the ints 1/0)
    sd = c['dcmmeta_slice_dim']
    if sd is not None:
        if isinstance(sd, float):
            return None, 'slice-dim-float'
        if not isinstance(sd, int):
            return False, 'slice-dim'
        sd = int(sd)
        if not (0 <= sd <= 2):
            return False, 'slice-dim'
    # 3 to 5 positive dimensions
    sh = c['dcmmeta_shape']
    if not isinstance(sh, list):
        return None, 'shape-not-a-list'
    if not (3 <= len(sh) <= 5):
        return False, 'shape-length'
    if not all(is_int(x) for x in sh):
        return None, 'shape-entries'
    if not all(x >= 1 for x in sh):
        gaps.append('dim-not-positive')
    # the classification dictionaries required for the dimensionality
    vc = rule_classes(sh)
    for b, s in vc:
        if b in c and not isinstance(c[b], dict):
            return None, 'class-entry-not-a-dict'
        if b in c and s in c[b] and not isinstance(c[b][s], dict):
            return None, 'class-entry-not-a-dict'
    for b, s in vc:
        if b not in c or s not in c[b]:
            return False, 'class-dict-missing'
    # exactly `multiplicity` values for every key of every varying classification; no per-slice data without slice dim
    for cl in vc:
        if cl[1] == 'const':
            continue
        d = c[cl[0]][cl[1]]
        m = rule_mult(sh, sd, cl)
        if cl[1] == 'slices' and sd is None:
            if len(d) != 0:
                return False, 'per-slice-data-without-slice-dim'
            continue
        if m < 1:
            continue                      # only with a non-positive dimension (already recorded)
        for k, v in d.items():
            if isinstance(v, list) and len(v) == m:
                continue
            if m == 1:
                gaps.append('degenerate-count')
            elif isinstance(v, (str, dict)) and len(v) == m:
                gaps.append('sized-non-list')
            else:
                return False, 'number-of-values'
    # no key in two classification dictionaries
    seen = {}
    for cl in vc:
        for k in c[cl[0]][cl[1]]:
            if k in seen:
                return False, 'key-in-two-classifications'
            seen[k] = cl
    for cl in CLASSES:
        if cl in vc:
            continue
        d = class_dict(c, *cl)
        for k in (d or {}):
            if k in seen:
                gaps.append('stale-duplicate')
            seen.setdefault(k, cl)
    if gaps:
        return False, gaps[0]
    return True, None


def judge(content, accepted, who, err=None):
    """Oracle verdict on one accept/reject decision: (message, signature) or None."""
    verdict, rule = rules(content)
    if verdict is None:
        return None
    if accepted and not verdict:
        # one signature per blind spot: the suffix is the literal rule that is broken (and nothing else is broken)
        sig = (KNOWN_SIG + '/' + GAP_RULES[rule]) if rule in GAP_RULES else 'accepts-invalid/%s' % rule
        return ('%s ACCEPTED a content that breaks the rule: %s' % (who, rule), sig)
    if not accepted and verdict:
        return ('%s REJECTED (%s) a content that meets every format rule' % (who, err), 'rejects-valid')
    return None


# ------------------------------------------------------------------------------------------------
# domain of the model

def domain_class(c):
    """'exact' (model = code incl. exception class), 'reject' (accept/reject only), 'outside' (not generated)."""
    if not isinstance(c, dict):
        return 'exact'
    res = 'exact'
    sd = c.get('dcmmeta_slice_dim')
    if isinstance(sd, float):
        res = 'reject'
    sh = c.get('dcmmeta_shape')
    if isinstance(sh, list) and any(not isinstance(e, int) for e in sh):
        return 'outside'
    if isinstance(sh, (str, dict)) and len(sh) > 0:
        return 'outside'          # characters / keys as shape entries
    for b, s in CLASSES:
        if b in c:
            if not isinstance(c[b], dict):
                return 'outside'
            if s in c[b] and not isinstance(c[b][s], dict):
                return 'outside'
    return res


# ------------------------------------------------------------------------------------------------
# generator of valid contents

KEY_POOL = ['EchoTime', 'InstanceNumber', 'k1', 'k2', 'k3', 'const', 'slices', 'samples', 'global', '', 'a b',
            'über', '键', '\U0001d11e', 'dcmmeta_shape', 'K', 'kk', 'PatientName', 'x"y', 'z\\']
SCALARS = [0, 1, -7, 12345678901234567890, 1.5, -0.25, 1e-3, 2.0, 'abc', '', 'MR', None, True, False, 'déjà']


def rand_scalar(rng):
    return rng.choice(SCALARS)


def rand_const(rng):
    k = rng.random()
    if k < 0.6:
        return rand_scalar(rng)
    if k < 0.8:
        return [rand_scalar(rng) for _ in range(rng.choice([0, 1, 2, 3]))]
    if k < 0.9:
        return {'a': rand_scalar(rng), 'b': [1, 2]}
    return [[1, 2], [3, 4]]


def rand_affine(rng):
    if rng.random() < 0.5:
        return [[1.0, 0.0, 0.0, 0.0], [0.0, 1.0, 0.0, 0.0], [0.0, 0.0, 1.0, 0.0], [0.0, 0.0, 0.0, 1.0]]
    a = [[rng.choice([0, 1, -1, 2.5, -0.5, 3, 1e-2, 100.0]) for _ in range(4)] for _ in range(3)]
    return a + [[0, 0, 0, 1]]


def gen_base(rng, nd=None, sd='rand', ver=None, t1=None, nkeys=None, dims=(1, 2, 3, 4)):
    nd = nd or rng.choice([3, 4, 5])
    shape = [rng.choice(dims) for _ in range(nd)]
    if nd == 5:
        if t1 is None:
            t1 = rng.random() < 0.35
        shape[3] = 1 if t1 else rng.choice([d for d in dims if d != 1] or [2])
    if sd == 'rand':
        sd = rng.choice([None, 0, 1, 2])
    ver = ver or rng.choice([0.5, 0.6])
    c = {}
    fields = [('dcmmeta_affine', rand_affine(rng)), ('dcmmeta_slice_dim', sd), ('dcmmeta_shape', shape),
              ('dcmmeta_version', ver)]
    if ver == 0.6 or rng.random() < 0.2:
        fields.append(('dcmmeta_reorient_transform', None if rng.random() < 0.5 else rand_affine(rng)))
    vc = rule_classes(shape)
    keys = list(KEY_POOL)
    rng.shuffle(keys)
    bases = {}
    for cl in CLASSES:
        if cl in vc:
            m = rule_mult(shape, sd, cl)
            d = {}
            n = rng.choice([0, 1, 1, 2, 3]) if nkeys is None else nkeys
            if m == 0:
                n = 0
            for _ in range(n):
                if not keys:
                    break
                k = keys.pop()
                if cl[1] == 'const':
                    d[k] = rand_const(rng)
                elif m == 1:
                    d[k] = [rand_scalar(rng)]
                else:
                    d[k] = [rand_scalar(rng) for _ in range(m)]
            bases.setdefault(cl[0], {})[cl[1]] = d
        elif rng.random() < 0.25:
            # a stale dictionary of a class that is not valid for this shape: value lists of any length
            d = {}
            if rng.random() < 0.6 and keys:
                d[keys.pop()] = [1, 2, 3]          # a key of its own: no key may sit in two dictionaries
            bases.setdefault(cl[0], {})[cl[1]] = d
    for b in ('global', 'time', 'vector'):
        if b in bases:
            if rng.random() < 0.15:
                bases[b]['extra_sub'] = {'q': 1}
            fields.append((b, bases[b]))
    if rng.random() < 0.2:
        fields.append(('extra_top', rand_const(rng)))
    if rng.random() < 0.5:
        rng.shuffle(fields)
    for k, v in fields:
        c[k] = v
    return c


# ------------------------------------------------------------------------------------------------
# corruptions

class NotApplicable(Exception):
    pass


def class_dict(c, b, s):
    if isinstance(c, dict) and isinstance(c.get(b), dict) and isinstance(c[b].get(s), dict):
        return c[b][s]
    return None


def fit_value(c, cl):
    """A value with the number of items classification cl prescribes in content c (None when undefined)."""
    sh, sd = c.get('dcmmeta_shape'), c.get('dcmmeta_slice_dim')
    if not (isinstance(sh, list) and 3 <= len(sh) <= 5 and all(is_int(x) for x in sh)):
        return None
    if not (sd is None or (is_int(sd) and 0 <= sd <= 2)):
        return None
    if cl not in rule_classes(sh):
        return None
    m = rule_mult(sh, sd, cl)
    if m == 0:
        return None
    return list(range(m))


AFFINE_KINDS = ['3x4', '4x3', '5x5', '4x4x1', 'ragged', 'empty', 'none', 'scalar', 'flat16', 'row-scalar', '4x4x2-ragged',
                'str-entry', 'none-entry']
VERSION_VALUES = ['swap', 0.7, 1, '0.6', None, [0.6], True, 0.55]
SLICE_DIM_VALUES = [-1, 3, 7, None, 0, 1, 2, True, '1', 1.5, [1]]
PLANT_VALUES = [[], '', {}, [0], None]       # per-slice key planted with NO values (and with one / a scalar)


def enumerate_ops(c):
    ops = []
    if not isinstance(c, dict):
        return ops
    for k in c:
        ops.append(['drop_field', k])
    for b in ('global', 'time', 'vector'):
        if isinstance(c.get(b), dict):
            for s in c[b]:
                ops.append(['drop_sub', b, s])
    for b, s in CLASSES:
        d = class_dict(c, b, s)
        if d is None:
            continue
        for k, v in d.items():
            if isinstance(v, list):
                # add / remove one or two values at the front, in the middle or at the end
                for pos in ('front', 'mid', 'end'):
                    for n in (1, 2):
                        ops.append(['add_value', b, s, k, pos, n])
                        if len(v) >= n:
                            ops.append(['remove_value', b, s, k, pos, n])
                if len(v) >= 2:
                    ops.append(['value_type', b, s, k, 'str'])
                    ops.append(['value_type', b, s, k, 'dict'])
            for b2, s2 in CLASSES:
                if (b2, s2) != (b, s) and class_dict(c, b2, s2) is not None:
                    ops.append(['dup_key', b, s, k, b2, s2, 'fit'])
                    ops.append(['dup_key', b, s, k, b2, s2, 'same'])
    for b in ('global', 'time', 'vector'):
        if class_dict(c, b, 'slices') is not None:
            for v in PLANT_VALUES:
                ops.append(['plant_slice', b, v])
    for v in SLICE_DIM_VALUES:
        if 'dcmmeta_slice_dim' in c and not same(c['dcmmeta_slice_dim'], v):
            ops.append(['slice_dim', v])
    sh = c.get('dcmmeta_shape')
    if isinstance(sh, list):
        for n in (0, 1, 2, 3, 4, 5, 6, 7):
            if n != len(sh):
                ops.append(['shape_len', n])
        for i, x in enumerate(sh):
            if is_int(x):
                for v in (x + 1, x + 2, 1, -x, 0):
                    if v != x:
                        ops.append(['shape_entry', i, v])
    if 'dcmmeta_affine' in c:
        for k in AFFINE_KINDS:
            ops.append(['affine', k])
    if 'dcmmeta_version' in c:
        for v in VERSION_VALUES:
            ops.append(['version', v])
    return ops


def same(a, b):
    return type(a) is type(b) and a == b


def _pos(v, pos):
    return {'front': 0, 'mid': len(v) // 2, 'end': len(v)}[pos]


def apply_op(c, op):
    c = copy.deepcopy(c)
    kind = op[0]
    try:
        if kind == 'drop_field':
            del c[op[1]]
        elif kind == 'drop_sub':
            del c[op[1]][op[2]]
        elif kind == 'add_value':
            v = c[op[1]][op[2]][op[3]]
            if not isinstance(v, list):
                raise NotApplicable()
            pos, n = (op[4], op[5]) if len(op) > 5 else ('end', 1)
            i = _pos(v, pos)
            v[i:i] = [99] * n
        elif kind == 'remove_value':
            v = c[op[1]][op[2]][op[3]]
            pos, n = (op[4], op[5]) if len(op) > 5 else ('end', 1)
            if not isinstance(v, list) or len(v) < n:
                raise NotApplicable()
            i = min(_pos(v, pos), len(v) - n)
            del v[i:i + n]
        elif kind == 'value_type':
            v = c[op[1]][op[2]][op[3]]
            if not isinstance(v, list):
                raise NotApplicable()
            c[op[1]][op[2]][op[3]] = ('x' * len(v)) if op[4] == 'str' else dict(('m%d' % i, x) for i, x in enumerate(v))
        elif kind == 'plant_slice':
            d = c[op[1]]['slices']
            if not isinstance(d, dict) or 'planted' in d:
                raise NotApplicable()
            d['planted'] = copy.deepcopy(op[2])
        elif kind == 'dup_key':
            _, b, s, k, b2, s2, mode = op
            v = c[b][s][k]
            if mode == 'fit':
                v = fit_value(c, (b2, s2))
                if v is None:
                    v = c[b][s][k]
            if k in c[b2][s2]:
                raise NotApplicable()
            c[b2][s2][k] = copy.deepcopy(v)
        elif kind == 'slice_dim':
            if 'dcmmeta_slice_dim' not in c:
                raise NotApplicable()
            c['dcmmeta_slice_dim'] = op[1]
        elif kind == 'shape_len':
            sh = c['dcmmeta_shape']
            n = op[1]
            c['dcmmeta_shape'] = sh[:n] if n <= len(sh) else sh + [2] * (n - len(sh))
        elif kind == 'shape_entry':
            c['dcmmeta_shape'][op[1]] = op[2]
        elif kind == 'affine':
            a = c['dcmmeta_affine']
            row = [1, 0, 0, 0]
            k = op[1]
            if k in ('str-entry', 'none-entry'):
                if not (isinstance(a, list) and len(a) == 4 and all(isinstance(r, list) and len(r) == 4 for r in a)):
                    raise NotApplicable()
                a[1][2] = 'x' if k == 'str-entry' else None
            else:
                c['dcmmeta_affine'] = {
                    '3x4': [list(row) for _ in range(3)], '4x3': [[1, 0, 0] for _ in range(4)],
                    '5x5': [[0] * 5 for _ in range(5)], '4x4x1': [[[0], [0], [0], [1]] for _ in range(4)],
                    'ragged': [list(row), list(row), list(row), [0, 0, 1]], 'empty': [], 'none': None, 'scalar': 1.0,
                    'flat16': [0.0] * 16, 'row-scalar': [list(row), list(row), 5, list(row)],
                    '4x4x2-ragged': [[[0, 1], [0, 1], [0, 1], [0]] for _ in range(4)]}[k]
        elif kind == 'version':
            v = op[1]
            if v == 'swap':
                cur = c['dcmmeta_version']
                v = 0.5 if same(cur, 0.6) else 0.6
            c['dcmmeta_version'] = v
        else:
            raise NotApplicable()
    except (KeyError, IndexError, TypeError, AttributeError):
        raise NotApplicable()
    return c


OP_KINDS = {'drop_field': 'drop-field', 'drop_sub': 'drop-sub', 'add_value': 'add-value', 'remove_value': 'remove-value',
            'value_type': 'value-type', 'plant_slice': 'plant-slice', 'dup_key': 'dup-key', 'slice_dim': 'slice-dim', 'shape_len': 'shape-len',
            'shape_entry': 'shape-entry', 'affine': 'affine', 'version': 'version'}


def op_kind(op):
    return OP_KINDS[op[0]]


# the blind spots of check_valid (open finding N14) ------------------------------------------------

IDENT = [[1.0, 0.0, 0.0, 0.0], [0.0, 1.0, 0.0, 0.0], [0.0, 0.0, 1.0, 0.0], [0.0, 0.0, 0.0, 1.0]]


def _plain(shape, sd, ver=0.5):
    c = {'dcmmeta_affine': copy.deepcopy(IDENT), 'dcmmeta_slice_dim': sd, 'dcmmeta_shape': list(shape),
         'dcmmeta_version': ver, 'global': {'const': {}, 'slices': {}}}
    if ver == 0.6:
        c['dcmmeta_reorient_transform'] = None
    if len(shape) == 4 or (len(shape) == 5 and shape[3] != 1):
        c['time'] = {'samples': {}, 'slices': {}}
    if len(shape) == 5:
        c['vector'] = {'samples': {}, 'slices': {}}
    return c


def gap_cases(rng):
    """Contents that break ONLY a rule check_valid does not enforce: (kind, content)."""
    out = []
    # multiplicity-1 classification holding something else than a one-element list
    c = _plain([2, 2, 1, 2], 2)
    c['time']['slices']['k'] = [1, 2, 3]
    out.append(('gap:degenerate', c))
    c = _plain([2, 3, 2, 1], 0, 0.6)
    c['time']['samples']['EchoTime'] = 2.5
    out.append(('gap:degenerate', c))
    c = _plain([rng.choice([2, 3]), 1, 2, rng.choice([2, 3])], 1)
    c['time']['slices']['k'] = [rand_scalar(rng) for _ in range(rng.choice([0, 2, 4]))]
    out.append(('gap:degenerate', c))
    # a key repeated in a stale dictionary
    c = _plain([2, 2, 2, 1, 2], None)
    c['global']['const']['PatientID'] = 'anon'
    c['time'] = {'samples': {'PatientID': [1]}, 'slices': {}}
    out.append(('gap:stale', c))
    c = _plain([2, 2, 2], 2, 0.6)
    c['global']['slices']['InstanceNumber'] = [1, 2]
    c['vector'] = {'samples': {}, 'slices': {'InstanceNumber': [1, 2, 3, 4]}}
    out.append(('gap:stale', c))
    # non-positive dimension
    c = _plain([2, 2, -3, 2], None)
    c['time']['samples']['EchoTime'] = [1.5, 2.5]
    out.append(('gap:nonpositive', c))
    c = _plain([2, -2, 2], 0)
    c['global']['slices']['k'] = [1, 2]
    out.append(('gap:nonpositive', c))
    # affine entry that is not a number
    c = _plain([2, 2, 2], None)
    c['dcmmeta_affine'][0][0] = 'x'
    out.append(('gap:affine', c))
    c = _plain([2, 2, 2, 2], 2, 0.6)
    c['dcmmeta_affine'][3][3] = None
    c['time']['samples']['EchoTime'] = [1, 2]
    out.append(('gap:affine', c))
    # a str / dict of the right len() instead of a list
    c = _plain([2, 2, 3, 2], 2)
    c['time']['samples']['EchoTime'] = 'ab'
    out.append(('gap:sized', c))
    c = _plain([2, 2, 3, 2], 2)
    c['time']['slices']['k'] = {'a': 1, 'b': 2, 'c': 3}
    out.append(('gap:sized', c))
    return out


def noslice_cases():
    """slice_dim None and a key in a */slices dictionary whose value holds NO values ([], '', {}): per-slice data
    without a slice dimension all the same -> must be rejected.  Every valid slices class of every dimensionality."""
    out = []
    for shape in ([2, 2, 3], [2, 2, 3, 2], [2, 2, 2, 3, 2], [2, 2, 2, 1, 2]):
        for b in ('global', 'time', 'vector'):
            for i, v in enumerate(([], '', {})):
                c = _plain(shape, None, 0.5 if i % 2 else 0.6)
                if b not in c:
                    continue
                c[b]['slices']['SliceLocation'] = copy.deepcopy(v)
                out.append(c)
    return out


# malformed stream ---------------------------------------------------------------------------------

WILD = [None, True, False, 0, 1, 2, 3, -1, 5, 0.5, 0.6, "", "abc", "const", "slices", "samples", [], [1], [1, 2, 3],
        ["const", "slices", "samples"], {}, {"a": 1}, {"const": {}, "slices": {}, "samples": {}}, [2, 2, 2],
        [2, 2, 2, 2], [2, 2, 2, 1, 2], [0, 2, 2], [2, 2, -2, -2], [[1] * 4] * 4, [[1] * 4] * 3, [[1, 2], [3]],
        {"k": [1, 2]}, "xy", {"a": 1, "b": 2, "c": 3}]


def _paths(c, pre=()):
    out = [pre]
    if isinstance(c, dict):
        for k in c:
            out += _paths(c[k], pre + (k,))
    elif isinstance(c, list):
        for i in range(len(c)):
            out += _paths(c[i], pre + (i,))
    return out


def _setp(c, p, v):
    if not p:
        return v
    c[p[0]] = _setp(c[p[0]], p[1:], v)
    return c


def wild_mutate(rng, c):
    c = copy.deepcopy(c)
    for _ in range(rng.choice([1, 1, 2, 3])):
        ps = [p for p in _paths(c)]
        p = rng.choice(ps)
        k = rng.random()
        try:
            if k < 0.1 and isinstance(c, dict):
                c[rng.choice(['time', 'vector', 'global', 'x'])] = copy.deepcopy(rng.choice(WILD))
            else:
                c = _setp(c, p, copy.deepcopy(rng.choice(WILD)))
        except (KeyError, IndexError, TypeError):
            pass
    return c


# ------------------------------------------------------------------------------------------------
# shared observation helpers

ERRMAP = None


def errname(e):
    """Exception -> err enum name.  Only RAISED vs NOT RAISED is compared (the property says "rejected"); the name is
    kept for the distribution table.  isinstance, so that subclasses count as their base; any other Exception is a
    refusal too (ECrash)."""
    global ERRMAP
    if ERRMAP is None:
        from dcmstack.dcmmeta import InvalidExtensionError, MissingExtensionError
        ERRMAP = [(InvalidExtensionError, 'EInvalidExt'), (MissingExtensionError, 'EMissingExt'), (KeyError, 'EKey'),
                  (IndexError, 'EIndex'), (TypeError, 'EType'), (ValueError, 'EValue'), (AttributeError, 'EAttr')]
    for cls, name in ERRMAP:
        if isinstance(e, cls):
            return name
    return 'ECrash'


def crash_msg(part, obs):
    """A crash / harness marker is never silently None (AUDIT-2 rule 3)."""
    if isinstance(obs, dict) and 'crash' in obs:
        return ('the harness could not observe the implementation: unexpected %s (%s)'
                % (obs.get('crash'), str(obs.get('msg'))[:200]), 'crash/%s/%s' % (part, obs.get('crash')))
    if not isinstance(obs, dict):
        return ('no observation', 'crash/%s/no-observation' % part)
    return None


def cres_unit(r):
    return '(Ok tt)' if r == 'ok' else '(Err %s)' % r


def content_has_varying(c):
    """The content holds at least one key in a classification that is valid for its shape and has multiplicity > 1
    (so that the value-count and uniqueness clauses have something to look at)."""
    if not isinstance(c, dict):
        return False
    sh, sd = c.get('dcmmeta_shape'), c.get('dcmmeta_slice_dim')
    if not (isinstance(sh, list) and 3 <= len(sh) <= 5 and all(is_int(x) and x >= 1 for x in sh)):
        return False
    if not (sd is None or (is_int(sd) and 0 <= sd <= 2)):
        return False
    for cl in rule_classes(sh):
        d = class_dict(c, *cl)
        if d and rule_mult(sh, sd, cl) > 1:
            return True
    return False


def shrink_content(c):
    """Strictly smaller contents: drop one key of a class dictionary, one unused top-level entry, shorten values."""
    if not isinstance(c, dict):
        return
    for b in ('global', 'time', 'vector'):
        if isinstance(c.get(b), dict):
            for s in list(c[b]):
                if isinstance(c[b][s], dict):
                    for k in list(c[b][s]):
                        d = copy.deepcopy(c)
                        del d[b][s][k]
                        yield d
                if s not in ('const', 'slices', 'samples'):
                    d = copy.deepcopy(c)
                    del d[b][s]
                    yield d
    for k in list(c):
        if k not in REQUIRED[0.6] and k not in ('time', 'vector'):
            d = copy.deepcopy(c)
            del d[k]
            yield d
    if 'dcmmeta_affine' in c and c['dcmmeta_affine'] != [[1, 0, 0, 0], [0, 1, 0, 0], [0, 0, 1, 0], [0, 0, 0, 1]]:
        d = copy.deepcopy(c)
        d['dcmmeta_affine'] = [[1, 0, 0, 0], [0, 1, 0, 0], [0, 0, 1, 0], [0, 0, 0, 1]]
        yield d


# ------------------------------------------------------------------------------------------------
# part 1: check

def same_verdict(c0, c1):
    """Shrinking must stay on the same failure: same literal-rules verdict and same broken rule."""
    return rules(c0) == rules(c1)


class Check:
    NAME = "check"
    CORR_REQUIRE = "From DV Require Import Common.Str Common.Jv Content.PyVal Content.Model Content.Corr."
    CORR_CASE_TYPE = "Corr.case"
    CORR_CHECK = "Corr.check"
    CORR_SHOW = "Corr.show"
    SHARD = 250
    IMPL_TIMEOUT = 20
    RULE = "see module RULE"

    @staticmethod
    def _mk(kind, c, ops=None):
        if domain_class(c) == 'outside':
            return None
        return {'kind': kind, 'content': c, 'ops': ops or []}

    @staticmethod
    def gen_cases(rng, tier):
        thorough = tier == 'thorough'
        cases = []
        bases = []
        # EVERY (dimensionality, singleton-time, slice dim) combination gets a base content and its corruptions
        grid = []
        for nd, t1 in ((3, None), (4, None), (5, False), (5, True)):
            for sd in (None, 0, 1, 2):
                grid.append((nd, t1, sd))
        rng.shuffle(grid)
        nb = 32 if thorough else 16
        for i in range(nb):
            nd, t1, sd = grid[i % len(grid)]
            ver = 0.5 if (i + i // len(grid)) % 2 == 0 else 0.6
            b = None
            for attempt in range(20):
                b = gen_base(rng, nd=nd, sd=sd, ver=ver, t1=t1, dims=(1, 2, 3) if nd == 5 else (1, 2, 3, 4))
                if sd is None or content_has_varying(b):
                    break
            bases.append(b)
        # more random valid contents (no corruption)
        for i in range(120 if thorough else 40):
            cases.append(Check._mk('valid', gen_base(rng)))
        base_ops = []
        for bi, b in enumerate(bases):
            cases.append(Check._mk('valid', b))
            ops = enumerate_ops(b)
            base_ops.append(ops)
            singles = ops
            if not thorough:
                # quick: every kind several times per base, the rest sampled
                bykind = {}
                for op in ops:
                    bykind.setdefault(op_kind(op), []).append(op)
                singles = []
                for k, lst in sorted(bykind.items()):
                    rng.shuffle(lst)
                    singles += lst[:5]
            for op in singles:
                try:
                    cases.append(Check._mk('single:' + op_kind(op), apply_op(b, op), [op]))
                except NotApplicable:
                    pass
            # random doubles
            if thorough:
                pairs = [(o1, o2) for o1 in ops for o2 in ops if o1 is not o2]
                rng.shuffle(pairs)
                pairs = pairs[:1000]
            else:
                pairs = [(rng.choice(ops), rng.choice(ops)) for _ in range(10)]
            for o1, o2 in pairs:
                try:
                    c2 = apply_op(apply_op(b, o1), o2)
                except NotApplicable:
                    continue
                cases.append(Check._mk('double', c2, [o1, o2]))
        # systematic doubles: EVERY unordered pair of corruption kinds (same kind twice included), in both orders
        kinds = sorted(set(OP_KINDS.values()))
        have = set(json.dumps(k['content']) for k in cases if k is not None)
        for i1, k1 in enumerate(kinds):
            for k2 in kinds[i1:]:
                for rep in range(3 if thorough else 1):
                    for attempt in range(80):
                        bi = rng.randrange(len(bases))
                        l1 = [o for o in base_ops[bi] if op_kind(o) == k1]
                        l2 = [o for o in base_ops[bi] if op_kind(o) == k2]
                        if not l1 or not l2:
                            continue
                        o1, o2 = rng.choice(l1), rng.choice(l2)
                        if o1 == o2:
                            continue
                        if rng.random() < 0.5:
                            o1, o2 = o2, o1
                        try:
                            c2 = apply_op(apply_op(bases[bi], o1), o2)
                        except NotApplicable:
                            continue
                        k = Check._mk('double', c2, [o1, o2])
                        h = json.dumps(c2)
                        if k is not None and h not in have:      # (a second change of the same field is a single)
                            have.add(h)
                            cases.append(k)
                            break
        # no slice dimension but a per-slice key with an EMPTY value, in every slices class of every dimensionality
        for c in noslice_cases():
            cases.append(Check._mk('single:plant-slice', c))
        # the known blind spots (each run must print the five KNOWN-FINDING lines of N14)
        for kind, c in gap_cases(rng):
            cases.append(Check._mk(kind, c))
        # malformed stream
        n_wild = 1500 if thorough else 220
        tries = 0
        got = 0
        while got < n_wild and tries < 20 * n_wild:
            tries += 1
            c = wild_mutate(rng, gen_base(rng, nkeys=rng.choice([0, 1, 2])))
            k = Check._mk('malformed', c)
            if k is not None:
                cases.append(k)
                got += 1
        for c in ([], None, 3, "abc", {}, {'dcmmeta_version': 0.6}, [1, 2]):
            cases.append(Check._mk('malformed', c))
        out, seen = [], set()
        for k in cases:
            if k is None:
                continue
            h = json.dumps(k['content'], sort_keys=False)
            if h in seen:
                continue
            seen.add(h)
            out.append(k)
        return out

    @staticmethod
    def run_impl(case):
        from dcmstack.dcmmeta import DcmMetaExtension, dcm_meta_ecode
        c = case['content']
        s = json.dumps(c)
        obs = {}
        try:
            DcmMetaExtension.from_json(s)
            obs['r'] = 'ok'
        except Exception as e:           # any exception is a refusal (the property names no class)
            obs['r'] = obs['err'] = errname(e)
        # get_valid_classes / get_multiplicity on the same content (where their result is a plain int), asked for the
        # six classifications of the FORMAT (not read from the implementation)
        sh = c.get('dcmmeta_shape') if isinstance(c, dict) else None
        sd = c.get('dcmmeta_slice_dim') if isinstance(c, dict) else None
        if isinstance(sh, list) and all(isinstance(x, int) for x in sh) and (sd is None or isinstance(sd, int)):
            ext = DcmMetaExtension(dcm_meta_ecode, s.encode('utf-8'))
            try:
                obs['classes'] = [list(x) for x in ext.get_valid_classes()]
            except Exception as e:
                obs['classes'] = errname(e)
            ms = []
            for cl in CLASSES:
                try:
                    m = ext.get_multiplicity(tuple(cl))
                    if not isinstance(m, int):        # (a bool shape entry gives a bool: the int 1/0)
                        raise RuntimeError('multiplicity is not an int: %r' % (m,))
                    ms.append([cl[0], cl[1], int(m)])
                except RuntimeError:
                    raise
                except Exception as e:
                    ms.append([cl[0], cl[1], errname(e)])
            obs['mults'] = ms
        return obs

    @staticmethod
    def coq_case(case, obs):
        if 'r' not in obs:
            raise ValueError('no observation')
        oc = 'None'
        if 'classes' in obs:
            v = obs['classes']
            oc = '(Some %s)' % ('(Err %s)' % v if isinstance(v, str) else
                                '(Ok %s)' % clist(cpair(cstr(x[0]), cstr(x[1])) for x in v))
        om = clist(cpair(cpair(cstr(b), cstr(s_)), ('(Err %s)' % m) if isinstance(m, str) else ('(Ok %s)' % cz(m)))
                   for b, s_, m in obs.get('mults', []))
        return 'Corr.mk_case %s %s %s %s' % (cjv(case['content']), cres_unit(obs['r']), oc, om)

    @staticmethod
    def _judge(case, obs):
        cm = crash_msg('check', obs)
        if cm:
            return cm
        if 'r' not in obs:
            return ('no observation', 'crash/check/no-observation')
        return judge(case['content'], obs['r'] == 'ok', 'check_valid / from_json', obs['r'])

    @staticmethod
    def oracle(case, obs):
        j = Check._judge(case, obs)
        return j[0] if j else None

    @staticmethod
    def signature(case, obs, msg):
        j = Check._judge(case, obs)
        return j[1] if j else 'none'

    @staticmethod
    def nontrivial(case, obs):
        return content_has_varying(case['content'])

    @staticmethod
    def shrink(case):
        for c in shrink_content(case['content']):
            if not same_verdict(case['content'], c):
                continue
            k = Check._mk(case.get('kind', '?'), c, case.get('ops'))
            if k is not None:
                yield k


# ------------------------------------------------------------------------------------------------
# part 2: gate

def new_extension(klass, ecode, obj):
    """An extension object whose runtime content is `obj`, without going through check_valid: the public constructor
    argument of nibabel >= 5.3, else the attribute older nibabel versions use (ONE helper, with fallbacks)."""
    try:
        return klass(ecode, object=obj)
    except TypeError:
        ext = klass(ecode, b'{}')
        try:
            ext._content = obj
        except AttributeError:
            ext._object = obj
        return ext


class Gate:
    NAME = "gate"
    CORR_REQUIRE = "From DV Require Import Common.Str Common.Jv Content.PyVal Content.Model Content.Corr."
    CORR_CASE_TYPE = "Corr.gcase"
    CORR_CHECK = "Corr.gcheck"
    CORR_SHOW = "Corr.gshow"
    SHARD = 100
    IMPL_TIMEOUT = 30
    RULE = "see module RULE"

    @staticmethod
    def gen_cases(rng, tier):
        thorough = tier == 'thorough'
        n = 900 if thorough else 160
        cases = []
        while len(cases) < n:
            nd = rng.choice([3, 4, 5])
            shape = [rng.choice([1, 2, 3]) for _ in range(nd)]
            if nd == 5 and rng.random() < 0.3:
                shape[3] = 1
            exts = []
            pattern = rng.choice(['v', 'c', 'cv', 'vc', 'cc', 'vv', 'fvc', 'cfv', 'ccv', '', 'f', 'cvc', 'w', 'wv', 'p', 'pv', 'vp'])
            ok = True
            for ch in pattern:
                b = gen_base(rng, nd=rng.choice([3, 4, 5]), nkeys=rng.choice([0, 1, 2]), dims=(1, 2, 3))
                if ch == 'v':
                    exts.append({'code': 0, 'content': b, 'inject': rng.choice(['raw', 'object'])})
                elif ch == 'c':
                    ops = enumerate_ops(b)
                    c = None
                    for _ in range(30):
                        try:
                            c = apply_op(b, rng.choice(ops))
                        except NotApplicable:
                            continue
                        if domain_class(c) != 'outside':
                            break
                        c = None
                    if c is None:
                        ok = False
                        break
                    exts.append({'code': 0, 'content': c, 'inject': rng.choice(['raw', 'object']) if isinstance(c, dict) else 'raw'})
                elif ch == 'p':
                    # no slice dimension, one per-slice key that holds no value at all
                    c = copy.deepcopy(rng.choice(noslice_cases()))
                    exts.append({'code': 0, 'content': c, 'inject': rng.choice(['raw', 'object'])})
                elif ch == 'w':
                    c = wild_mutate(rng, b)
                    # from_runtime_repr(None): nibabel reads an object of None as "no object yet" and
                    # re-parses the (empty) raw bytes, which is not what the model's argument means
                    if c is None or domain_class(c) == 'outside':
                        ok = False
                        break
                    exts.append({'code': 0, 'content': c, 'inject': 'raw'})
                else:
                    exts.append({'code': rng.choice([4, 6]), 'content': rng.choice([b, "hello", [1, 2]]), 'inject': 'raw'})
            if not ok:
                continue
            cases.append({'kind': 'gate:' + (pattern or 'none'), 'img_shape': shape, 'exts': exts,
                          'make_empty': rng.random() < 0.4, 'img_slice_dim': rng.choice([None, 0, 1, 2]),
                          # half of the images go through a .nii file (nibabel save / load) before they are wrapped
                          'via': rng.choice(['memory', 'file'])})
        return cases

    @staticmethod
    def run_impl(case):
        import io
        import contextlib
        import tempfile
        import numpy as np
        import nibabel as nb
        from nibabel.nifti1 import Nifti1Extension
        from dcmstack.dcmmeta import DcmMetaExtension, NiftiWrapper, dcm_meta_ecode
        shape = case['img_shape']
        img = nb.Nifti1Image(np.zeros(shape, dtype=np.int16), np.diag([2.0, 3.0, 4.0, 1.0]))
        hdr = img.header
        if case.get('img_slice_dim') is not None:
            hdr.set_dim_info(slice=case['img_slice_dim'])
        obs = {'rt': []}
        for e in case['exts']:
            raw = json.dumps(e['content']).encode('utf-8')
            if e['code'] == dcm_meta_ecode:
                if e['inject'] == 'object':
                    ext = new_extension(DcmMetaExtension, dcm_meta_ecode, copy.deepcopy(e['content']))
                else:
                    ext = DcmMetaExtension(dcm_meta_ecode, raw)
                try:
                    DcmMetaExtension.from_runtime_repr(copy.deepcopy(e['content']))
                    obs['rt'].append('ok')
                except Exception as ex:
                    obs['rt'].append(errname(ex))
            else:
                ext = Nifti1Extension(e['code'], raw)
                obs['rt'].append(None)
            hdr.extensions.append(ext)
        tmp = None
        try:
            if case.get('via') == 'file':
                tmp = tempfile.TemporaryDirectory(dir=os.environ.get('VERIF_WORK') or None)
                path = os.path.join(tmp.name, 'gate.nii')
                nb.save(img, path)
                img = nb.load(path)
                if len(img.header.extensions) != len(case['exts']):
                    raise RuntimeError('nibabel save/load changed the number of extensions')
            objs = list(img.header.extensions)
            try:
                with contextlib.redirect_stdout(io.StringIO()):
                    w = NiftiWrapper(img, case['make_empty'])
            except Exception as ex:
                obs['wrap'] = obs['err'] = errname(ex)
            else:
                idx = [i for i, o in enumerate(objs) if o is w.meta_ext]
                obs['wrap'] = 'ok'
                obs['adopted'] = idx[0] if idx else None
                # what the wrapper adopted, through the public accessor of the extension
                obs['adopted_content'] = json.loads(json.dumps(w.meta_ext.get_content()))
        finally:
            if tmp is not None:
                tmp.cleanup()
        return obs

    @staticmethod
    def coq_case(case, obs):
        if 'wrap' not in obs:
            raise ValueError('no observation')
        exts = clist(cpair(cz(e['code']), cjv(e['content'])) for e in case['exts'])
        rt = clist('None' if r is None else '(Some %s)' % cres_unit(r) for r in obs['rt'])
        if obs['wrap'] == 'ok':
            w = '(Ok %s)' % cpair(copt(obs['adopted'], cnat), cjv(obs['adopted_content']))
        else:
            w = '(Err %s)' % obs['wrap']
        return 'Corr.mk_gcase %s %s %s %s' % (exts, cbool(case['make_empty']), rt, w)

    @staticmethod
    def _judge(case, obs):
        cm = crash_msg('gate', obs)
        if cm:
            return cm
        if 'wrap' not in obs:
            return ('no observation', 'crash/gate/no-observation')
        found = []
        for e, r in zip(case['exts'], obs['rt']):
            if r is None:
                continue
            j = judge(e['content'], r == 'ok', 'from_runtime_repr', r)
            if j:
                found.append(j)
        if obs['wrap'] == 'ok':
            adopted = obs.get('adopted')
            dcm = [i for i, e in enumerate(case['exts']) if e['code'] == 0]
            if adopted is not None:
                # ground truth = the case: the adopted extension must be a dcmmeta candidate of the header, hold that
                # candidate's content, and that content must meet the rules (and be accepted by the check on its own)
                if adopted not in dcm:
                    found.append(('NiftiWrapper adopted extension %d, which is not a DcmMeta candidate' % adopted, 'gate/wrapper'))
                else:
                    if obs['rt'][adopted] != 'ok':
                        found.append(('NiftiWrapper ACCEPTED an extension that check_valid rejects on its own (%s)'
                                      % obs['rt'][adopted], 'gate/wrapper'))
                    if obs.get('adopted_content') != json.loads(json.dumps(case['exts'][adopted]['content'])):
                        found.append(('the extension NiftiWrapper adopted does not hold the content of candidate %d'
                                      % adopted, 'gate/wrapper'))
            elif not case['make_empty']:
                found.append(('NiftiWrapper ACCEPTED an image without adopting any of its extensions although '
                              'make_empty is off', 'gate/wrapper'))
            j = judge(obs.get('adopted_content'), True, 'NiftiWrapper')
            if j:
                found.append((j[0], j[1] if j[1].startswith(KNOWN_SIG) else 'gate/wrapper'))
        # a failure that is not a known finding takes precedence (collect, then prefer the unknown)
        for j in found:
            if not j[1].startswith(KNOWN_SIG):
                return j
        return found[0] if found else None

    @staticmethod
    def oracle(case, obs):
        j = Gate._judge(case, obs)
        return j[0] if j else None

    @staticmethod
    def signature(case, obs, msg):
        j = Gate._judge(case, obs)
        return j[1] if j else 'none'

    @staticmethod
    def nontrivial(case, obs):
        return any(e['code'] == 0 and content_has_varying(e['content']) for e in case['exts'])

    @staticmethod
    def shrink(case):
        for i in range(len(case['exts'])):
            d = copy.deepcopy(case)
            del d['exts'][i]
            yield d
        for i, e in enumerate(case['exts']):
            if e['code'] == 0:
                for c in shrink_content(e['content']):
                    if not same_verdict(e['content'], c):
                        continue
                    d = copy.deepcopy(case)
                    d['exts'][i]['content'] = c
                    yield d
        if case.get('via') == 'file':
            d = copy.deepcopy(case)
            d['via'] = 'memory'
            yield d


PARTS = [Check, Gate]


# source tie (integrator): check_valid / get_valid_classes / get_multiplicity (on raw content) are TRANSLATED from the
# Python AST on every run (tools/tables/t_src_valid.py) and Content.Model is proved equal to the translation (Props/SRCvalid.v)
COQ_PROPS = (list(COQ_PROPS) if isinstance(COQ_PROPS, (list, tuple)) else [COQ_PROPS]) + ['Props/SRCvalid.v']
THEOREMS = list(THEOREMS) + ['SRC_check_valid', 'SRC_multiplicity_dyn', 'SRC_valid_classes_dyn']
TABLES = sorted(set(list(globals().get('TABLES') or []) + ['t_src_valid', 't_content'])) if globals().get('TABLES') else None


# link (integrator): the abstract extension model (coq/Ext) is tied to the raw JSON content model (coq/Content, coq/Json,
# coq/Cli) through Link/Abs.v to_content / of_content; LinkPart compares to_content with the real _content on every run
from props import link as _link
COQ_PROPS = (list(COQ_PROPS) if isinstance(COQ_PROPS, (list, tuple)) else [COQ_PROPS]) + ['Props/C10link.v']
THEOREMS = list(THEOREMS) + ['C10_gate_ext_partial', 'C10_gate_ext_refuted', 'C10_gates_accept_valid', 'C10_valid_iff_rules']
if globals().get('TABLES'): TABLES = sorted(set(list(TABLES) + _link.TABLES))
PARTS = list(PARTS) + [_link.LinkPart]

THEOREMS = list(THEOREMS) + ['C10_prune_abstracts']
