"""LINK  The three representations of a DcmMeta extension are one object.

Coq: coq/Link/Abs.v defines `to_content : ext jv -> jv` (the content dictionary the library holds for an extension
of the working model of C03..C08, key order of make_empty included), `of_content : jv -> option (ext jv)` and the
command-line view `view : ext jv -> Cli.Model.mext jv`; Props/C07link.v, C09link.v, C10link.v compose C07 (validity is
closed under the operations), C09 (JSON codec) and C10 (check_valid = the format rules) through it.

Correspondence part `content` (class LinkPart, reusable from the plugins of C07 / C09 / C10): extensions are BUILT IN THE
REAL LIBRARY (make_empty + filling the class dictionaries; get_subset / from_sequence results) and observed as
  * the content dictionary (public accessor get_content()),
  * `to_json()` (text, or that it raised).
Coq `Link.Corr.check`: `to_content` of the model extension equals the observed content AS MAPS (same top-level members,
header fields equal, same sub-dictionaries, class dictionaries equal as maps -- the ORDER in which make_empty fills the
dictionaries is stated by no property and is not compared), `Content.check_valid` accepts the observed content iff to_json
succeeded, `Json.parse` of the text is the content (a round trip keeps the order there is: C09; the text layout is not
compared), and `of_content` of the observed content is the model extension.

The ORACLE is a restatement of the documented format on the implementation alone (independent of the Coq model):
every extension the library builds can be serialised, reloads (json.loads / from_json / from_runtime_repr) to an equal
content, and holds exactly (as a map): the base dictionaries of its dimensionality, dcmmeta_shape (list of ints = shape),
dcmmeta_affine (4x4 floats), dcmmeta_reorient_transform, dcmmeta_slice_dim, dcmmeta_version, and each key in the
dictionary of its class (a constant bare, anything else as the list of its values).  Expected values come from the CASE
(make/empty kinds: the extension the generator meant; subset/merge kinds: header and lookups from the inputs through the
dense reference semantics of props/extlib.py); every clause is evaluated, the signature is the clause id."""
import os, copy, json
from collections import OrderedDict

from vlib.coqlit import cstr, cjv
from props import extlib as X

ID = 'LINK'
COQ_PROPS = ['Props/C07link.v', 'Props/C09link.v', 'Props/C10link.v']
THEOREMS = ['C07_valid_content', 'C07_content_valid_partial', 'C07_content_valid_refuted', 'C07_serialisable',
            'C07_closure_serialisable', 'C07_closure_reloads', 'C07_C19_inject_models_agree',
            'C09_from_to_content', 'C09_constructors_agree_content', 'C09_from_json_models_agree', 'C09_roundtrip_ext', 'C09_qtok_dec_float',
            'C10_gate_ext_partial', 'C10_gate_ext_refuted', 'C10_prune_abstracts', 'C10_gates_accept_valid', 'C10_valid_iff_rules']
ALLOWED_AXIOMS = []
TABLES = ['t_content', 't_classes', 't_ext_tol', 't_cli']
RULE = ('content: valid nondegenerate extensions of every dimensionality incl. (X,Y,Z,1), (X,Y,Z,1,V), (X,Y,Z,T,1), every '
        'slice dim (None,0,1,2), 0-5 keys in random classes (canonical or widened), values of every JSON kind, non-ASCII keys; '
        'built by make_empty + filling the class dictionaries (kinds make/*, empty/*), or taken from the results of the real '
        'get_subset / DcmMetaExtension.from_sequence / filter_meta / clear_slice_meta on such inputs (kinds subset/*, merge/*, filter/*, '
        'clear/*), or from DicomStack.to_nifti(voxel order, embed_meta=True) of small stacks (conv/*: reorientation transform present); observed: the content dictionary '
        '(compared as a map), to_json text (parsed). non-trivial = a key in a class of multiplicity > 1 or a singleton '
        'time/vector axis')
TRUSTED_BASE = [
    'props/extlib.py build_ext / ext_to_json (how the JSON form of an extension is put into / read from the real object)',
    'float tokens: the affine is passed to Coq as exact rationals and rendered there by Link.Abs.qtok_dec (exact decimal '
    'expansion); the observed content carries repr() tokens',
]
ASSUMPTIONS = [
    'to_content renders affine entries through a token function; the executable instance qtok_dec is Python repr on dyadic '
    'rationals with at most 15 significant digits and magnitude in [1e-4, 1e16) or zero (the generated affines), no negative zero; '
    'an int-valued numpy affine (tolist() gives ints) is outside the model (the header stores Q)',
    'dcmmeta_reorient_transform is not a field of the Ext model (the extension algebra never reads it): it is carried beside the '
    'extension (to_content_r qtok reo e, theorems quantify over reo); kinds conv/* observe real conversions (small exact-geometry '
    'stacks, to_nifti(voxel_order, embed_meta=True)) whose transform is a signed permutation, compared by the Coq check and '
    'judged by the oracle from the case (signed permutation whose offsets undo the flips; result shape from the stack dims). '
    'That the META DATA of a conversion is what the files say is C01 (LosslessPart), not repeated here; conversions whose affine '
    'entries do not print as their exact decimal expansion fall back to observing a built extension',
    'a varying class of multiplicity one is rendered as a 1-list; such entries are outside `nondegenerate`, never generated, '
    'and when an operation produces one (bare value) the case falls back to observing the operation\'s input',
    'all dictionaries of the content (top level, base dictionaries, class dictionaries) are compared as maps: no property states the '
    'order in which the library fills them (to_content has make_empty\'s order, its theorems do not depend on it); what IS compared '
    'with order is the round trip (json.loads / from_json of the text against the content: C09 "same key order") and '
    're-serialisation (byte-identical: C09); the exception class of a refused to_json is not compared (refused / accepted only)',
    'subset / merge kinds: the extension given to the Coq model is the harness abstraction of the result (extlib.ext_to_json); a '
    'separate oracle clause (result-vs-inputs) checks that abstraction against the inputs of the case (header from the case, every '
    'lookup through the dense reference semantics); messages that are the open finding N13 (row-vs-direction, reported under '
    'C03/C08) are left to those properties',
    'theorems that go from check_valid to Ext.Spec.valid carry the provisos positive extents / nondegenerate / storable / tight '
    'base dictionaries; each is shown necessary by a refutation witness (the blind spots of check_valid, open finding N14)',
    'JSON reload of an extension is proved for JSON-well-formed keys and values (Json.wf: scalar code points, float tokens of the '
    'JSON grammar); C07_closure_reloads carries this through histories of operations by provenance (the operations only ever '
    'produce values / keys of their inputs or None), so the hypothesis is on the inputs only',
]

ERRMAP = {'InvalidExtensionError': 'EInvalidExt', 'KeyError': 'EKey', 'TypeError': 'EType', 'ValueError': 'EValue',
          'IndexError': 'EIndex', 'AttributeError': 'EAttr'}
TOP_TAIL = ['dcmmeta_shape', 'dcmmeta_affine', 'dcmmeta_reorient_transform', 'dcmmeta_slice_dim', 'dcmmeta_version']


# ------------------------------------------------------------------------------------------ helpers

def _plain(o):
    """numpy scalars -> python scalars, tuples -> lists, dict order kept."""
    import numpy as np
    if isinstance(o, np.bool_):
        return bool(o)
    if isinstance(o, np.integer):
        return int(o)
    if isinstance(o, np.floating):
        return float(o)
    if isinstance(o, (list, tuple)):
        return [_plain(x) for x in o]
    if isinstance(o, dict):
        return OrderedDict((k, _plain(v)) for k, v in o.items())
    return o


def content_of(ext):
    """The content dictionary through the public accessor; the private attribute only as a fallback."""
    get = getattr(ext, 'get_content', None)
    if callable(get):
        c = get()
        if isinstance(c, dict):
            return c
    for name in ('_content', '_object'):
        c = getattr(ext, name, None)
        if isinstance(c, dict):
            return c
    raise RuntimeError('harness/no-content-accessor')


def same(a, b):
    """deep equality with types (bool is not int, int is not float) and dictionary ORDER."""
    if isinstance(a, dict) and isinstance(b, dict):
        return list(a.keys()) == list(b.keys()) and all(same(a[k], b[k]) for k in a)
    if isinstance(a, (list, tuple)) and isinstance(b, (list, tuple)):
        return len(a) == len(b) and all(same(x, y) for x, y in zip(a, b))
    if type(a) is not type(b):
        return False
    return a == b


def same_unordered(a, b):
    if isinstance(a, dict) and isinstance(b, dict):
        return set(a.keys()) == set(b.keys()) and all(same(a[k], b[k]) for k in a)
    return False


def qtok_py(x):
    """Python mirror of Link.Abs.qtok_dec (exact decimal expansion of the binary value, at most 80 fraction digits)."""
    from fractions import Fraction
    f = Fraction(x)
    n, d = f.numerator, f.denominator
    a = abs(n)
    ip, r = divmod(a, d)
    digs = []
    while r and len(digs) < 80:
        q, r = divmod(10 * r, d)
        digs.append(str(q))
    return ('-' if n < 0 else '') + str(ip) + '.' + (''.join(digs) or '0')


def tokens_exact(rows):
    """every float of the matrix prints (repr) as its exact decimal expansion: the domain of qtok_dec"""
    import math
    return all(isinstance(x, float) and (x != 0 or math.copysign(1.0, x) > 0) and qtok_py(x) == repr(x) for r in rows for x in r)


def find_meta_ext(img):
    for e in img.header.extensions:
        if hasattr(e, 'get_class_dict'):
            return e
    return None


def expected_bases(shape):
    n = len(shape)
    out = ['global']
    if n == 4 or (n == 5 and shape[3] != 1):
        out.append('time')
    if n == 5:
        out.append('vector')
    return out


# ------------------------------------------------------------------------------------------ the part

class LinkPart:
    NAME = 'content'
    CORR_REQUIRE = 'From DV Require Import Common.Jv Ext.Types Link.Abs Link.Corr.'
    CORR_CASE_TYPE = 'Link.Corr.case'
    CORR_CHECK = 'Link.Corr.check'
    CORR_SHOW = 'Link.Corr.show'
    SHARD = 60
    IMPL_TIMEOUT = 20
    RULE = RULE

    # ---------------------------------------------------------------- generation
    @staticmethod
    def gen_shape(rng, tier):
        hi = 3 if tier == 'quick' else 4
        fam = rng.choice(['any', 'any', 'any', '3d', '4d-t1', '5d-t1', '5d-v1', 'slice1'])
        sdim = rng.choice([0, 1, 2, 2, None])
        sh = [rng.randint(1, 3) for _ in range(3)]
        if sdim is not None:
            sh[sdim] = rng.randint(2, hi)
        if fam == '3d':
            pass
        elif fam == '4d-t1':
            sh.append(1)
        elif fam == '5d-t1':
            sh += [1, rng.randint(2, hi)]
        elif fam == '5d-v1':
            sh += [rng.randint(2, hi), 1]
        else:
            nd = rng.choice([3, 4, 4, 5, 5])
            if nd >= 4:
                sh.append(rng.randint(2, hi))
            if nd == 5:
                sh.append(rng.randint(2, hi))
            if fam == 'slice1' and sdim is not None:
                sh[sdim] = 1
        return sh, sdim, fam

    @staticmethod
    def gen_cases(rng, tier):
        n = 260 if tier == 'quick' else 1500
        cases = []
        for i in range(n):
            r = rng.random()
            if r < 0.45:
                sh, sdim, fam = LinkPart.gen_shape(rng, tier)
                E = X.gen_ext(rng, tier, shape=sh, sdim=sdim, nkeys=rng.randint(0, 5), widen=rng.choice([0.0, 0.3, 0.7]))
                cases.append({'kind': 'make/%s/%dD' % (fam, len(sh)), 'ext': E})
            elif r < 0.52:
                sh, sdim, fam = LinkPart.gen_shape(rng, tier)
                E = X.mk_E(sh, sdim, X.gen_affine(rng), {})
                cases.append({'kind': 'empty/%s/%dD' % (fam, len(sh)), 'ext': E})
            elif r < 0.60:
                sh, sdim, fam = LinkPart.gen_shape(rng, tier)
                E = X.gen_ext(rng, tier, shape=sh, sdim=sdim, nkeys=rng.randint(1, 5), widen=rng.choice([0.0, 0.3, 0.7]))
                if rng.random() < 0.5:
                    keys = [e[0] for e in E['entries']]
                    drop = sorted(rng.sample(keys, rng.randint(0, len(keys)))) if keys else []
                    cases.append({'kind': 'filter/%s/%dD' % (fam, len(sh)), 'ext': E, 'drop': drop})
                else:
                    cases.append({'kind': 'clear/%s/%dD' % (fam, len(sh)), 'ext': E})
            elif r < 0.70:
                from props import convlib as CL
                sh, sdim, fam = LinkPart.gen_shape(rng, tier)
                fb = X.gen_ext(rng, tier, shape=sh, sdim=sdim, nkeys=rng.randint(0, 3))
                st = CL.gen_stack_case(rng, 'quick', orient=rng.choice(['ax', 'ax2', 'cor', 'sag', 'ax', 'cor', 'sag', 'dx', 'dz', 'dcor']), gap=rng.choice([0.5, 1.0, 2.0, 2.5]),
                                       ps=rng.choice([[1.0, 1.0], [0.5, 0.75], [2.0, 2.0], [0.25, 1.5]]),
                                       origin=[rng.choice([-8., -1.5, 0., 4., 16.25]) for _ in range(3)], zs=None,
                                       vo=rng.choice(CL.CODES48 + ['', None]), pixmix=[], alloc=16, bits=16)
                cases.append({'kind': 'conv/%s' % (st.get('vo') if st.get('vo') not in ('', None) else 'asis'), 'stack': st, 'ext': fb})
            elif r < 0.85:
                c = X.gen_subset_case(rng, tier)
                cases.append({'kind': 'subset/dim%d/%dD' % (c['dim'], len(c['ext']['shape'])), 'ext': c['ext'],
                              'dim': c['dim'], 'idx': c['idx']})
            else:
                c = X.gen_merge_case(rng, tier)
                cases.append({'kind': 'merge/dim%d/%dD' % (c['dim'], len(c['exts'][0]['shape'])), 'exts': c['exts'],
                              'dim': c['dim'], 'aff': c['aff'], 'sdim_arg': c['sdim_arg']})
        return cases

    # ---------------------------------------------------------------- implementation
    @staticmethod
    def run_impl(case):
        import warnings
        warnings.simplefilter('ignore')
        import numpy as np
        from dcmstack import dcmmeta
        op = case['kind'].split('/')[0]
        src = 'built'
        ext, E = None, None
        if op == 'subset':
            try:
                r = X.build_ext(case['ext']).get_subset(case['dim'], case['idx'])
                E, ext, src = X.ext_to_json(r), r, 'subset'
            except Exception as e:      # noqa: BLE001  regions of the open findings N1..N4 / degenerate results
                src = 'input-fallback:' + type(e).__name__
        elif op == 'merge':
            try:
                aff = None if case.get('aff') is None else np.array(case['aff'], dtype=float)
                r = dcmmeta.DcmMetaExtension.from_sequence([X.build_ext(e) for e in case['exts']], case['dim'], aff,
                                                           case.get('sdim_arg'))
                E, ext, src = X.ext_to_json(r), r, 'merge'
            except Exception as e:      # noqa: BLE001
                src = 'input-fallback:' + type(e).__name__
        elif op in ('filter', 'clear'):
            # filter_meta / clear_slice_meta work in place on a freshly built extension
            r = X.build_ext(case['ext'])
            if op == 'filter':
                drop = set(case['drop'])
                r.filter_meta(lambda key, val: key in drop)
            else:
                r.clear_slice_meta()
            E, ext, src = X.ext_to_json(r), r, op
        elif op == 'conv':
            import dcmstack
            from props import convlib as CL
            st, wid, img, err, calls = CL.run_to_nifti(dcmstack, case['stack'], embed=True)
            r = find_meta_ext(img) if img is not None else None
            if r is None:
                src = 'input-fallback:conv-' + str(err)
            else:
                try:
                    E, ext, src = X.ext_to_json(r), r, 'conv'
                except Exception as e:      # noqa: BLE001  a degenerate result has no abstraction
                    src = 'input-fallback:' + type(e).__name__
        if ext is None:
            E = case['ext'] if 'ext' in case else case['exts'][0]
            ext = X.build_ext(E)
        reo = content_of(ext).get('dcmmeta_reorient_transform') if ext is not None else None
        if src == 'conv' and not (tokens_exact(E['aff']) and (reo is None or tokens_exact(reo))):
            # affine entries whose repr is not their exact decimal expansion: outside the executable token model (ASSUMPTIONS)
            E = case['ext']
            ext, src = X.build_ext(E), 'input-fallback:tokens'
        if src in ('subset', 'merge', 'conv') and not X.is_nondegenerate(E):
            # a bare value / 1-list in a varying class of multiplicity one: outside the domain of the Ext model
            E = case['ext'] if 'ext' in case else case['exts'][0]
            ext, src = X.build_ext(E), 'input-fallback:degenerate'
        obs = {'src': src, 'E': E, 'content': _plain(content_of(ext)), 'abs': None}
        obs['reo'] = obs['content'].get('dcmmeta_reorient_transform')
        try:
            obs['abs'] = X.ext_to_json(ext)
        except Exception as e:          # noqa: BLE001
            obs['abs'] = {'err': str(e)[:200]}
        try:
            text = ext.to_json()
            obs['json'] = {'ok': text}
        except Exception as e:          # noqa: BLE001
            obs['json'] = {'err': 'EInvalidExt', 'exc': type(e).__name__, 'msg': str(e)[:200]}
            return obs
        rl = {}
        try:
            rl['loads'] = same(json.loads(text, object_pairs_hook=OrderedDict), obs['content'])
        except Exception as e:          # noqa: BLE001
            rl['loads'] = 'exc:' + type(e).__name__
        try:
            back = dcmmeta.DcmMetaExtension.from_json(text)
            rl['from_json'] = same(_plain(content_of(back)), obs['content'])
            rl['again'] = back.to_json() == text
        except Exception as e:          # noqa: BLE001
            rl['from_json'] = 'exc:' + type(e).__name__
        try:
            back2 = dcmmeta.DcmMetaExtension.from_runtime_repr(copy.deepcopy(content_of(ext)))
            rl['runtime'] = same(_plain(content_of(back2)), obs['content'])
        except Exception as e:          # noqa: BLE001
            rl['runtime'] = 'exc:' + type(e).__name__
        obs['reload'] = rl
        return obs

    # ---------------------------------------------------------------- Coq literal
    @staticmethod
    def coq_case(case, obs):
        j = obs['json']
        res = '(Ok tt)' if 'ok' in j else '(Err %s)' % j['err']
        reo = obs.get('reo')
        creo = 'None' if reo is None else '(Some %s)' % X.caff(reo)
        return '(Link.Corr.mk_case %s %s %s %s %s)' % (X.ext_to_coq(obs['E']), creo, cjv(obs['content']), res,
                                                       cstr(j.get('ok', '')))

    # ---------------------------------------------------------------- oracle (implementation only)
    @staticmethod
    def clauses(case, obs):
        """All failing clauses as (clause id, text).  Expected values come from the CASE."""
        if 'crash' in obs:
            return [('harness-crash/' + str(obs.get('crash')), 'the extension could not be built / observed: %s' % obs.get('msg', '')[:200])]
        out = []
        op = case['kind'].split('/')[0]
        src = obs.get('src', '')
        c = obs['content']
        j = obs['json']
        # what the generator meant: the case's own extension for make / empty kinds and for fall-backs
        if src in ('subset', 'merge'):
            E = obs['E']
            if src == 'subset':
                msgs = X.oracle_subset_all({'ext': case['ext'], 'dim': case['dim'], 'idx': case['idx']}, {'ext': E})
            else:
                msgs = X.oracle_merge_all(case, {'ext': E})
            msgs = [m for m in msgs if not X.n13_tagged(m)]
            if msgs:
                out.append(('result-vs-inputs', 'the result of the operation, read back, is not what its inputs give: ' + msgs[0]))
        elif src in ('filter', 'clear'):
            E0 = case['ext']
            keep = (lambda e: e[0] not in set(case['drop'])) if src == 'filter' else (lambda e: X.PYCLS[e[1]][1] != 'slices')
            E = dict(E0, entries=[e for e in E0['entries'] if keep(e)])
            if obs.get('abs') != E:
                out.append(('result-vs-inputs', '%s left %r, expected the entries %r' % (src, obs.get('abs'), E['entries'])))
        elif src == 'conv':
            E = obs['E']
            st = case['stack']
            S, T, V = st['dims']
            f0 = st['files'][0]
            tail = [T, V] if V > 1 else ([T] if T > 1 else [])
            if sorted(E['shape'][:3]) != sorted([f0['rows'], f0['cols'], S]) or E['shape'][3:] != tail:
                out.append(('conv-shape', 'converted extension has shape %r; the stack is %d x %d pixels, %d slices, %d time points, %d vector components'
                            % (E['shape'], f0['rows'], f0['cols'], S, T, V)))
            m = LinkPart.transform_problem(obs.get('reo'), E['shape'], st.get('vo'))
            if m:
                out.append(('conv-transform', m))
        else:
            E = case['ext'] if 'ext' in case else case['exts'][0]
            if obs.get('abs') != E:
                out.append(('built-vs-meant', 'the extension built in the library does not read back as the one the generator meant: %r'
                            % (obs.get('abs'),)))
        if 'err' in j:
            out.insert(0, ('not-serialisable', 'an extension the library built cannot be serialised: to_json raised %s (%s)'
                           % (j.get('exc'), j.get('msg'))))
        if not isinstance(c, dict):
            out.append(('content-not-dict', 'content is %r' % (type(c).__name__,)))
            return out
        want_top = set(expected_bases(E['shape']) + TOP_TAIL)
        if set(c.keys()) != want_top:
            out.append(('top-level-members', 'top-level members %r, expected %r' % (sorted(c.keys()), sorted(want_top))))
        sh = c.get('dcmmeta_shape')
        if not (isinstance(sh, list) and all(isinstance(x, int) and not isinstance(x, bool) for x in sh) and sh == E['shape']):
            out.append(('shape', 'dcmmeta_shape is %r, expected the list %r' % (sh, E['shape'])))
        sd = c.get('dcmmeta_slice_dim', 'absent')
        if sd != E['sdim'] or isinstance(sd, bool):
            out.append(('slice-dim', 'dcmmeta_slice_dim is %r, expected %r' % (sd, E['sdim'])))
        a = c.get('dcmmeta_affine')
        if not (isinstance(a, list) and len(a) == 4 and all(isinstance(r, list) and len(r) == 4 and
                                                             all(isinstance(x, float) for x in r) for r in a)):
            out.append(('affine-form', 'dcmmeta_affine is not a 4x4 list of floats: %r' % (a,)))
        elif a != [[float(x) for x in r] for r in E['aff']]:
            out.append(('affine-value', 'dcmmeta_affine %r differs from the affine %r' % (a, E['aff'])))
        if src != 'conv' and c.get('dcmmeta_reorient_transform', 'absent') is not None:
            out.append(('reorient', 'dcmmeta_reorient_transform is %r' % (c.get('dcmmeta_reorient_transform', 'absent'),)))
        if c.get('dcmmeta_version') != 0.6:
            out.append(('version', 'dcmmeta_version is %r' % (c.get('dcmmeta_version'),)))
        want = {}
        for k, cl, vs in E['entries']:
            want.setdefault(X.PYCLS[cl], {})[k] = vs[0] if cl == 'GConst' else list(vs)
        for base in expected_bases(E['shape']):
            subs = ['const', 'slices'] if base == 'global' else ['samples', 'slices']
            bd = c.get(base)
            if not isinstance(bd, dict) or set(bd.keys()) != set(subs):
                out.append(('base-dictionary', 'base dictionary %r has members %r, expected %r'
                            % (base, sorted(bd.keys()) if isinstance(bd, dict) else bd, subs)))
                continue
            for sub in subs:
                d = bd[sub]
                if not isinstance(d, dict) or not same_unordered(d, want.get((base, sub), {})):
                    out.append(('class-dictionary', 'class dictionary (%r,%r) holds %r, expected %r' % (base, sub, d, want.get((base, sub), {}))))
        if 'ok' in j:
            rl = obs.get('reload', {})
            for what, cid in (('loads', 'reload-json-loads'), ('from_json', 'reload-from-json'), ('again', 'reserialise'),
                              ('runtime', 'reload-runtime-repr')):
                if rl.get(what) is not True:
                    out.append((cid, 'written and read back (%s): %r' % (what, rl.get(what))))
        return out

    @staticmethod
    def transform_problem(T, shape, vo):
        """The reorientation transform of a conversion is a 4x4 signed permutation of the three voxel axes whose offsets undo
        the flips (a flipped axis c of extent n maps index i to n - 1 - i); the identity when no reordering was asked for."""
        if not (isinstance(T, list) and len(T) == 4 and all(isinstance(r, list) and len(r) == 4 and all(isinstance(x, float) for x in r) for r in T)):
            return 'the reorientation transform is not a 4x4 list of floats: %r' % (T,)
        if T[3] != [0.0, 0.0, 0.0, 1.0]:
            return 'last row of the reorientation transform is %r' % (T[3],)
        cols = []
        for r in range(3):
            nz = [c for c in range(3) if T[r][c] != 0.0]
            if len(nz) != 1 or abs(T[r][nz[0]]) != 1.0:
                return 'row %d of the reorientation transform is not a signed unit vector: %r' % (r, T[r])
            c = nz[0]
            cols.append(c)
            want = float(shape[c] - 1) if T[r][c] < 0 else 0.0
            if T[r][3] != want:
                return 'offset %r of row %d does not undo the flip of an axis of extent %d' % (T[r][3], r, shape[c])
        if sorted(cols) != [0, 1, 2]:
            return 'the reorientation transform is not a permutation of the axes: %r' % (T,)
        if vo == '' and T[:3] != [[1.0, 0.0, 0.0, 0.0], [0.0, 1.0, 0.0, 0.0], [0.0, 0.0, 1.0, 0.0]]:
            return 'no reordering was asked for but the transform is %r' % (T,)
        return None

    @staticmethod
    def oracle(case, obs):
        cl = LinkPart.clauses(case, obs)
        return ('%s: %s' % cl[0]) if cl else None

    @staticmethod
    def signature(case, obs, msg):
        return 'link/' + (msg or '').split(':')[0]

    @staticmethod
    def nontrivial(case, obs):
        E = obs.get('E') if isinstance(obs, dict) else None
        if not E:
            return False
        d = X.dims(E)
        return any(X.mult(d, c) > 1 for _, c, _ in E['entries']) or 1 in E['shape'][3:]

    @staticmethod
    def shrink(case):
        if 'ext' in case and case['kind'].split('/')[0] in ('make', 'empty'):
            E = case['ext']
            for i in range(len(E['entries'])):
                E2 = copy.deepcopy(E)
                del E2['entries'][i]
                yield {'kind': case['kind'], 'ext': E2}
        elif 'ext' in case and 'stack' not in case:
            yield {'kind': 'make/shrunk/%dD' % len(case['ext']['shape']), 'ext': case['ext']}
        elif 'exts' in case:
            yield {'kind': 'make/shrunk/%dD' % len(case['exts'][0]['shape']), 'ext': case['exts'][0]}


PARTS = [LinkPart]
