"""LINK  The three representations of a DcmMeta extension are one object.

Coq: coq/Link/Abs.v defines `to_content : ext jv -> jv` (the content dictionary the library holds for an extension
of the working model of C03..C08, key order of make_empty included), `of_content : jv -> option (ext jv)` and the
command-line view `view : ext jv -> Cli.Model.mext jv`; Props/C07link.v, C09link.v, C10link.v compose C07 (validity is
closed under the operations), C09 (JSON codec) and C10 (check_valid = the format rules) through it.

Correspondence part `content` (class LinkPart, reusable from the plugins of C07 / C09 / C10): extensions are BUILT IN THE
REAL LIBRARY (make_empty + filling the class dictionaries; get_subset / from_sequence results) and observed as
  * `ext._content` rendered with its key ORDER,
  * `to_json()` (text or exception class).
Coq `Link.Corr.check`: `to_content` of the model extension equals the observed content (top-level key order and header
fields exact, base dictionaries in order, class dictionaries as unordered maps), `Content.check_valid` of the observed
content agrees with to_json, `Json.print` of the observed content IS the observed text and `Json.parse` of the text is the
content, and `of_content` of the observed content is the model extension.

The ORACLE is a restatement of the documented format on the implementation alone (independent of the Coq model):
every extension the library builds can be serialised, reloads (json.loads / from_json / from_runtime_repr) to an equal
content, and holds exactly: the base dictionaries of its dimensionality, then dcmmeta_shape (list of ints = shape),
dcmmeta_affine (4x4 floats), dcmmeta_reorient_transform, dcmmeta_slice_dim, dcmmeta_version, and each key in the
dictionary of its class (a constant bare, anything else as the list of its values)."""
import os, copy, json
from collections import OrderedDict

from vlib.coqlit import cstr, cjv
from props import extlib as X

ID = 'LINK'
COQ_PROPS = ['Props/C07link.v', 'Props/C09link.v', 'Props/C10link.v']
THEOREMS = ['C07_valid_content', 'C07_content_valid_partial', 'C07_content_valid_refuted', 'C07_serialisable',
            'C07_closure_serialisable', 'C07_closure_reloads', 'C07_C19_inject_models_agree',
            'C09_from_to_content', 'C09_constructors_agree_content', 'C09_from_json_models_agree', 'C09_roundtrip_ext', 'C09_qtok_dec_float',
            'C10_gate_ext_partial', 'C10_gate_ext_refuted', 'C10_gates_accept_valid', 'C10_valid_iff_rules']
ALLOWED_AXIOMS = []
TABLES = ['t_content', 't_classes', 't_ext_tol', 't_cli']
RULE = ('content: valid nondegenerate extensions of every dimensionality incl. (X,Y,Z,1), (X,Y,Z,1,V), (X,Y,Z,T,1), every '
        'slice dim (None,0,1,2), 0-5 keys in random classes (canonical or widened), values of every JSON kind, non-ASCII keys; '
        'built by make_empty + filling the class dictionaries (kinds make/*, empty/*), or taken from the results of the real '
        'get_subset / DcmMetaExtension.from_sequence on such inputs (kinds subset/*, merge/*); observed: _content with key '
        'order, to_json text. non-trivial = a key in a class of multiplicity > 1 or a singleton time/vector axis')
TRUSTED_BASE = [
    'props/extlib.py build_ext / ext_to_json (how the JSON form of an extension is put into / read from the real object)',
    'float tokens: the affine is passed to Coq as exact rationals and rendered there by Link.Abs.qtok_dec (exact decimal '
    'expansion); the observed content carries repr() tokens',
]
ASSUMPTIONS = [
    'to_content renders affine entries through a token function; the executable instance qtok_dec is Python repr on dyadic '
    'rationals with at most 15 significant digits and magnitude in [1e-4, 1e16) or zero (the generated affines), no negative zero; '
    'an int-valued numpy affine (tolist() gives ints) is outside the model (the header stores Q)',
    'dcmmeta_reorient_transform is None in everything generated (the Ext model does not track it): to_content renders null',
    'a varying class of multiplicity one is rendered as a 1-list; such entries are outside `nondegenerate`, never generated, '
    'and when an operation produces one (bare value) the case falls back to observing the operation\'s input',
    'class dictionaries are compared as unordered maps (the key order inside a class dictionary after merge/split is not modelled); '
    'the order of the top-level keys and of the sub-dictionaries is compared exactly',
    'theorems that go from check_valid to Ext.Spec.valid carry the provisos positive extents / nondegenerate / storable / tight '
    'base dictionaries; each is shown necessary by a refutation witness (the blind spots of check_valid, open finding N14)',
    'JSON reload of an extension is proved for JSON-well-formed keys and values (Json.wf: scalar code points, float tokens of the '
    'JSON grammar); C07_closure_reloads carries this through histories of operations by provenance (the operations only ever '
    'produce values / keys of their inputs or None), so the hypothesis is on the inputs only',
]

ERRMAP = {'InvalidExtensionError': 'EInvalidExt', 'KeyError': 'EKey', 'TypeError': 'EType', 'ValueError': 'EValue',
          'IndexError': 'EIndex', 'AttributeError': 'EAttr'}
TOP_TAIL = ['dcmmeta_shape', 'dcmmeta_affine', 'dcmmeta_reorient_transform', 'dcmmeta_slice_dim', 'dcmmeta_version']


# ------------------------------------------------------------------------------------------ helpers

def _plain(o):
    """numpy scalars -> python scalars, tuples -> lists, dict order kept."""
    import numpy as np
    if isinstance(o, np.bool_):
        return bool(o)
    if isinstance(o, np.integer):
        return int(o)
    if isinstance(o, np.floating):
        return float(o)
    if isinstance(o, (list, tuple)):
        return [_plain(x) for x in o]
    if isinstance(o, dict):
        return OrderedDict((k, _plain(v)) for k, v in o.items())
    return o


def same(a, b):
    """deep equality with types (bool is not int, int is not float) and dictionary ORDER."""
    if isinstance(a, dict) and isinstance(b, dict):
        return list(a.keys()) == list(b.keys()) and all(same(a[k], b[k]) for k in a)
    if isinstance(a, (list, tuple)) and isinstance(b, (list, tuple)):
        return len(a) == len(b) and all(same(x, y) for x, y in zip(a, b))
    if type(a) is not type(b):
        return False
    return a == b


def same_unordered(a, b):
    if isinstance(a, dict) and isinstance(b, dict):
        return set(a.keys()) == set(b.keys()) and all(same(a[k], b[k]) for k in a)
    return False


def expected_bases(shape):
    n = len(shape)
    out = ['global']
    if n == 4 or (n == 5 and shape[3] != 1):
        out.append('time')
    if n == 5:
        out.append('vector')
    return out


# ------------------------------------------------------------------------------------------ the part

class LinkPart:
    NAME = 'content'
    CORR_REQUIRE = 'From DV Require Import Common.Jv Ext.Types Link.Abs Link.Corr.'
    CORR_CASE_TYPE = 'Link.Corr.case'
    CORR_CHECK = 'Link.Corr.check'
    CORR_SHOW = 'Link.Corr.show'
    SHARD = 60
    IMPL_TIMEOUT = 20
    RULE = RULE

    # ---------------------------------------------------------------- generation
    @staticmethod
    def gen_shape(rng, tier):
        hi = 3 if tier == 'quick' else 4
        fam = rng.choice(['any', 'any', 'any', '3d', '4d-t1', '5d-t1', '5d-v1', 'slice1'])
        sdim = rng.choice([0, 1, 2, 2, None])
        sh = [rng.randint(1, 3) for _ in range(3)]
        if sdim is not None:
            sh[sdim] = rng.randint(2, hi)
        if fam == '3d':
            pass
        elif fam == '4d-t1':
            sh.append(1)
        elif fam == '5d-t1':
            sh += [1, rng.randint(2, hi)]
        elif fam == '5d-v1':
            sh += [rng.randint(2, hi), 1]
        else:
            nd = rng.choice([3, 4, 4, 5, 5])
            if nd >= 4:
                sh.append(rng.randint(2, hi))
            if nd == 5:
                sh.append(rng.randint(2, hi))
            if fam == 'slice1' and sdim is not None:
                sh[sdim] = 1
        return sh, sdim, fam

    @staticmethod
    def gen_cases(rng, tier):
        n = 260 if tier == 'quick' else 1500
        cases = []
        for i in range(n):
            r = rng.random()
            if r < 0.55:
                sh, sdim, fam = LinkPart.gen_shape(rng, tier)
                E = X.gen_ext(rng, tier, shape=sh, sdim=sdim, nkeys=rng.randint(0, 5), widen=rng.choice([0.0, 0.3, 0.7]))
                cases.append({'kind': 'make/%s/%dD' % (fam, len(sh)), 'ext': E})
            elif r < 0.65:
                sh, sdim, fam = LinkPart.gen_shape(rng, tier)
                E = X.mk_E(sh, sdim, X.gen_affine(rng), {})
                cases.append({'kind': 'empty/%s/%dD' % (fam, len(sh)), 'ext': E})
            elif r < 0.85:
                c = X.gen_subset_case(rng, tier)
                cases.append({'kind': 'subset/dim%d/%dD' % (c['dim'], len(c['ext']['shape'])), 'ext': c['ext'],
                              'dim': c['dim'], 'idx': c['idx']})
            else:
                c = X.gen_merge_case(rng, tier)
                cases.append({'kind': 'merge/dim%d/%dD' % (c['dim'], len(c['exts'][0]['shape'])), 'exts': c['exts'],
                              'dim': c['dim'], 'aff': c['aff'], 'sdim_arg': c['sdim_arg']})
        return cases

    # ---------------------------------------------------------------- implementation
    @staticmethod
    def run_impl(case):
        import warnings
        warnings.simplefilter('ignore')
        import numpy as np
        from dcmstack import dcmmeta
        op = case['kind'].split('/')[0]
        src = 'built'
        ext, E = None, None
        if op == 'subset':
            try:
                r = X.build_ext(case['ext']).get_subset(case['dim'], case['idx'])
                E, ext, src = X.ext_to_json(r), r, 'subset'
            except Exception as e:      # noqa: BLE001  regions of the open findings N1..N4 / degenerate results
                src = 'input-fallback:' + type(e).__name__
        elif op == 'merge':
            try:
                aff = None if case.get('aff') is None else np.array(case['aff'], dtype=float)
                r = dcmmeta.DcmMetaExtension.from_sequence([X.build_ext(e) for e in case['exts']], case['dim'], aff,
                                                           case.get('sdim_arg'))
                E, ext, src = X.ext_to_json(r), r, 'merge'
            except Exception as e:      # noqa: BLE001
                src = 'input-fallback:' + type(e).__name__
        if ext is None:
            E = case['ext'] if 'ext' in case else case['exts'][0]
            ext = X.build_ext(E)
        if src in ('subset', 'merge') and not X.is_nondegenerate(E):
            # a bare value / 1-list in a varying class of multiplicity one: outside the domain of the Ext model
            E = case['ext'] if 'ext' in case else case['exts'][0]
            ext, src = X.build_ext(E), 'input-fallback:degenerate'
        obs = {'src': src, 'E': E, 'content': _plain(ext._content), 'abs': None}
        try:
            obs['abs'] = X.ext_to_json(ext)
        except Exception as e:          # noqa: BLE001
            obs['abs'] = {'err': str(e)[:200]}
        try:
            text = ext.to_json()
            obs['json'] = {'ok': text}
        except Exception as e:          # noqa: BLE001
            obs['json'] = {'err': ERRMAP.get(type(e).__name__, 'ECrash'), 'exc': type(e).__name__, 'msg': str(e)[:200]}
            return obs
        rl = {}
        try:
            rl['loads'] = same(json.loads(text, object_pairs_hook=OrderedDict), obs['content'])
        except Exception as e:          # noqa: BLE001
            rl['loads'] = 'exc:' + type(e).__name__
        try:
            back = dcmmeta.DcmMetaExtension.from_json(text)
            rl['from_json'] = same(_plain(back._content), obs['content'])
            rl['again'] = back.to_json() == text
        except Exception as e:          # noqa: BLE001
            rl['from_json'] = 'exc:' + type(e).__name__
        try:
            back2 = dcmmeta.DcmMetaExtension.from_runtime_repr(copy.deepcopy(ext._content))
            rl['runtime'] = same(_plain(back2._content), obs['content'])
        except Exception as e:          # noqa: BLE001
            rl['runtime'] = 'exc:' + type(e).__name__
        obs['reload'] = rl
        return obs

    # ---------------------------------------------------------------- Coq literal
    @staticmethod
    def coq_case(case, obs):
        j = obs['json']
        res = '(Ok tt)' if 'ok' in j else '(Err %s)' % j['err']
        return '(Link.Corr.mk_case %s %s %s %s)' % (X.ext_to_coq(obs['E']), cjv(obs['content']), res,
                                                    cstr(j.get('ok', '')))

    # ---------------------------------------------------------------- oracle (implementation only)
    @staticmethod
    def oracle(case, obs):
        if 'crash' in obs:
            return 'the harness could not build the extension: %s %s' % (obs.get('crash'), obs.get('msg', '')[:200])
        E, c = obs['E'], obs['content']
        j = obs['json']
        if 'err' in j:
            return 'an extension the library built cannot be serialised: to_json raised %s (%s)' % (j.get('exc'), j.get('msg'))
        if not isinstance(c, dict):
            return 'content is not a dictionary'
        want_top = expected_bases(E['shape']) + TOP_TAIL
        if list(c.keys()) != want_top:
            return 'top-level keys %r, expected %r' % (list(c.keys()), want_top)
        sh = c['dcmmeta_shape']
        if not (isinstance(sh, list) and all(isinstance(x, int) and not isinstance(x, bool) for x in sh) and sh == E['shape']):
            return 'dcmmeta_shape is %r, expected the list %r' % (sh, E['shape'])
        if c['dcmmeta_slice_dim'] != E['sdim'] or isinstance(c['dcmmeta_slice_dim'], bool):
            return 'dcmmeta_slice_dim is %r, expected %r' % (c['dcmmeta_slice_dim'], E['sdim'])
        a = c['dcmmeta_affine']
        if not (isinstance(a, list) and len(a) == 4 and all(isinstance(r, list) and len(r) == 4 and
                                                             all(type(x) is float for x in r) for r in a)):
            return 'dcmmeta_affine is not a 4x4 list of floats: %r' % (a,)
        if a != [[float(x) for x in r] for r in E['aff']]:
            return 'dcmmeta_affine %r differs from the affine %r' % (a, E['aff'])
        if c['dcmmeta_reorient_transform'] is not None:
            return 'dcmmeta_reorient_transform is %r' % (c['dcmmeta_reorient_transform'],)
        if c['dcmmeta_version'] != 0.6:
            return 'dcmmeta_version is %r' % (c['dcmmeta_version'],)
        want = {}
        for k, cl, vs in E['entries']:
            want.setdefault(X.PYCLS[cl], {})[k] = vs[0] if cl == 'GConst' else list(vs)
        for base in expected_bases(E['shape']):
            subs = ['const', 'slices'] if base == 'global' else ['samples', 'slices']
            if not isinstance(c[base], dict) or list(c[base].keys()) != subs:
                return 'base dictionary %r has keys %r, expected %r' % (base, list(c[base].keys()) if isinstance(c[base], dict) else c[base], subs)
            for sub in subs:
                d = c[base][sub]
                if not isinstance(d, dict) or not same_unordered(d, want.get((base, sub), {})):
                    return 'class dictionary (%r,%r) holds %r, expected %r' % (base, sub, d, want.get((base, sub), {}))
        if obs.get('abs') != E:
            return 'the content does not read back as the extension it was built from: %r' % (obs.get('abs'),)
        rl = obs.get('reload', {})
        for what in ('loads', 'from_json', 'again', 'runtime'):
            if rl.get(what) is not True:
                return 'written and read back (%s): %r' % (what, rl.get(what))
        return None

    @staticmethod
    def signature(case, obs, msg):
        m = (msg or '').split(':')[0].split(' is ')[0]
        return 'link:' + '-'.join(m.split()[:4])

    @staticmethod
    def nontrivial(case, obs):
        E = obs.get('E') if isinstance(obs, dict) else None
        if not E:
            return False
        d = X.dims(E)
        return any(X.mult(d, c) > 1 for _, c, _ in E['entries']) or 1 in E['shape'][3:]

    @staticmethod
    def shrink(case):
        if 'ext' in case and case['kind'].split('/')[0] in ('make', 'empty'):
            E = case['ext']
            for i in range(len(E['entries'])):
                E2 = copy.deepcopy(E)
                del E2['entries'][i]
                yield {'kind': case['kind'], 'ext': E2}
        elif 'ext' in case:
            yield {'kind': 'make/shrunk/%dD' % len(case['ext']['shape']), 'ext': case['ext']}
        elif 'exts' in case:
            yield {'kind': 'make/shrunk/%dD' % len(case['exts'][0]['shape']), 'ext': case['exts'][0]}


PARTS = [LinkPart]
