"""Shared generators, runners and printers for the DicomStack properties (C11, C12; reusable by
C01/C02/C14/C18/C20).

A *file spec* is a JSON dict from which a pydicom Dataset is built in memory:
  {"id": int, "ipp": [x,y,z], "iop": [6 floats], "rows": r, "cols": c, "ps": [a,b], "pix": bool,
   "tags": {keyword: value}, "cell": [s,t,v] (ground truth, informational)}
A *case* carries the stack configuration and a history:
  {"kind": str, "time_order": null | {"key": k, "abs": null | [values]}, "vector_order": idem,
   "files": [spec...], "ops": [["add", idx] | ["shape"] | ["data"] | ["affine"] |
                               ["nifti", voxel_order, embed] | ["wrapper", voxel_order]]}
All floats are dyadic (or the fixed 3-4-5 / 1-2-2 cosines) so JSON round-trips them exactly.
Nothing here imports dcmstack at module level: the generator side runs inside the driver, the
runner side (functions taking `dcmstack`) runs in the implementation sub-process."""
import os, sys, json, math, re
from fractions import Fraction
from vlib.coqlit import cnat, cbool, clist, copt, cpair, cstr, cq

# ------------------------------------------------------------------------------------------------
# geometry

ORIENTS = {
    'ax':   [1., 0., 0., 0., 1., 0.],
    'ax2':  [0., 1., 0., -1., 0., 0.],
    'sag':  [0., 1., 0., 0., 0., -1.],
    'cor':  [1., 0., 0., 0., 0., -1.],
    'obl1': [1., 0., 0., 0., 0.8, -0.6],                 # 3-4-5 tilt about x
    'obl2': [0.6, 0.8, 0., 0., 0., -1.],                 # 3-4-5 rotation about z
}
# 2-3-6 double oblique: rows of an orthonormal rational matrix (float cosines are rounded, the squared
# norm is 1 within 1e-16); every row and the normal (6,2,-3)/7 have one strictly dominant component, so
# nibabel's io_orientation is unambiguous
ORIENTS['obl3'] = [2. / 7., 3. / 7., 6. / 7., 3. / 7., -6. / 7., 2. / 7.]

GUESS_TAGS = ['EchoTime', 'InversionTime', 'RepetitionTime', 'FlipAngle', 'TriggerTime',
              'AcquisitionTime', 'ContentTime', 'AcquisitionNumber', 'InstanceNumber']
VEC_TAGS = ['EchoNumbers', 'TemporalPositionIdentifier', 'FlipAngle']
INT_TAGS = {'AcquisitionNumber', 'InstanceNumber', 'EchoNumbers', 'TemporalPositionIdentifier'}
TM_TAGS = {'AcquisitionTime', 'ContentTime'}
VOXEL_ORDERS = ['', 'LAS', 'RAS', 'LPI', 'RPI', 'ASL', 'SAL', 'LAI']

ERRMAP = {'InvalidStackError': 'EInvalidStack', 'IncongruentImageError': 'EIncongruent',
          'ImageCollisionError': 'ECollision', 'NonImageDataSetError': 'ENonImage', 'TypeError': 'EType'}
# an add whose DicomOrdering.get_ordinate raises ValueError (value not in abs_ordering) has no counterpart in the
# model (ordinates are given evaluated): such an add must leave the stack unchanged, it is checked by the oracle and
# left out of the model's history
ADD_ONLY_ERR = {'ValueError': 'EValue'}


def cross(a, b):
    return [a[1] * b[2] - a[2] * b[1], a[2] * b[0] - a[0] * b[2], a[0] * b[1] - a[1] * b[0]]


def normal_of(iop):
    """nibabel's slice normal: cross(row-index cosine, column-index cosine) = cross(iop[3:], iop[:3])"""
    return cross(iop[3:6], iop[0:3])


def tm_string(sec):
    """seconds (multiple of 1/8) -> fixed format HHMMSS.ffffff"""
    f = Fraction(sec)
    whole = int(f)
    frac = f - whole
    return '%02d%02d%02d.%06d' % (whole // 3600, (whole // 60) % 60, whole % 60, int(frac * 1000000))


def tm_seconds(s):
    """seconds past midnight of a TM string in any valid form (hh[mm[ss[.f..f]]], optional colons)"""
    t = s.replace(':', '')
    sec = Fraction(int(t[:2]) * 3600)
    if len(t) > 2:
        sec += int(t[2:4]) * 60
    if len(t) > 4:
        sec += Fraction(t[4:])
    return sec


def tm_restyle(s, style):
    """the same time of day written in another valid TM form"""
    f = tm_seconds(s)
    whole = int(f)
    frac = f - whole
    hh, mm, ss = whole // 3600, (whole // 60) % 60, whole % 60
    fs = ('%06d' % int(frac * 1000000)).rstrip('0')
    if style == 'colon':
        return '%02d:%02d:%02d' % (hh, mm, ss) + ('.' + fs if fs else '')
    if style == 'trim':
        if not fs and ss == 0 and mm == 0:
            return '%02d' % hh
        if not fs and ss == 0:
            return '%02d%02d' % (hh, mm)
        return '%02d%02d%02d' % (hh, mm, ss) + ('.' + fs if fs else '')
    return '%02d%02d%02d.%06d' % (hh, mm, ss, int(frac * 1000000))


def tag_value(tag, x):
    """value number x (a small non-negative dyadic) as the Python value stored under `tag`"""
    if tag in INT_TAGS:
        return int(x)
    if tag in TM_TAGS:
        return tm_string(36000 + x)
    return float(x)


class _Stag(object):
    """time ordinate of slice s in volume t: t + [rank of s among the positions < r]"""
    def __init__(self, S, r, asc):
        self.S, self.r, self.asc = S, r, asc

    def __call__(self, s, t, v):
        rank = s if self.asc else self.S - 1 - s
        return 2 + t + (1 if rank < self.r else 0)


def make_grid(rng, S, T, V, orient='ax', direction=1, gap=2.0, origin=(0., 0., 0.), rows=2, cols=3,
              ps=(1.0, 1.0), tagrules=None, consts=None):
    """A complete S x T x V grid.  `tagrules`: {tag: rule} with rule in
       'const','t','v','tv','s','cell','rcell' (unique per file, ascending / scrambled), 'st' (t + s/8)
       or a callable (s,t,v)->number; `consts`: tags identical on every file."""
    iop = ORIENTS[orient]
    n = normal_of(iop)
    files = []
    perm = list(range(S * T * V))
    rng.shuffle(perm)
    k = 0
    for v in range(V):
        for t in range(T):
            for s in range(S):
                step = direction * gap * s
                ipp = [origin[i] + step * n[i] for i in range(3)]
                tags = dict(consts or {})
                for tag, rule in (tagrules or {}).items():
                    cell = s + S * (t + T * v)
                    if callable(rule):
                        x = rule(s, t, v)
                    else:
                        x = {'const': 3, 't': 2 + 3 * t, 'v': 1 + 2 * v, 'tv': 1 + t + T * v, 's': 1 + s,
                             'cell': 1 + cell, 'rcell': 1 + perm[cell],
                             'st': 2 + 4 * t + Fraction(s, 8), 'trev': 20 - 3 * t,
                             't0': 3 * t, 'v0': 2 * v}[rule]
                    tags[tag] = tag_value(tag, x)
                files.append({'id': k, 'ipp': ipp, 'iop': list(iop), 'rows': rows, 'cols': cols,
                              'ps': list(ps), 'pix': True, 'tags': tags, 'cell': [s, t, v]})
                k += 1
    return files


def renumber(files):
    for i, f in enumerate(files):
        f['id'] = i
    return files


# ------------------------------------------------------------------------------------------------
# building data sets and the abstraction the Coq model consumes

def build_ds(spec):
    import numpy as np
    from pydicom.dataset import Dataset, FileMetaDataset
    from pydicom.uid import ExplicitVRLittleEndian
    ds = Dataset()
    ds.file_meta = FileMetaDataset()
    ds.file_meta.TransferSyntaxUID = ExplicitVRLittleEndian
    ds.file_meta.MediaStorageSOPClassUID = '1.2.840.10008.5.1.4.1.1.4'
    ds.file_meta.MediaStorageSOPInstanceUID = '1.2.3.%d' % (spec['id'] + 1)
    ds.SOPClassUID = '1.2.840.10008.5.1.4.1.1.4'
    ds.SOPInstanceUID = '1.2.3.%d' % (spec['id'] + 1)
    ds.SeriesInstanceUID = '1.2.3'
    ds.SeriesNumber = 1
    ds.ProtocolName = 'a'
    ds.Rows = spec['rows']
    ds.Columns = spec['cols']
    ds.PixelSpacing = list(spec['ps'])
    ds.ImageOrientationPatient = list(spec['iop'])
    ds.ImagePositionPatient = list(spec['ipp'])
    ds.BitsAllocated = 16
    ds.BitsStored = spec.get('bits', 12)
    ds.HighBit = spec.get('bits', 12) - 1
    ds.PixelRepresentation = spec.get('pixrep', 0)
    ds.SamplesPerPixel = 1
    ds.PhotometricInterpretation = 'MONOCHROME2'
    if spec.get('pix', True):
        npx = spec['rows'] * spec['cols']
        px = (np.arange(npx, dtype=np.uint32) * 7 + 31 * spec['id'] + 5) % 4000
        if spec.get('pxhi'):
            px = px + 36000            # stored values above 32767: wrap around when the stack array is signed
        ds.PixelData = px.astype(np.uint16).tobytes()
    for k, v in spec.get('tags', {}).items():
        setattr(ds, k, v)
    return ds


def _num(x):
    """An ordinate / guess-key value as an exact Fraction; None stays None.
    Numbers are themselves.  STRINGS (the extractor hands every TM element - AcquisitionTime, ContentTime - to the
    sorter as the raw string, whatever its form: 'hh', 'hhmm', 'hhmmss', 'hhmmss.f..f', with colons) are compared
    by the sorter as Python compares strings, so they are embedded injectively and monotonically for the
    lexicographic order: character i contributes (ord + 1) / 257**(i+1)  (no digit is 0, so a proper prefix is
    smaller).  Equality of the fractions is equality of the strings ('1200' and '120000' are different values
    for the sorter, as in Python).  A key whose values mix strings and numbers (TypeError in Python) is outside
    the modelled domain."""
    if x is None:
        return None
    if isinstance(x, bool):
        raise ValueError('bool ordinate')
    if isinstance(x, int):
        return Fraction(x)
    if isinstance(x, float):
        if x != x or x in (float('inf'), float('-inf')):
            raise ValueError('non finite ordinate')
        return Fraction(x)
    if isinstance(x, str):
        if any(ord(c) > 255 for c in x):
            raise ValueError('ordinate outside the modelled domain: %r' % (x,))
        return sum((Fraction(ord(c) + 1, 257 ** (i + 1)) for i, c in enumerate(x)), Fraction(0))
    raise ValueError('ordinate outside the modelled domain: %r' % (x,))


def fr(x):
    return None if x is None else [x.numerator, x.denominator]


def make_ordering(dcmstack, o):
    if o is None:
        return None
    if o.get('abs') is not None:
        return dcmstack.DicomOrdering(o['key'], abs_ordering=list(o['abs']), abs_as_str=bool(o.get('as_str')))
    return o['key']


def hand_meta(spec):
    """the `meta` argument of add_dcm built by hand from the spec (cases with 'meta_arg'): what the sorter and the
    conversion read, nothing else"""
    m = {'Rows': spec['rows'], 'Columns': spec['cols'], 'PixelSpacing': list(spec['ps']),
         'ImageOrientationPatient': list(spec['iop']), 'ImagePositionPatient': list(spec['ipp']),
         'BitsStored': spec.get('bits', 12)}
    m.update(spec.get('tags', {}))
    return m


def case_meta(spec, ds, case):
    """the meta data dictionary add_dcm works with in this case"""
    if case.get('meta_arg'):
        return hand_meta(spec)
    from dcmstack.extract import default_extractor
    return default_extractor(ds)


def abstract_file(dcmstack, spec, ds, case):
    """What the sorter sees of one data set, taken from nibabel's wrapper and the default extractor (NOT from the
    stack): the INPUT of the Coq model.  It is never the yardstick of an oracle: `spec_truth` is, and the oracles
    carry the clause `abstraction == spec truth` (abstraction_diff)."""
    from nibabel.nicom.dicomwrappers import wrapper_from_data
    meta = case_meta(spec, ds, case)
    a = {'id': spec['id'], 'pix': bool(dcmstack.is_image(ds)),
         'rows': int(meta['Rows']), 'cols': int(meta['Columns']),
         'ps': [fr(Fraction(float(x))) for x in meta['PixelSpacing']],
         'iop': [fr(Fraction(float(x))) for x in meta['ImageOrientationPatient']]}
    dw = wrapper_from_data(ds)
    a['pos'] = fr(Fraction(float(dw.slice_indicator)))
    for nm, o in (('time', case.get('time_order')), ('vec', case.get('vector_order'))):
        if o is None:
            a[nm] = None
        else:
            ordg = make_ordering(dcmstack, o)
            if isinstance(ordg, str):
                ordg = dcmstack.DicomOrdering(ordg)
            try:
                val = ordg.get_ordinate(meta)
            except ValueError:
                # abs_ordering.index(value) failed: classified by the exception class and the region only
                val = None
                a['bad_ordinate'] = True
            a[nm] = fr(_num(val))
    a['meta'] = [[k, fr(_num(meta.get(k)))] for k in dcmstack.DicomStack.sort_guesses if meta.get(k) is not None]
    a['tr'] = fr(_num(meta.get('RepetitionTime')))
    a['phase'] = meta.get('InPlanePhaseEncodingDirection')
    a['dtype'] = dtype_code(dw.get_data().dtype) if a['pix'] else 0
    a['bits'] = int(meta.get('BitsStored', 16))
    a['has_acq'] = meta.get('AcquisitionTime') is not None
    return a


def spec_truth(spec, case):
    """The same quantities from the GENERATOR's spec alone (no library call): the ground truth of the oracles."""
    tags = dict((k, v) for k, v in spec.get('tags', {}).items() if v != '')    # an empty element has no value
    iop = [Fraction(x) for x in spec['iop']]
    n = normal_of(iop)
    t = {'id': spec['id'], 'pix': bool(spec.get('pix', True)), 'rows': spec['rows'], 'cols': spec['cols'],
         'ps': [fr(Fraction(x)) for x in spec['ps']], 'iop': [fr(x) for x in iop],
         'pos': fr(sum(Fraction(a) * b for a, b in zip(spec['ipp'], n)))}
    for nm, o in (('time', case.get('time_order')), ('vec', case.get('vector_order'))):
        if o is None:
            t[nm] = None
            continue
        val = tags.get(o['key'])
        if val is not None and o.get('abs'):
            if o.get('as_str'):
                val = str(val)
            if val in o['abs']:
                val = list(o['abs']).index(val)
            else:
                val = None
                t['bad_ordinate'] = True
        t[nm] = fr(_num(val))
    t['meta'] = [[k, fr(_num(tags[k]))] for k in GUESS_TAGS if tags.get(k) is not None]
    t['tr'] = fr(_num(tags.get('RepetitionTime')))
    t['phase'] = tags.get('InPlanePhaseEncodingDirection')
    t['dtype'] = 0 if spec.get('pixrep', 0) else 1
    t['bits'] = spec.get('bits', 12)
    t['has_acq'] = tags.get('AcquisitionTime') is not None
    return t


def abstraction_diff(a, t):
    """first field in which the library-derived abstraction differs from the spec truth (None: they agree); the
    slice position is a float inner product on the library side, compared within 1e-9"""
    for k in ('pix', 'rows', 'cols', 'ps', 'iop', 'time', 'vec', 'tr', 'phase', 'bits', 'has_acq'):
        if a.get(k) != t.get(k):
            return k
    if bool(a.get('bad_ordinate')) != bool(t.get('bad_ordinate')):
        return 'bad_ordinate'
    if t['pix'] and a.get('dtype') != t.get('dtype'):
        return 'dtype'
    if sorted(map(tuple, ((k, tuple(v)) for k, v in a['meta']))) != sorted(map(tuple, ((k, tuple(v)) for k, v in t['meta']))):
        return 'meta'
    pa, pt = F(a['pos']), F(t['pos'])
    if abs(pa - pt) > Fraction(1, 10 ** 9) * (1 + abs(pt)):
        return 'pos'
    return None


DTYPES = {'int16': 0, 'uint16': 1, 'uint8': 2, 'int8': 3, 'int32': 4, 'uint32': 5, 'float32': 6, 'float64': 7}


def dtype_code(dt):
    return DTYPES[str(dt)]


def wants_flip(dcmstack, ds, vo):
    """Does `reorder_voxels` flip the slice axis for this orientation when the slice column points along
    +slice_normal (files ascending in slice_indicator)?  None when no reorientation is requested.
    (model INPUT, not an oracle yardstick)"""
    if not vo:
        return None
    import numpy as np
    from nibabel.nicom.dicomwrappers import wrapper_from_data
    aff = np.dot(np.diag([-1., -1., 1., 1.]), wrapper_from_data(ds).affine)
    _, _, _, ornt_trans = dcmstack.reorder_voxels(np.zeros((2, 2, 2)), aff, vo)
    return bool(ornt_trans[2][1] == -1)


def axis_perm(dcmstack, ds, vo):
    """the axis permutation reorder_voxels applies for this orientation (identity without reorientation)"""
    if not vo:
        return [0, 1, 2]
    import numpy as np
    from nibabel.nicom.dicomwrappers import wrapper_from_data
    aff = np.dot(np.diag([-1., -1., 1., 1.]), wrapper_from_data(ds).affine)
    _, _, _, ornt_trans = dcmstack.reorder_voxels(np.zeros((2, 2, 2)), aff, vo)
    return [int(x[0]) for x in ornt_trans]


# ------------------------------------------------------------------------------------------------
# running a history on the real DicomStack: PUBLIC results only

def file_pixels(ds):
    """the pixel values of a data set as nibabel's DicomWrapper decodes them (pydicom masks to BitsStored): the
    wrapper is a contract, not the code under test"""
    from nibabel.nicom.dicomwrappers import wrapper_from_data
    return wrapper_from_data(ds).get_data()


def err_code(dcmstack, e):
    """exception -> result code: the documented classes by isinstance, anything else 'X:<class name>'"""
    for cls, code in (('InvalidStackError', 'EInvalidStack'), ('IncongruentImageError', 'EIncongruent'),
                      ('ImageCollisionError', 'ECollision'), ('NonImageDataSetError', 'ENonImage')):
        c = getattr(dcmstack, cls, None)
        if c is not None and isinstance(e, c):
            return code
    if isinstance(e, TypeError):
        return 'EType'
    return 'X:' + type(e).__name__


def sha(b):
    import hashlib
    return hashlib.sha1(b).hexdigest()[:16]


PART_KEYS = ['data', 'dtype', 'shape', 'affine', 'pixdim4', 'dim_info', 'slice', 'units', 'ext', 'bytes']


def nifti_parts(img):
    """the pieces of a conversion result that C12 talks about, as bytes / plain values"""
    import numpy as np
    if img is None:
        return None
    hdr = img.header
    exts = []
    for e in hdr.extensions:
        c = e.get_content()
        exts.append(e.to_json() if hasattr(e, 'to_json') else repr(c))
    return {
        'data': np.ascontiguousarray(np.asanyarray(img.dataobj)).tobytes().hex(),
        'dtype': str(img.get_data_dtype()),
        'shape': [int(x) for x in img.shape],
        'affine': np.asarray(img.affine, dtype=np.float64).tobytes().hex(),
        'pixdim4': float(hdr['pixdim'][4]).hex(),
        'dim_info': [None if x is None else int(x) for x in hdr.get_dim_info()],
        'slice': [float(hdr['slice_duration']).hex(), int(hdr['slice_code']), int(hdr['slice_start']), int(hdr['slice_end'])],
        'units': list(hdr.get_xyzt_units()),
        'ext': exts,
        'bytes': img.to_bytes().hex(),
    }


def value_of(kind, obj):
    """a result BY VALUE as a dict of short digests (one per part)"""
    import numpy as np
    if kind == 'shape':
        return {'shape': json.dumps([int(x) for x in obj])}
    if kind == 'data':
        a = np.ascontiguousarray(obj)
        return {'data': sha(a.tobytes()), 'dtype': str(a.dtype), 'shape': json.dumps([int(x) for x in a.shape])}
    if kind == 'affine':
        return {'affine': sha(np.asarray(obj, dtype=np.float64).tobytes())}
    p = nifti_parts(obj)
    return dict((k, sha(json.dumps(p[k]).encode())) for k in PART_KEYS)


META_FILTERS = [
    {'kind': 'regex', 'excl': ['Time']},                  # AcquisitionTime (slice timing), EchoTime, RepetitionTime ...
    {'kind': 'regex', 'excl': ['^Bits']},                 # BitsStored (signed-short hack of get_data)
    {'kind': 'regex', 'excl': ['EchoTime', 'InversionTime', 'RepetitionTime', 'FlipAngle', 'TriggerTime',
                               'AcquisitionTime', 'ContentTime', 'AcquisitionNumber', 'InstanceNumber']},
    {'kind': 'regex', 'excl': ['InstanceNumber', 'Number$']},
    {'kind': 'regex', 'excl': ['.*'], 'incl': ['^Rows$', 'Columns']},
    {'kind': 'regex', 'excl': ['Time', 'Bits', 'Number'], 'incl': ['EchoTime']},
    {'kind': 'lambda', 'name': 'time'},
    {'kind': 'lambda', 'name': 'all'},
    {'kind': 'lambda', 'name': 'none'},
    {'kind': 'lambda', 'name': 'numbers'},
]


def make_meta_filter(dcmstack, mf):
    """the `meta_filter` constructor argument of a case (None: the library's default filter)"""
    if mf is None:
        return None
    if mf['kind'] == 'regex':
        return dcmstack.make_key_regex_filter(list(mf['excl']), list(mf.get('incl') or []))
    return {'time': lambda key, val: 'Time' in key,
            'all': lambda key, val: True,
            'none': lambda key, val: False,
            'numbers': lambda key, val: isinstance(val, (int, float)) and not isinstance(val, bool)}[mf['name']]


def aff16(a):
    """a 4x4 array of doubles as 16 exact fractions, row major"""
    import numpy as np
    return [fr(Fraction(float(x))) for x in np.asarray(a, dtype=np.float64).ravel()]


def file_affine(ds):
    """the affine of the NiftiWrapper made for a data set: diag(-1,-1,1,1) x DicomWrapper.affine (nibabel: a
    contract); None when nibabel refuses the orientation"""
    import numpy as np
    from nibabel.nicom.dicomwrappers import wrapper_from_data, WrapperError
    try:
        return aff16(np.dot(np.diag([-1., -1., 1., 1.]), wrapper_from_data(ds).affine))
    except WrapperError:
        return None


class Runner(object):
    """Drives one DicomStack through a history.  Nothing private is read: which files were accepted follows from
    add_dcm raising or not, the order of the files in a result from the pixel values."""

    def __init__(self, dcmstack, case):
        self.dcmstack = dcmstack
        self.case = case
        kw = {}
        if case.get('meta_filter') is not None:
            kw['meta_filter'] = make_meta_filter(dcmstack, case['meta_filter'])
        self.stack = dcmstack.DicomStack(time_order=make_ordering(dcmstack, case.get('time_order')),
                                         vector_order=make_ordering(dcmstack, case.get('vector_order')), **kw)
        self.ds = {}
        self.accepted = []       # indices into case['files'], since the last clear()
        self.last = None
        self.results = []        # [op index, kind, object, value at return time]
        self.changed = []        # earlier results found changed later: [result op, kind, after op, parts]
        self.nop = 0

    def dataset(self, idx):
        if idx not in self.ds:
            self.ds[idx] = build_ds(self.case['files'][idx])
        return self.ds[idx]

    def file_order(self, arr, slice_axis):
        """ids of the files whose pixels make up the voxel array, slice-major then time then vector; -1 where a
        block matches no accepted file"""
        import numpy as np
        a = np.asarray(arr)
        while a.ndim < 5:
            a = a.reshape(a.shape + (1,))
        a = np.moveaxis(a, slice_axis, 2)
        table = {}
        for i in self.accepted:
            spec = self.case['files'][i]
            table[tuple(sorted(file_pixels(self.dataset(i)).astype(a.dtype).ravel().tolist()))] = spec['id']
        out = []
        for v in range(a.shape[4]):
            for t in range(a.shape[3]):
                for s in range(a.shape[2]):
                    out.append(table.get(tuple(sorted(a[:, :, s, t, v].ravel().tolist())), -1))
        return out

    def header_obs(self, out, vo):
        """pixdim[4] exactly (float32 -> Fraction), the phase code of dim_info (0 unset, 1 'ROW' = phase on the axis
        the second array axis went to, 2 otherwise) and the file order along the output's slice axis"""
        hdr = self.last.header
        out['pixdim4'] = fr(Fraction(float(hdr['pixdim'][4])))
        perm = axis_perm(self.dcmstack, self.dataset(self.accepted[0]), vo)
        freq, phase, _ = hdr.get_dim_info()
        out['phase'] = 0 if phase is None else (1 if int(phase) == perm[1] else 2)
        import numpy as np
        out['order'] = self.file_order(np.asanyarray(self.last.dataobj), perm[2])

    def keep(self, kind, obj):
        self.results.append([self.nop, kind, obj, value_of(kind, obj)])

    def recheck(self):
        """every result returned earlier must still have the value it had when it was returned"""
        for rec in self.results:
            k, kind, obj, val = rec
            now = value_of(kind, obj)
            if now != val:
                self.changed.append([k, kind, self.nop, sorted(p for p in val if val[p] != now[p])])
                rec[3] = now

    def apply(self, op):
        st = self.stack
        out = {'r': 'ok', 'shape': None, 'dtype': None, 'pixdim4': None, 'phase': None, 'order': None, 'aff': None,
               'val': None}
        try:
            if op[0] == 'add':
                spec = self.case['files'][op[1]]
                if self.case.get('meta_arg'):
                    st.add_dcm(self.dataset(op[1]), hand_meta(spec))
                else:
                    st.add_dcm(self.dataset(op[1]))
                self.accepted.append(op[1])
            elif op[0] == 'clear':
                st.clear()
                self.accepted = []
            elif op[0] == 'mutate':
                self.mutate(op[1])
            elif op[0] == 'shape':
                sh = st.get_shape()
                out['shape'] = [int(x) for x in sh]
                out['val'] = value_of('shape', sh)
            elif op[0] == 'data':
                arr = st.get_data()
                out['shape'] = [int(x) for x in arr.shape]
                out['dtype'] = dtype_code(arr.dtype)
                out['order'] = self.file_order(arr, 2)
                out['val'] = value_of('data', arr)
                self.keep('data', arr)
            elif op[0] == 'affine':
                aff = st.get_affine()
                out['aff'] = aff16(aff)
                out['val'] = value_of('affine', aff)
                self.keep('affine', aff)
            elif op[0] in ('nifti', 'wrapper'):
                if op[0] == 'nifti':
                    self.last = st.to_nifti(op[1], bool(op[2]))
                else:
                    self.last = st.to_nifti_wrapper(op[1]).nii_img
                out['dtype'] = dtype_code(self.last.get_data_dtype())
                self.header_obs(out, op[1])
                if not op[1]:
                    out['aff'] = aff16(self.last.affine)      # no reorientation: the image carries get_affine's array
                out['val'] = value_of('nifti', self.last)
                self.keep('nifti', self.last)
            else:
                raise AssertionError('unknown op %r' % (op,))
        except AssertionError:
            raise
        except Exception as e:
            out['r'] = err_code(self.dcmstack, e)
            if out['r'].startswith('X:'):
                out['msg'] = str(e)[:200]
        self.recheck()
        self.nop += 1
        return out

    def mutate(self, what):
        """the caller scribbles over the most recent result of kind `what` (it owns it)"""
        import numpy as np
        for rec in reversed(self.results):
            k, kind, obj, val = rec
            if kind != what:
                continue
            if kind == 'data':
                obj[...] = 0
            elif kind == 'affine':
                obj[:3, :] = 7.0
            else:
                np.asanyarray(obj.dataobj)[...] = 0
                for e in obj.header.extensions:
                    if hasattr(e, 'get_class_dict'):
                        e.get_class_dict(('global', 'const'))['ScribbledByCaller'] = 1
                        e.reorient_transform = np.eye(4) * 3
            rec[3] = value_of(kind, obj)      # the caller's own change is not held against the stack
            return


def run_history(dcmstack, case):
    """-> (runner, observation): per-file abstraction (model input), per-op public results, want-flip flags"""
    r = Runner(dcmstack, case)
    absf, affs = [], []
    for i, spec in enumerate(case['files']):
        absf.append(abstract_file(dcmstack, spec, r.dataset(i), case))
        a = file_affine(r.dataset(i)) if spec.get('pix', True) else None
        if a is not None:
            affs.append([spec['id'], a])
    ops = []
    vos = {}
    for op in case['ops']:
        ops.append(r.apply(op))
        if op[0] in ('nifti', 'wrapper') and (op[1] or '') not in vos and r.accepted:
            # the stack's reference input: its affine is known to be computable
            vos[op[1] or ''] = wants_flip(dcmstack, r.dataset(r.accepted[0]), op[1])
    for op in case['ops']:
        if op[0] in ('nifti', 'wrapper') and (op[1] or '') not in vos:
            vos[op[1] or ''] = None if not op[1] else False
    return r, {'files': absf, 'affs': affs, 'ops': ops, 'vo': vos, 'guesses': list(dcmstack.DicomStack.sort_guesses),
               'accepted': list(r.accepted), 'changed': r.changed}


# ------------------------------------------------------------------------------------------------
# Coq literals

def cqc(x):
    return '(Q2Qc %s)' % cq(Fraction(x[0], x[1]))


def cQ(x):
    return cq(Fraction(x[0], x[1]))


def coq_file(a):
    return ('(mkfile %s %s %s %s %s %s %s %s %s %s %s %s %s %s %s)' % (
        cnat(a['id']), cbool(a['pix']), cnat(a['rows']), cnat(a['cols']),
        clist(cQ(x) for x in a['ps']), clist(cQ(x) for x in a['iop']), cqc(a['pos']),
        copt(a['time'], cqc), copt(a['vec'], cqc),
        clist(cpair(cstr(k), cqc(v)) for k, v in a['meta']),
        copt(a['tr'], cqc), copt(a['phase'], cstr), cnat(a['dtype']), cnat(a['bits']), cbool(a['has_acq'])))


def coq_vo(obs, vo):
    w = obs['vo'].get(vo or '')
    return 'None' if w is None else '(Some %s)' % cbool(w)


def coq_op(case, obs, op):
    if op[0] == 'add':
        return '(OAdd %s)' % coq_file(obs['files'][op[1]])
    if op[0] == 'shape':
        return 'OGetShape'
    if op[0] == 'data':
        return 'OGetData'
    if op[0] == 'affine':
        return 'OGetAffine'
    if op[0] == 'nifti':
        return '(OToNifti %s %s)' % (coq_vo(obs, op[1]), cbool(bool(op[2])))
    if op[0] == 'wrapper':
        return '(OToNiftiWrapper %s)' % coq_vo(obs, op[1])
    raise ValueError(op)


MODEL_ERRS = ('EInvalidStack', 'EIncongruent', 'ECollision', 'ENonImage', 'EType')


def coq_obs(o):
    """(exception class, shape, dtype code, pixdim[4], phase code, file order of the returned voxels, affine)"""
    r = 'None' if o['r'] == 'ok' else '(Some %s)' % (o['r'] if o['r'] in MODEL_ERRS else 'ECrash')
    sh = copt(o['shape'], lambda s: clist(cnat(x) for x in s))
    order = o.get('order')
    if order is not None and any(x < 0 for x in order):
        order = [99999 if x < 0 else x for x in order]       # a block of voxels that is no accepted file's
    return '(%s, %s, %s, %s, %s, %s, %s)' % (r, sh, copt(o.get('dtype'), cnat), copt(o.get('pixdim4'), cQ),
                                             copt(o.get('phase'), cnat), copt(order, lambda l: clist(cnat(x) for x in l)),
                                             copt(o.get('aff'), lambda l: clist(cQ(x) for x in l)))


def model_ops(case, obs):
    """The history the model is run on: what follows the last clear() (clear = a new stack); a caller scribbling on
    a result it owns is no operation of the stack; an add whose ordinate cannot be evaluated (value not in
    abs_ordering) and that was refused has no counterpart in the model (ordinates are given evaluated): that it
    leaves the stack unchanged is what the later observations check."""
    pairs = list(zip(case['ops'], obs['ops']))
    for k in range(len(pairs) - 1, -1, -1):
        if pairs[k][0][0] == 'clear':
            pairs = pairs[k + 1:]
            break
    keep = []
    for op, o in pairs:
        if op[0] == 'mutate':
            continue
        if op[0] == 'add' and o['r'] != 'ok' and obs['files'][op[1]].get('bad_ordinate'):
            continue
        keep.append((op, o))
    return keep


def coq_case(case, obs):
    if not isinstance(obs, dict) or 'crash' in obs or 'ops' not in obs:
        return '(mkcase false false [] [] [(None, None, None, None, None, None, None)])'      # never matches: flags the crash
    keep = model_ops(case, obs)
    return '(mkcase %s %s %s %s %s)' % (
        cbool(case.get('time_order') is not None), cbool(case.get('vector_order') is not None),
        clist(cpair(cnat(i), clist(cQ(x) for x in a)) for i, a in obs.get('affs', [])),
        clist(coq_op(case, obs, op) for op, o in keep),
        clist(coq_obs(o) for op, o in keep))


# ------------------------------------------------------------------------------------------------
# the specification, directly in Python (oracle side; independent of the Coq model AND of the library)

SPACING_RTOL = Fraction(4, 100)       # the value the SPEC fixes (Lemma spacing_tol)
NP_ATOL = Fraction(1, 10 ** 8)
CONGRUENT_ATOL = Fraction(5, 100000)
NP_RTOL = Fraction(1, 100000)


def F(x):
    return None if x is None else Fraction(x[0], x[1])


def evenly_spaced(P):
    gaps = [b - a for a, b in zip(P, P[1:])]
    if not gaps:
        return True
    mean = sum(gaps) / len(gaps)
    return all(abs(mean - g) <= NP_ATOL + SPACING_RTOL * abs(g) for g in gaps)


def okey(x):
    """total order on optional numbers (None first); mixed None/number lists are outside the domain"""
    return (0, 0) if x is None else (1, x)


def arranged(tuples, ids=None):
    """tuples: list of (vec, time, pos).  The grid dimensions (S, T, V) when the multiset tiles a
    complete grid, else None.  Direct transcription of Spec.grid_ok.  With `ids` the result is
    (S, T, V, order): the ids in the order the property demands - volumes by (vector, time), inside a volume by
    ascending slice position."""
    n = len(tuples)
    if n == 0:
        return None
    if len(set(tuples)) != n:
        return None                                   # two files in one cell
    P = sorted(set(t[2] for t in tuples))
    S = len(P)
    if S > 1 and not evenly_spaced(P):
        return None
    Vs = set(t[0] for t in tuples)
    V = len(Vs)
    if n % (S * V) != 0:
        return None
    T = n // (S * V)
    idx = sorted(range(n), key=lambda i: (okey(tuples[i][0]), okey(tuples[i][1]), tuples[i][2]))
    l = [tuples[i] for i in idx]
    order = []
    for vi in range(V):
        block = l[vi * T * S:(vi + 1) * T * S]
        if len(set(t[0] for t in block)) != 1:
            return None
        for ti in range(T):
            lo = vi * T * S + ti * S
            vol = l[lo:lo + S]
            if sorted(t[2] for t in vol) != P:
                return None
            order += sorted(idx[lo:lo + S], key=lambda i: tuples[i][2])
    if ids is None:
        return (S, T, V)
    return (S, T, V, [ids[i] for i in order])


def mixed(vals):
    return any(v is None for v in vals) and any(v is not None for v in vals)


def grid_complete(files, cfg_time, cfg_vec, guesses, with_order=False):
    """files: ground truth (spec_truth) of the ACCEPTED files.  -> (S,T,V[,order]) or None; 'mixed' when None and
    numbers are mixed in an explicit ordinate (a file without a cell: nothing may convert)."""
    if not files:
        return None
    vec = [F(f['vec']) if cfg_vec else None for f in files]
    tim = [F(f['time']) if cfg_time else None for f in files]
    pos = [F(f['pos']) for f in files]
    ids = [f['id'] for f in files] if with_order else None
    if mixed(vec) or mixed(tim):
        return 'mixed'
    n = len(files)
    S = len(set(pos))
    explicit = cfg_time or cfg_vec
    if explicit or n <= S or n % S != 0:
        return arranged(list(zip(vec, tim, pos)), ids)
    nvol = n // S
    for key in guesses:
        vals = [dict((k, F(v)) for k, v in f['meta']).get(key) for f in files]
        if any(v is None for v in vals):
            continue
        if len(set(vals)) not in (nvol, n):
            continue
        g = arranged(list(zip(vec, vals, pos)), ids)
        if g is not None:
            return g
    return None


def close(a, b, atol):
    return abs(a - b) <= atol + NP_RTOL * abs(b)


def expected_add_one(f, ref, cells, cfg_time, cfg_vec):
    """Expected result of adding the file with ground truth `f` to a stack whose reference (first accepted) file is
    `ref` and whose occupied cells are `cells`: 'ok', one of the documented classes, or 'refused' (any exception:
    the ordinate cannot be evaluated)."""
    if not f['pix']:
        return 'ENonImage'
    if ref is not None:
        ok = (f['rows'] == ref['rows'] and f['cols'] == ref['cols'] and
              all(close(F(a), F(b), CONGRUENT_ATOL) for a, b in zip(f['ps'], ref['ps'])) and
              all(close(F(a), F(b), CONGRUENT_ATOL) for a, b in zip(f['iop'], ref['iop'])))
        if not ok:
            return 'EIncongruent'
    if f.get('bad_ordinate'):
        return 'refused'
    if (cfg_time or cfg_vec) and cell_of(f, cfg_time, cfg_vec) in cells:
        return 'ECollision'
    return 'ok'


def cell_of(f, cfg_time, cfg_vec):
    return (F(f['vec']) if cfg_vec else None, F(f['time']) if cfg_time else None, F(f['pos']))


def expected_add(files, order, cfg_time, cfg_vec):
    """Expected result of each add (in `order`, indices into the ground truths `files`) on a fresh stack."""
    ref = None
    cells = set()
    out = []
    for i in order:
        f = files[i]
        e = expected_add_one(f, ref, cells, cfg_time, cfg_vec)
        out.append(e)
        if e == 'ok':
            cells.add(cell_of(f, cfg_time, cfg_vec))
            if ref is None:
                ref = f
    return out


# ------------------------------------------------------------------------------------------------
# random stacks

def rand_config(rng, tier, want=None, force_abs=False):
    """-> dict(mode, S, T, V, orient, direction, gap, origin, rows, cols, ps, time_order, vector_order,
              tagrules, consts)"""
    big = tier != 'quick'
    mode = want or rng.choice(['guess', 'guess', 'guess', 'time', 'time', 'vec', 'timevec', 'timevec', 'none'])
    S = rng.choice([1, 2, 2, 3, 3, 4] + ([5, 6] if big else []))
    T = rng.choice([1, 2, 2, 3] + ([4] if big else []))
    V = rng.choice([1, 2, 3]) if mode in ('vec', 'timevec') else 1
    if mode == 'vec':
        T = rng.choice([1, 1, 2])          # without a time key a volume is told apart only by its vector value
    if mode == 'none':
        T = 1
    cfg = {'mode': mode, 'S': S, 'T': T, 'V': V,
           'orient': rng.choice(sorted(ORIENTS)), 'direction': rng.choice([1, -1]),
           'gap': rng.choice([0.5, 1.0, 2.0, 2.5, 3.0]),
           'origin': [rng.choice([-8., -1.5, 0., 4., 16.25]) for _ in range(3)],
           'rows': rng.choice([2, 3]), 'cols': rng.choice([2, 3, 4]),
           'ps': rng.choice([[1.0, 1.0], [0.5, 0.75], [2.0, 2.0]]),
           'time_order': None, 'vector_order': None, 'tagrules': {}, 'consts': {}}
    rules = {}
    if mode in ('time', 'timevec'):
        key = rng.choice(['EchoTime', 'TriggerTime', 'AcquisitionNumber', 'InversionTime'] + ([] if force_abs else ['AcquisitionTime']))
        # 't0' / 'v0': the ordinates start at 0 (int 0 / float 0.0: a falsy value is an ordinate like any other)
        rules[key] = rng.choice(['t', 't', 't0', 't0', 'trev', 'tv'])
        cfg['time_order'] = {'key': key, 'abs': None}
        if S >= 2 and rng.random() < 0.25 and not force_abs:
            # staggered time ordinate: the r lowest positions of volume t carry the value of volume t+1, so a run
            # of equal time values straddles every volume boundary (the code accepts this: only the cut of the
            # sorted list into runs of S is checked)
            r = rng.randrange(1, S)
            asc = cfg['direction'] == 1
            rules[key] = _Stag(S, r, asc)
        elif (force_abs or rng.random() < 0.2) and key not in TM_TAGS:
            rule = rules[key]
            vals = sorted(set(tag_value(key, {'t': 2 + 3 * t, 't0': 3 * t, 'trev': 20 - 3 * t, 'tv': 1 + t + T * v}[rule])
                              for t in range(T) for v in range(V)))
            rng.shuffle(vals)
            cfg['time_order'] = {'key': key, 'abs': vals}
            if rng.random() < 0.3:
                # abs_as_str: the values are looked up as strings
                cfg['time_order'] = {'key': key, 'abs': [str(v) for v in vals], 'as_str': True}
    if mode in ('vec', 'timevec'):
        key = rng.choice([k for k in VEC_TAGS if k not in rules])
        rules[key] = rng.choice(['v', 'v0'])
        cfg['vector_order'] = {'key': key, 'abs': None}
    if mode == 'vec' and T > 1:
        pass    # volumes with equal vector value and no time key: sorted by position only -> not a grid (kept: must be refused)
    if mode == 'guess':
        # the varying key, decoys before and after it in sort_guesses
        good = rng.choice(GUESS_TAGS)
        rules[good] = rng.choice(['t', 't', 'cell', 'st', 'trev'])
        for tag in GUESS_TAGS:
            if tag == good or rng.random() < 0.55:
                continue
            rules[tag] = rng.choice(['const', 's', 'rcell', 't', 'cell', 'const'])
    # other per-file tags (not ordering keys unless chosen above)
    if 'RepetitionTime' not in rules and rng.random() < 0.7:
        cfg['consts']['RepetitionTime'] = rng.choice([500.0, 2000.0])
    if rng.random() < 0.6:
        cfg['consts']['InPlanePhaseEncodingDirection'] = rng.choice(['ROW', 'COL'])
    if 'AcquisitionTime' not in rules and rng.random() < 0.5:
        rules['AcquisitionTime'] = rng.choice(['s', 'st', 'const'])
    cfg['tagrules'] = rules
    return cfg


def vol_count_config(rng, tier):
    """n_vols mod n_vec != 0, crossed with S mod n_vec = 0 / != 0 (and so n_files mod n_vec = 0 / != 0)"""
    cfg = rand_config(rng, tier, want='timevec')
    nvec = rng.choice([2, 2, 3])
    while True:
        counts = [rng.randint(1, 4) for _ in range(nvec)]
        if sum(counts) % nvec != 0:
            break
    div = rng.random() < 0.6
    cands = [s for s in range(1, 5 if tier == 'quick' else 7) if (s % nvec == 0) == div]
    cfg['S'] = rng.choice(cands)
    cfg['V'] = nvec
    cfg['T'] = max(counts)
    cfg['counts'] = counts
    key = cfg['time_order']['key']
    cfg['time_order'] = {'key': key, 'abs': None}
    if callable(cfg['tagrules'].get(key)):
        cfg['tagrules'][key] = 't'
    return cfg


def grid_from_config(rng, cfg):
    return make_grid(rng, cfg['S'], cfg['T'], cfg['V'], cfg['orient'], cfg['direction'], cfg['gap'],
                     cfg['origin'], cfg['rows'], cfg['cols'], cfg['ps'], cfg['tagrules'], cfg['consts'])


def pos_key(f):
    """exact slice indicator of a spec computed with Fractions of the float inputs (ordering only)"""
    n = normal_of([Fraction(x) for x in f['iop']])
    return sum(Fraction(a) * b for a, b in zip(f['ipp'], n))


DEFECTS = ['none', 'none', 'drop1', 'dropk', 'drop_volume', 'drop_position', 'duplicate', 'misfiled_dup',
           'tie_straddle', 'gap', 'gap', 'rows', 'cols', 'spacing_lo', 'spacing_hi', 'orient_lo', 'orient_hi',
           'nopix', 'collide', 'missing_key', 'extra_position', 'vec_uneven', 'bad_ordinate', 'vec_straddle', 'vec_straddle', 'vec_straddle', 'vec_move', 'pos_swap', 'pos_swap', 'vol_count', 'vol_count', 'vol_count', 'collide_each', 'collide_each', 'creep', 'creep', 'creep']


def vec_val(cfg, key, v):
    """the number behind the vector tag of component v under the case's rule ('v': 1 + 2v, 'v0': 2v)"""
    return 2 * v if cfg['tagrules'].get(key) == 'v0' else 1 + 2 * v


def apply_defect(rng, cfg, files, defect):
    """Returns (files, note).  The add order is decided later; 'first' in the note forbids putting the
    marked file first (an orientation perturbed above tolerance would not survive nibabel's own
    orthogonality check as the reference)."""
    import copy
    files = copy.deepcopy(files)
    S, T, V = cfg['S'], cfg['T'], cfg['V']
    note = {'defect': defect}
    n = len(files)

    def pick():
        return rng.randrange(len(files))
    if defect == 'none':
        pass
    elif defect == 'drop1':
        del files[pick()]
    elif defect == 'dropk':
        for _ in range(rng.randint(2, 3)):
            if len(files) > 1:
                del files[pick()]
    elif defect == 'drop_volume':
        t, v = rng.randrange(T), rng.randrange(V)
        files = [f for f in files if not (f['cell'][1] == t and f['cell'][2] == v)]
    elif defect == 'drop_position':
        s = rng.randrange(S)
        files = [f for f in files if f['cell'][0] != s]
    elif defect == 'duplicate':
        f = copy.deepcopy(files[pick()])
        f['dup'] = True
        files.append(f)
    elif defect == 'misfiled_dup':
        # one file replaced by a copy of another cell's file
        i, j = pick(), pick()
        f = copy.deepcopy(files[j])
        f['dup'] = True
        files[i] = f
    elif defect == 'tie_straddle':
        # the last file (in sort order) of volume t twice, the same position missing from volume t+1
        if T >= 2 and S >= 2:
            v = rng.randrange(V)
            t = rng.randrange(T - 1)
            smax = max(range(S), key=lambda s: pos_key([f for f in files if f['cell'] == [s, 0, 0]][0]))
            rule = cfg['tagrules']
            src = [f for f in files if f['cell'] == [smax, t, v]][0]
            idx = [k for k, f in enumerate(files) if f['cell'] == [smax, t + 1, v]][0]
            f = copy.deepcopy(src)
            f['dup'] = True
            files[idx] = f
    elif defect == 'gap':
        # slices beyond index j shifted by e * gap along the normal
        e = rng.choice([Fraction(1, 128), Fraction(1, 32), Fraction(3, 64), Fraction(5, 64), Fraction(1, 8), Fraction(1, 4)])
        note['e'] = float(e)
        if S >= 3:
            j = rng.randrange(1, S)
            nrm = normal_of(ORIENTS[cfg['orient']])
            for f in files:
                if f['cell'][0] >= j:
                    sh = cfg['direction'] * cfg['gap'] * float(e)
                    f['ipp'] = [f['ipp'][i] + sh * nrm[i] for i in range(3)]
    elif defect in ('rows', 'cols'):
        f = files[pick()]
        f[defect] += 1
    elif defect in ('spacing_lo', 'spacing_hi'):
        f = files[pick()]
        d = 2.0 ** -16 if defect.endswith('lo') else 2.0 ** -12
        k = rng.randrange(2)
        f['ps'][k] = f['ps'][k] + rng.choice([d, -d])
    elif defect in ('orient_lo', 'orient_hi') and len(files) > 1 and (defect == 'orient_hi' or S >= 2):
        # (orient_lo with S = 1 would give two files with identical ImagePositionPatient but slice indicators
        #  1e-5 apart: a zero slice column, outside the modelled geometry)
        f = files[pick()]
        d = 2.0 ** -17 if defect.endswith('lo') else 2.0 ** -11
        k = rng.randrange(6)
        f['iop'][k] = f['iop'][k] + rng.choice([d, -d])
        if defect == 'orient_hi':
            f['notfirst'] = True
    elif defect in ('orient_lo', 'orient_hi'):
        pass
    elif defect == 'nopix':
        f = files[pick()]
        f['pix'] = False
    elif defect in ('collide', 'collide_each'):
        # a second file for an occupied cell (same ordinates and position, other content); collide_each: one such
        # file for EVERY (time, vector) value of the grid - ordinate 0 / 0.0 / index 0 of an abs_ordering included
        def ordkey(f):
            return (f['cell'][2], f['cell'][1])
        if defect == 'collide_each':
            targets = []
            for tv in sorted(set(ordkey(f) for f in files)):
                targets.append(rng.choice([f for f in files if ordkey(f) == tv]))
        elif rng.random() < 0.5:
            # the cell with the first ordinates of the grid
            lo = min(ordkey(f) for f in files)
            targets = [rng.choice([f for f in files if ordkey(f) == lo])]
        else:
            targets = [files[pick()]]
        nokey = (defect == 'collide' and rng.random() < 0.15 and cfg['time_order'] is not None
                 and cfg['vector_order'] is None)
        for src in targets:
            if nokey:
                # the occupied cell has NO ordinate at all (ordering key absent on both files)
                src['tags'] = {k: v for k, v in src['tags'].items() if k != cfg['time_order']['key']}
            f = copy.deepcopy(src)
            f['dup'] = True
            f['tags'] = dict(f['tags'])
            if 'RepetitionTime' in cfg['consts']:
                f['tags']['RepetitionTime'] = 750.0
            files.append(f)
    elif defect == 'missing_key':
        keys = [o['key'] for o in (cfg['time_order'],) if o]
        if keys and cfg['vector_order'] is None:
            f = files[pick()]
            f['tags'] = {k: v for k, v in f['tags'].items() if k != keys[0]}
    elif defect == 'extra_position':
        # one more file at a position outside the grid
        f = copy.deepcopy(files[pick()])
        nrm = normal_of(ORIENTS[cfg['orient']])
        off = cfg['direction'] * cfg['gap'] * (S + rng.choice([0, 1]))
        base = [g for g in files if g['cell'][0] == 0][0] if [g for g in files if g['cell'][0] == 0] else files[0]
        f['ipp'] = [base['ipp'][i] + off * nrm[i] for i in range(3)]
        files.append(f)
    elif defect == 'bad_ordinate':
        # explicit time order with abs_ordering: one more file, at a new slice position, whose value is not in the list
        o = cfg['time_order']
        if o is not None and o.get('abs') is not None:
            f = copy.deepcopy(files[pick()])
            nrm = normal_of(ORIENTS[cfg['orient']])
            off = cfg['direction'] * cfg['gap'] * (S + 1)
            base = [g for g in files if g['cell'][0] == 0][0]
            f['ipp'] = [base['ipp'][i] + off * nrm[i] for i in range(3)]
            f['tags'] = dict(f['tags'])
            f['tags'][o['key']] = tag_value(o['key'], 97)
            if 'RepetitionTime' in cfg['consts']:
                f['tags']['RepetitionTime'] = 750.0
            files.append(f)
    elif defect == 'vol_count':
        # explicit time and vector orders, vector value v present on counts[v] whole volumes: every slice position
        # occurs equally often, but the number of volumes is not a multiple of the number of vector values
        counts = cfg.get('counts')
        if counts and cfg['vector_order'] is not None and cfg['time_order'] is not None:
            files = [f for f in files if f['cell'][1] < counts[f['cell'][2]]]
            note['counts'] = counts
    elif defect == 'creep':
        # a chain of files whose PixelSpacing (one entry) or orientation (an in-plane rotation, so every file stays
        # orthonormal) creeps by c x tolerance per step, c < 1: each file is congruent with its neighbours, but
        # the drift from the FIRST accepted file crosses the documented tolerance after a few steps.  c is chosen
        # so that no multiple of it lies in the dead zone [0.9, 1.1] x tolerance.
        c = rng.choice([0.8, 0.6, 0.4, 0.29])
        what = rng.choice(['ps0', 'ps1', 'iop']) if cfg['orient'] == 'ax' else rng.choice(['ps0', 'ps1'])
        chain = sorted(files, key=lambda f: (f['cell'][2], f['cell'][1], f['cell'][0]))
        note.update({'c': c, 'what': what, 'order': rng.choice(['up', 'up', 'down', 'random'])})
        for i, f in enumerate(chain):
            if what == 'iop':
                th = i * c * 5e-5
                f['iop'] = [math.cos(th), math.sin(th), 0., -math.sin(th), math.cos(th), 0.]
            else:
                k = 0 if what == 'ps0' else 1
                f['ps'][k] = f['ps'][k] + i * c * (5e-5 + 1e-5 * f['ps'][k])
            f['chain'] = i
    elif defect == 'pos_swap':
        # two volumes trade slice positions: every position still occurs equally often overall and the tuples stay
        # distinct (the moved files get a fresh time value inside their own volume's range), but one volume holds
        # position j twice and the other position i twice
        o_t = cfg['time_order']
        if o_t is not None and o_t.get('abs') is None and T >= 2 and S >= 2 and not callable(cfg['tagrules'].get(o_t['key'])) \
                and cfg['tagrules'].get(o_t['key']) in ('t', 'trev'):
            tkey = o_t['key']
            v = rng.randrange(V)
            ta, tb = rng.sample(range(T), 2)
            i, j = rng.sample(range(S), 2)
            fa = [f for f in files if f['cell'] == [i, ta, v]][0]
            fb = [f for f in files if f['cell'] == [j, tb, v]][0]
            pa = [f for f in files if f['cell'] == [j, ta, v]][0]['ipp']
            pb = [f for f in files if f['cell'] == [i, tb, v]][0]['ipp']
            fa['ipp'], fb['ipp'] = list(pa), list(pb)
            for f in (fa, fb):
                f['tags'][tkey] = tag_value(tkey, (tm_seconds(f['tags'][tkey]) - 36000 if tkey in TM_TAGS else _num(f['tags'][tkey])) + 1)
            note.update({'i': i, 'j': j})
    elif defect in ('vec_straddle', 'vec_move'):
        # files MOVED between vector components: the total still factors and every slice position still occurs
        # equally often, but per-vector counts are no longer multiples of S.  vec_straddle: the moved files come
        # from the volume of block vi that is last in sort order and get a time value below every time of block
        # vi+1 (or the mirror image), so exactly one volume-sized chunk of the sorted list straddles the two
        # vector values and still holds every slice position once.
        o_v, o_t = cfg['vector_order'], cfg['time_order']
        if o_v is not None and o_t is not None and o_t.get('abs') is None and V >= 2 and S >= 2:
            vkey, tkey = o_v['key'], o_t['key']
            asc = cfg['direction'] == 1

            def rank(f):
                return f['cell'][0] if asc else S - 1 - f['cell'][0]

            def tnum(f):
                return _num(f['tags'][tkey])
            if defect == 'vec_straddle':
                vi = rng.randrange(V - 1)
                up = rng.random() < 0.5
                which = rng.choice(['first', 'last', 'middle', 'subset'])
                if which == 'first':
                    ranks = [0]
                elif which == 'last':
                    ranks = [S - 1]
                elif which == 'middle':
                    ranks = [S // 2]
                else:
                    ranks = [r for r in range(S) if rng.random() < 0.5] or [0]
                    if len(ranks) == S:
                        ranks = ranks[:-1]
                src_v = vi if up else vi + 1
                block = [f for f in files if f['cell'][2] == src_v]
                edge = max(block, key=tnum) if up else min(block, key=tnum)
                t_edge = edge['cell'][1]
                note.update({'vi': vi, 'up': up, 'ranks': ranks})
                for f in block:
                    if f['cell'][1] == t_edge and rank(f) in ranks:
                        f['tags'][vkey] = tag_value(vkey, vec_val(cfg, vkey, vi + 1 if up else vi))
                        f['tags'][tkey] = tag_value(tkey, -5 if up else 97)
            else:
                for k in range(rng.randint(1, 2)):
                    f = files[pick()]
                    v2 = rng.choice([v for v in range(V) if v != f['cell'][2]])
                    f['tags'][vkey] = tag_value(vkey, vec_val(cfg, vkey, v2))
                    f['tags'][tkey] = tag_value(tkey, rng.choice([-5, 97]) + k)
    elif defect == 'vec_uneven':
        if cfg['vector_order'] is not None and V >= 2:
            key = cfg['vector_order']['key']
            # move one volume's files to another vector value
            t, v = rng.randrange(T), rng.randrange(V)
            v2 = (v + 1) % V
            for f in files:
                if f['cell'][1] == t and f['cell'][2] == v:
                    f['tags'][key] = tag_value(key, vec_val(cfg, key, v2))
                    if cfg['time_order'] is not None and cfg['time_order']['abs'] is None and cfg['tagrules'].get(cfg['time_order']['key']) in ('t', 'trev'):
                        f['tags'][cfg['time_order']['key']] = tag_value(cfg['time_order']['key'], 40 + t)
    return renumber(files), note


def vary_attrs(rng, cfg, files):
    """Per-file attributes that add_dcm does not compare but the conversion reads from ONE file of the sorted
    list (dtype, BitsStored, AcquisitionTime presence): make them non-uniform."""
    modes = [m for m in ('bits', 'pixrep', 'pxhi', 'acq') if rng.random() < 0.45]
    if rng.random() < 0.2:
        # other valid TM forms (the sorter sees the raw string): one style for the case, or a different one per file
        style = rng.choice(['trim', 'colon', 'mixed'])
        modes.append('tm-' + style)
        for f in files:
            for k in TM_TAGS:
                if isinstance(f['tags'].get(k), str):
                    f['tags'][k] = tm_restyle(f['tags'][k], rng.choice(['trim', 'colon', 'full']) if style == 'mixed' else style)
    S = cfg['S']
    asc = cfg['direction'] == 1
    for f in files:
        if 'bits' in modes:
            f['bits'] = rng.choice([12, 16])
        if 'pixrep' in modes:
            f['pixrep'] = rng.choice([0, 1])
        if 'pxhi' in modes and rng.random() < 0.5:
            f['pxhi'] = True
    tkey = cfg['time_order']['key'] if cfg['time_order'] else None
    if 'acq' in modes and 'AcquisitionTime' in cfg['tagrules'] and tkey != 'AcquisitionTime':
        # AcquisitionTime missing on some files: slice timing must then be left alone (fix 75eb235), whichever
        # file comes first after sorting / reversal
        for f in files:
            if rng.random() < 0.3 and 'AcquisitionTime' in f['tags']:
                del f['tags']['AcquisitionTime']
    return modes


TR_SETS = [[2000.0, 3000.0], [1000.0, 9000.0], [3000.0, 2000.0], [500.0, 2000.0], [750.0, 1250.0],
           [2000.0, 3000.0, 4000.0], [1000.0, 9000.0, 17000.0], [500.0, 2000.0, 3000.0]]
# 2000/3000(/4000) and 1000/9000(/17000) collide in an 8-slot hash table (int(TR) & 7 equal): the iteration order
# of the Python set then depends on the insertion order


def vary_header_sets(rng, cfg, files):
    """Several different RepetitionTime values and mixed phase encoding directions across the files: whatever
    to_nifti derives from the SETS _repetition_times / _phase_enc_dirs must not depend on the add order."""
    note = {}
    if rng.random() < 0.7:
        trs = rng.choice(TR_SETS)
        how = rng.choice(['random', 'odd_one', 'by_t', 'some_missing'])
        note['tr'] = [trs, how]
        for k, f in enumerate(files):
            if how == 'random':
                f['tags']['RepetitionTime'] = rng.choice(trs)
            elif how == 'odd_one':
                f['tags']['RepetitionTime'] = trs[1] if k == 0 else trs[0]
            elif how == 'by_t':
                f['tags']['RepetitionTime'] = trs[f['cell'][1] % len(trs)]
            else:
                if rng.random() < 0.3:
                    f['tags'].pop('RepetitionTime', None)
                else:
                    f['tags']['RepetitionTime'] = trs[0] if rng.random() < 0.7 else trs[1]
    if rng.random() < 0.7:
        dirs = rng.choice([['ROW', 'COL'], ['ROW', None], ['COL', None], ['ROW', 'COL', None], ['COL', 'ROW']])
        note['phase'] = dirs
        for f in files:
            d = rng.choice(dirs)
            if d is None:
                f['tags'].pop('InPlanePhaseEncodingDirection', None)
            else:
                f['tags']['InPlanePhaseEncodingDirection'] = d
    return note


def add_order(rng, files, how=None):
    order = list(range(len(files)))
    rng.shuffle(order)
    if how in ('up', 'down') and all('chain' in f for f in files):
        order.sort(key=lambda i: files[i]['chain'], reverse=(how == 'down'))
        return order
    for k, i in enumerate(order):
        if files[i].get('notfirst') and k == 0 and len(order) > 1:
            order[0], order[1] = order[1], order[0]
    if files and files[order[0]].get('notfirst'):
        # a single file, or two marked ones: give up on the mark (it cannot be honoured)
        for i in order:
            if not files[i].get('notfirst'):
                order.remove(i)
                order.insert(0, i)
                break
    return order


def case_header(cfg):
    return {'time_order': cfg['time_order'], 'vector_order': cfg['vector_order']}


def case_valid(case):
    """A file whose orientation was perturbed above tolerance ('notfirst') must meet a reference file when it is
    added (it is then refused as incongruent); as the stack's first accepted file it would not survive nibabel's own
    orthogonality test (WrapperPrecisionError), which is outside the property."""
    ct, cv = case.get('time_order') is not None, case.get('vector_order') is not None
    truth = [spec_truth(f, case) for f in case['files']]
    ref, cells = None, set()
    for op in case['ops']:
        if op[0] == 'clear':
            ref, cells = None, set()
        if op[0] != 'add':
            continue
        f = truth[op[1]]
        if case['files'][op[1]].get('notfirst') and ref is None and f['pix']:
            return False
        if expected_add_one(f, ref, cells, ct, cv) == 'ok':
            cells.add(cell_of(f, ct, cv))
            if ref is None:
                ref = f
    return True


def shrink_files(case):
    """candidate cases (inside the valid domain) with one file and its adds removed, or one non-final operation
    that is not an add removed"""
    import copy
    ops = case['ops']
    for k in range(len(ops) - 1):
        if ops[k][0] != 'add':
            c = copy.deepcopy(case)
            del c['ops'][k]
            if case_valid(c):
                yield c
    nfiles = len(case['files'])
    if nfiles > 1:
        for i in range(nfiles):
            c = copy.deepcopy(case)
            del c['files'][i]
            for j, f in enumerate(c['files']):
                f['id'] = j
            nops = []
            for op in c['ops']:
                if op[0] == 'add':
                    if op[1] == i:
                        continue
                    nops.append(['add', op[1] - 1 if op[1] > i else op[1]])
                else:
                    nops.append(op)
            c['ops'] = nops
            if case_valid(c):
                yield c
