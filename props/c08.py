"""C08 Lookups: NiftiWrapper.get_meta / meta_valid / __getitem__ return the value at the asked position, or the
default when the image no longer matches the extension."""
import copy
from fractions import Fraction
from props import extlib as X

ID = 'C08'
COQ_PROPS = 'Props/C08.v'
THEOREMS = ['C08_value', 'C08_const', 'C08_noindex', 'C08_bounds', 'C08_mismatch', 'C08_absent', 'C08_total',
            'C08_agrees_exact', 'C08_getitem', 'C08_agrees_code_dir', 'C08_value_dir', 'C08_bounds_dir', 'C08_mismatch_dir',
            'C08_flip_refuted', 'C08_rowonly_refuted']
ALLOWED_AXIOMS = []
RULE = ('random valid nondegenerate extensions (3-5 D, any slice axis or none, canonical and widened classes, list / nested / '
        'None values) x image perturbations {exact, other in-plane extents, T+-1, V+-1, trailing dims dropped / added, S+-1, '
        'slice axis relabelled, dim_info removed, slice row flipped / permuted / rescaled, 3x3 part transposed, slice axis properly '
        'flipped (column negated, origin moved), in-plane axis flipped, slice / in-plane columns exchanged, row moved '
        'within / beyond the tolerance}; affines mostly oblique (slice row != slice column) ; one or two perturbations composed per case, perturbations that do not apply are not labelled; ~12% trailing-singleton '
        'extensions; 3-D image under a 5-D extension; x keys (every key and a missing one) x indices {in range, one coordinate = extent, negative, too short, '
        'too long, None}; non-trivial = the key is in a varying class')
TRUSTED_BASE = ['hand-written Gallina model coq/Ext/Model.v of get_meta / meta_valid / __getitem__ (tied by Ext/Corr.v check_lookup)',
                'nibabel Nifti1Image / header (shape, dim_info slice, affine) is a contract: only img.shape, '
                'header.get_dim_info()[2], header.get_n_slices() = shape[slice_dim], img.affine are read',
                'np.allclose(a, b, atol=<source literal>) modelled exactly in Q as |a-b| <= atol + 1e-5*|b|; the tolerance is '
                'regenerated from the source, the property names no number: perturbations are either <= 2^-23 or >= 2^-5, so '
                'nothing is judged near any plausible tolerance']
ASSUMPTIONS = ['TWO matching predicates: agrees_dir (the SPEC: slice DIRECTIONS = affine columns agree) and agrees_code (what the code '
               'tests: affine ROWS).  C08_value / C08_bounds / C08_mismatch are about agrees_code; they hold for agrees_dir only on '
               'slice_sym (slice row = slice column in both affines, e.g. axial storage / symmetric 3x3 part): C08_*_dir.  Off that '
               'domain the property fails both ways (open finding N13: C08_flip_refuted, C08_rowonly_refuted); the oracle is written '
               'against DIRECTIONS and reports those inputs with signature lookup/slice-direction-row-vs-column',
               'the extension is valid and nondegenerate (NiftiWrapper.__init__ enforces check_valid); in lookup_hist the in-place '
               'edits keep it valid (setters of affine, slice_dim between axes of equal extent, in-plane shape; replace_extension)',
               'index entries are Python ints; image is 3-5 D with slice dim_info in {None,0,1,2}',
               'where the property is silent nothing is pinned: a constant / the default returned for a BAD index may also be an '
               'IndexError; __getitem__ of a non-constant key must raise (any exception class); get_subset-style exception '
               'classes are not compared; only the IndexError of get_meta is (the property names it)',
               'Python == on values coincides with structural equality']

DEFAULT = {'dflt': [1]}          # a value no generator emits


def _agrees(E, img, c, vec):
    if c == 'GConst':
        return True
    ms, is_ = E['shape'], img['shape']
    if c == 'VSamples':
        return ms[4:] == is_[4:]
    if c == 'TSamples':
        return ms[3:] == is_[3:]
    if img['slice'] is None or E['sdim'] is None:
        return False
    if ms[E['sdim']] != is_[img['slice']]:
        return False
    a = [Fraction(x) for x in vec(img['aff'], img['slice'])]
    b = [Fraction(x) for x in vec(E['aff'], E['sdim'])]
    if not X.allclose(a, b, atol=Fraction(1, 1000000)):
        return False
    if c == 'TSlices':
        return True
    if c == 'VSlices':
        return ms[3:4] == is_[3:4]
    return ms[3:] == is_[3:]


def agrees_dir(E, img, c):
    """THE SPEC (from the property text): the image still matches the extension for class c -- trailing dims, slice
    count, slice axis present, and the slice DIRECTIONS agree (column [:3, slice dim] of the two affines)."""
    return _agrees(E, img, c, lambda a, d: [a[r][d] for r in range(3)])


def agrees_code(E, img, c):
    """What the code tests (the ROW affine[slice dim, :3]); only used to recognise the open finding N13."""
    return _agrees(E, img, c, lambda a, d: a[d][:3])


agrees = agrees_dir


def bad_index(img, idx):
    return idx is not None and (len(idx) != len(img['shape']) or any(not (0 <= i < n) for i, n in zip(idx, img['shape'])))


def expected(case, agrees=agrees_dir):
    """What the property demands of get_meta: ('val', v, lenient) or ('err', 'EIndex', False).  lenient: the property
    does not say that a constant / the default wins over a bad index, so IndexError is acceptable there too."""
    E, img, k, idx = case['ext'], case['img'], case['key'], case['index']
    bad = bad_index(img, idx)
    ent = X.entry_map(E).get(k)
    if ent is None or not X.class_ok(E['shape'], ent[0]):
        return ('val', DEFAULT, bad)
    c, vs = ent
    if c == 'GConst':
        return ('val', vs[0], bad)
    if not agrees(E, img, c):
        return ('val', DEFAULT, bad)
    if idx is None:
        return ('val', DEFAULT, False)
    if bad:
        return ('err', 'EIndex', False)
    sh = img['shape']
    s = idx[img['slice']] if img['slice'] is not None else 0
    t = idx[3] if len(idx) > 3 else 0
    v = idx[4] if len(idx) > 4 else 0
    # documented layout on the IMAGE grid (slice index fastest, then time, then vector)
    S = sh[img['slice']] if img['slice'] is not None else 1
    T = sh[3] if len(sh) > 3 else 1
    i = X.cidx((S, T, 1), c, (s, t, v))
    return ('val', vs[i], False) if i < len(vs) else ('err', 'EIndex', False)


PERTS = ['exact'] * 6 + ['inplane', 'T+1', 'T-1', 'V+1', 'V-1', 'drop_trailing', 'drop_trailing2', 'add_trailing', 'S+1', 'S-1',
                          'relabel', 'no_dim_info', 'flip_row', 'perm_rows', 'rescale_row', 'rescale_col', 'tiny', 'small', 'transpose',
                          'flip_slice_axis', 'flip_slice_axis', 'flip_inplane_axis', 'flip_inplane_axis', 'swap_axes_cols']
TINY, SMALL = 2.0 ** -23, 2.0 ** -5     # far inside / far outside any sensible direction tolerance (the property names no number)


def perturb(rng, E, pert, img=None):
    """Apply one perturbation to the image state (default: the image the extension was made for)."""
    if img is None:
        img = {'shape': list(E['shape']), 'slice': E['sdim'], 'aff': copy.deepcopy(E['aff'])}
    else:
        img = copy.deepcopy(img)
    sh, sd = img['shape'], img['slice']
    if pert == 'inplane':
        for ax in range(3):
            if ax != sd:
                sh[ax] = rng.randint(1, 4)
    elif pert in ('T+1', 'T-1') and len(sh) > 3:
        sh[3] = max(1, sh[3] + (1 if pert == 'T+1' else -1))
    elif pert in ('V+1', 'V-1') and len(sh) > 4:
        sh[4] = max(1, sh[4] + (1 if pert == 'V+1' else -1))
    elif pert == 'drop_trailing' and len(sh) > 3:
        del sh[-1]
    elif pert == 'drop_trailing2' and len(sh) > 4:
        del sh[3:]                                   # a 3-D image under a 5-D extension
    elif pert == 'add_trailing' and len(sh) < 5:
        sh.append(rng.randint(1, 3))
    elif pert in ('S+1', 'S-1') and sd is not None:
        sh[sd] = max(1, sh[sd] + (1 if pert == 'S+1' else -1))
    elif pert == 'relabel':
        img['slice'] = rng.choice([d for d in (0, 1, 2, None) if d != sd])
    elif pert == 'no_dim_info':
        img['slice'] = None
    elif pert == 'flip_row' and sd is not None:
        img['aff'][sd] = [-x for x in img['aff'][sd][:3]] + img['aff'][sd][3:]
    elif pert == 'perm_rows' and sd is not None:
        o = rng.choice([d for d in range(3) if d != sd])
        img['aff'][sd], img['aff'][o] = img['aff'][o], img['aff'][sd]
    elif pert == 'rescale_row' and sd is not None:
        img['aff'][sd] = [2.0 * x for x in img['aff'][sd][:3]] + img['aff'][sd][3:]
    elif pert == 'rescale_col' and sd is not None:
        for r in range(3):                           # other slice thickness: the slice column is rescaled
            img['aff'][r][sd] = 2.0 * img['aff'][r][sd]
    elif pert == 'flip_slice_axis' and sd is not None:
        # a PROPER flip of the slice axis: direction (column) negated, origin moved to the other end
        a = img['aff']
        n = sh[sd]
        for r in range(3):
            a[r][3] += a[r][sd] * (n - 1)
            a[r][sd] = -a[r][sd]
    elif pert == 'flip_inplane_axis' and sd is not None:
        # an in-plane axis is flipped: the slice direction does not change
        a = img['aff']
        ax = rng.choice([d for d in range(3) if d != sd])
        for r in range(3):
            a[r][3] += a[r][ax] * (sh[ax] - 1)
            a[r][ax] = -a[r][ax]
    elif pert == 'swap_axes_cols' and sd is not None:
        # the slice axis now runs along what was an in-plane direction (columns exchanged)
        a = img['aff']
        ax = rng.choice([d for d in range(3) if d != sd])
        for r in range(3):
            a[r][sd], a[r][ax] = a[r][ax], a[r][sd]
    elif pert == 'transpose':
        a = img['aff']
        img['aff'] = [[a[j][i] for j in range(3)] + [a[i][3]] for i in range(3)] + [a[3]]
    elif pert in ('tiny', 'small') and sd is not None:
        # move BOTH the slice row and the slice column (entry [sd][sd] lies on both): within / beyond any tolerance
        img['aff'][sd][sd] += (TINY if pert == 'tiny' else SMALL) * rng.choice([1, -1])
    return img


def gen_index(rng, sh):
    r = rng.random()
    idx = [rng.randrange(n) for n in sh]
    if r < 0.6:
        return idx, 'in'
    if r < 0.7:
        return None, 'none'
    j = rng.randrange(len(sh))
    if r < 0.8:
        idx[j] = sh[j] + rng.choice([0, 0, 1, 5])
        return idx, 'high'
    if r < 0.9:
        idx[j] = -rng.choice([1, 1, 2, sh[j]])
        return idx, 'neg'
    if r < 0.95:
        return idx[:-1], 'short'
    return idx + [0], 'long'


def gen_cases(rng, tier):
    n_ext = 130 if tier == 'quick' else 1200
    cases = []
    for _ in range(n_ext):
        E = X.gen_ext(rng, tier, nkeys=rng.randint(1, 4), widen=rng.choice([0.0, 0.4]),
                      aff=X.gen_affine(rng, rng.choice(['dense', 'dense', 'perm', 'perm', 'diag'])),
                      patterns=X.BASE_PATTERNS[1:] if rng.random() < 0.8 else None, trailing1=0.12)
        if len(E['shape']) >= 4 and rng.random() < 0.6:
            # make sure per-volume / per-(slice,time) layouts are frequent: they are where index arithmetic matters
            d = X.dims(E)
            ents = X.entry_map(E)
            for name, pat in (('PerVolume', 'vol'), ('PerSliceTime', 'slice_time'), ('Irregular', 'irregular')):
                enc = X.encode(rng, E['shape'], E['sdim'], X.gen_fn(rng, d, pat, alphabet=list(range(40))), 0.2)
                if enc is not None:
                    ents[name] = enc
            E = X.mk_E(E['shape'], E['sdim'], E['aff'], ents)
        exact = perturb(rng, E, 'exact')
        names = [rng.choice(PERTS)]
        if rng.random() < 0.3:
            names.append(rng.choice(PERTS))           # two perturbations composed
        img, applied = exact, []
        for nm in names:
            img2 = perturb(rng, E, nm, img)
            if img2 != img:
                applied.append(nm)                    # perturbations that do not apply (e.g. T+1 on a 3-D image) are not labelled
            img = img2
        pert = '+'.join(applied) or 'exact'
        keys = [k for k, _, _ in E['entries']] + ['NoSuchKey']
        for k in keys:
            for _ in range(2):
                idx, ik = gen_index(rng, img['shape'])
                cases.append({'kind': 'lookup/%s/%s' % (pert, ik), 'ext': E, 'img': img, 'key': k, 'index': idx,
                              'default': DEFAULT})
    return cases


run_impl = X.run_lookup
NAME = 'lookup'
CORR_REQUIRE = 'From DV Require Import Common.Jv Ext.Types Ext.Model Ext.Corr.'
CORR_CASE_TYPE = 'lookup_case'
CORR_CHECK = 'check_lookup'
CORR_SHOW = 'run_lookup'
SHARD = 150
IMPL_TIMEOUT = 20


def coq_case(case, obs):
    return X.lookup_case_to_coq(case, obs)


N13_TAG = '[row-vs-column]'
N13_SIG = 'lookup/slice-direction-row-vs-column'


def _get_mismatch(g, exp):
    kind, val, lenient = exp
    if lenient and g.get('err') == 'EIndex':
        return None
    if kind == 'val':
        if 'val' not in g:
            return 'get_meta raised %s (%s), expected %r' % (g.get('exc'), g.get('msg'), val)
        if g['val'] != val:
            return 'get_meta returned %r, expected %r' % (g['val'], val)
    elif g.get('err') != val:
        return 'get_meta gave %r, expected IndexError' % (g,)
    return None


def oracle_all(case, obs):
    """All clause messages for one lookup (get_meta first, then meta_valid per class, then __getitem__)."""
    E, img = case['ext'], case['img']
    out = []
    g = obs['get']
    m = _get_mismatch(g, expected(case))
    if m:
        ent0 = X.entry_map(E).get(case['key'])
        c0 = ent0[0] if ent0 else None
        if c0 and agrees_dir(E, img, c0) != agrees_code(E, img, c0) and _get_mismatch(g, expected(case, agrees_code)) is None:
            # open finding N13: the code compares the affine ROW, the property speaks of the slice DIRECTION (column)
            m = N13_TAG + ' slice directions %s but the code (row test) %s: %s' % (
                'agree' if agrees_dir(E, img, c0) else 'differ',
                'answers with the default' if agrees_dir(E, img, c0) else 'returns a stored value', m)
        out.append(m)
    for name, mv in zip(X.CLASSES, obs['mv']):
        if not isinstance(mv, bool):
            out.append('meta_valid(%s) raised %s' % (name, mv))
        elif mv != agrees_dir(E, img, name):
            tag = (N13_TAG + ' ') if mv == agrees_code(E, img, name) else ''
            out.append('%smeta_valid(%s) = %r but the image %s the extension for that class' % (
                tag, name, mv, 'matches' if agrees_dir(E, img, name) else 'does not match'))
    ent = X.entry_map(E).get(case['key'])
    it = obs['item']
    if ent is not None and ent[0] == 'GConst':
        if 'val' not in it or it['val'] != ent[1][0]:
            out.append('__getitem__ returned %r for a constant' % (it,))
    elif 'err' not in it:
        out.append('__getitem__ returned %r for a key that is not a global constant' % (it,))
    return out


def _pick(msgs):
    """prefer a message that is not the known finding N13"""
    for m in msgs:
        if N13_TAG not in m:
            return m
    return msgs[0] if msgs else None


def oracle(case, obs):
    if 'crash' in obs:
        return 'harness: %s: %s' % (obs.get('crash'), obs.get('msg'))
    return _pick(oracle_all(case, obs))


def signature(case, obs, msg):
    if N13_TAG in msg:
        return N13_SIG
    ent = X.entry_map(case['ext']).get(case['key'])
    return 'lookup/%s/%dD' % (ent[0] if ent else 'absent', len(case['img']['shape']))


def nontrivial(case, obs):
    ent = X.entry_map(case['ext']).get(case['key'])
    return ent is not None and ent[0] != 'GConst'


def shrink(case):
    for F in X.shrink_E(case['ext']):
        if any(k == case['key'] for k, _, _ in F['entries']) or case['key'] == 'NoSuchKey':
            c = dict(case)
            c['ext'] = F
            yield c


# ------------------------------------------------------------------------------------------ part 1 as a namespace

class Lookup:
    NAME = 'lookup'
    CORR_REQUIRE, CORR_CASE_TYPE, CORR_CHECK, CORR_SHOW = CORR_REQUIRE, CORR_CASE_TYPE, CORR_CHECK, CORR_SHOW
    SHARD, IMPL_TIMEOUT, RULE = SHARD, IMPL_TIMEOUT, RULE
    gen_cases = staticmethod(gen_cases)
    run_impl = staticmethod(X.run_lookup)
    coq_case = staticmethod(coq_case)
    oracle = staticmethod(oracle)
    signature = staticmethod(signature)
    nontrivial = staticmethod(nontrivial)
    shrink = staticmethod(shrink)


# ------------------------------------------------------------------------------------------ part 2: lookup histories
# ONE NiftiWrapper object; 2-4 steps, each = optional in-place perturbation of image / header / extension followed by
# lookups.  The model is a pure function of the CURRENT (image, extension) state, so the correspondence at every step
# is the formal content of "no hidden lookup state"; the oracle additionally compares every answer with a freshly
# constructed wrapper in the same state.

def _apply_pert(w, pert, np, dcmmeta):
    op = pert['op']
    nii = w.nii_img
    hdr = nii.header
    if op == 'dim_info':
        hdr.set_dim_info(slice=pert['slice'])
    elif op == 'aff_set':                         # in place, through the array the image hands out
        nii.affine[...] = np.array(pert['aff'], dtype=float)
        try:
            hdr.set_sform(nii.affine, code='aligned')
            hdr.set_qform(nii.affine, code='unknown')
        except Exception:                         # noqa: BLE001  (qform cannot hold every matrix; irrelevant to lookups)
            pass
    elif op == 'ext_affine':
        w.meta_ext.affine = np.array(pert['aff'], dtype=float)
    elif op == 'ext_slice_dim':
        w.meta_ext.slice_dim = pert['sdim']
    elif op == 'ext_shape':
        w.meta_ext.shape = pert['shape']
    elif op == 'replace_ext':
        w.replace_extension(X.build_ext(pert['ext']))
    elif op != 'none':
        raise ValueError('unknown perturbation %r' % op)


def _answers(w, key, idx):
    import copy as _copy
    out = {'get': X._guard(lambda: {'val': X._plain(w.get_meta(key, None if idx is None else tuple(idx), _copy.deepcopy(DEFAULT)))}),
           'item': X._guard(lambda: {'val': X._plain(w[key])}), 'mv': []}
    for name in X.CLASSES:
        try:
            out['mv'].append(bool(w.meta_valid(X.PYCLS[name])))
        except Exception as e:                    # noqa: BLE001
            out['mv'].append('exc:' + type(e).__name__)
    return out


def _fresh(E, img):
    """A newly constructed wrapper in the given state (constructed around an empty extension, then the extension is
    swapped in, so that the constructor's check_valid never stands in the way)."""
    np, dcmmeta = X._imports()
    w = X.build_wrapper(X.mk_E(img['shape'], img['slice'], img['aff'], {}), img)
    w.replace_extension(X.build_ext(E))
    return w


def run_hist(case):
    np, dcmmeta = X._imports()
    w = X.build_wrapper(case['ext'], case['img'])
    steps = []
    for st in case['steps']:
        _apply_pert(w, st['pert'], np, dcmmeta)
        sl = w.nii_img.header.get_dim_info()[2]
        img = {'shape': [int(x) for x in w.nii_img.shape], 'slice': None if sl is None else int(sl),
               'aff': [[float(x) for x in row] for row in w.nii_img.affine]}
        E = X.ext_to_json(w.meta_ext)
        fr = _fresh(E, img)
        ans = []
        for key, idx in st['queries']:
            ans.append({'live': _answers(w, key, idx), 'fresh': _answers(fr, key, idx)})
        steps.append({'img': img, 'ext': E, 'answers': ans})
    return {'steps': steps}


def _aff_variants(rng, aff, sd):
    a = copy.deepcopy(aff)
    kind = rng.choice(['flip', 'swap_rows', 'rescale', 'swap_cols', 'tiny', 'small', 'flip_col', 'flip_col', 'flip_other_col'])
    r = sd if sd is not None else rng.randrange(3)
    if kind == 'flip':
        a[r] = [-x for x in a[r][:3]] + a[r][3:]
    elif kind == 'swap_rows':
        o = rng.choice([d for d in range(3) if d != r])
        a[r], a[o] = a[o], a[r]
    elif kind == 'rescale':
        a[r] = [2.0 * x for x in a[r][:3]] + a[r][3:]
    elif kind in ('flip_col', 'flip_other_col'):
        j = r if kind == 'flip_col' else rng.choice([d for d in range(3) if d != r])
        for row in a[:3]:
            row[3] += row[j]
            row[j] = -row[j]
    elif kind == 'swap_cols':
        i, j = rng.sample(range(3), 2)
        for row in a[:3]:
            row[i], row[j] = row[j], row[i]
    else:
        a[r][r] += (TINY if kind == 'tiny' else SMALL) * rng.choice([1, -1])
    return a, kind


def gen_hist_cases(rng, tier):
    """Every step carries the GENERATOR's truth about the state after it ('state': {'img', 'ext'}); answers are judged
    against that, and a separate clause checks that the state read back from the live objects equals it."""
    n = 90 if tier == 'quick' else 700
    cases = []
    for _ in range(n):
        E = X.gen_ext(rng, tier, nkeys=rng.randint(1, 3), widen=rng.choice([0.0, 0.4]),
                      aff=X.gen_affine(rng, rng.choice(['dense', 'perm', 'perm'])), patterns=X.BASE_PATTERNS[1:],
                      trailing1=0.1)
        d = X.dims(E)
        ents = X.entry_map(E)
        for name, pat in (('PerVolume', 'vol'), ('PerSliceTime', 'slice_time'), ('PerSlice', 'slice'), ('Irregular', 'irregular')):
            enc = X.encode(rng, E['shape'], E['sdim'], X.gen_fn(rng, d, pat, alphabet=list(range(40))), 0.2)
            if enc is not None:
                ents[name] = enc
        E = X.mk_E(E['shape'], E['sdim'], E['aff'], ents)
        img = {'shape': list(E['shape']), 'slice': E['sdim'], 'aff': copy.deepcopy(E['aff'])}
        keys = [k for k, _, _ in E['entries']]
        cur_slice, cur_aff, cur_E = img['slice'], copy.deepcopy(img['aff']), E
        steps, kinds = [], []

        def state():
            return {'img': {'shape': list(img['shape']), 'slice': cur_slice, 'aff': copy.deepcopy(cur_aff)},
                    'ext': copy.deepcopy(cur_E)}
        for si in range(rng.randint(2, 4)):
            r = rng.random()
            pert = {'op': 'none'}
            if si > 0 or r < 0.3:
                op = rng.choice(['dim_info', 'dim_info', 'aff_set', 'aff_set', 'restore', 'ext_affine', 'ext_slice_dim',
                                 'ext_shape', 'replace_ext', 'replace_ext'])
                if op == 'dim_info':
                    cur_slice = rng.choice([x for x in (None, 0, 1, 2) if x != cur_slice])
                    pert = {'op': 'dim_info', 'slice': cur_slice}
                elif op == 'aff_set':
                    cur_aff, k = _aff_variants(rng, cur_aff, cur_slice)
                    pert = {'op': 'aff_set', 'aff': cur_aff, 'how': k}
                elif op == 'restore':
                    # back to a matching image: answers must come back too
                    cur_slice = cur_E['sdim']
                    steps.append({'pert': {'op': 'dim_info', 'slice': cur_slice}, 'queries': [], 'state': state()})
                    cur_aff = copy.deepcopy(cur_E['aff'])
                    pert = {'op': 'aff_set', 'aff': cur_aff, 'how': 'restore'}
                elif op == 'ext_affine':
                    a, k = _aff_variants(rng, cur_E['aff'], cur_E['sdim'])
                    cur_E = dict(cur_E, aff=a)
                    pert = {'op': 'ext_affine', 'aff': a, 'how': 'ext_' + k}
                elif op == 'ext_slice_dim' and cur_E['sdim'] is not None:
                    alts = [x for x in range(3) if x != cur_E['sdim'] and cur_E['shape'][x] == cur_E['shape'][cur_E['sdim']]]
                    if alts:
                        cur_E = dict(cur_E, sdim=rng.choice(alts))
                        pert = {'op': 'ext_slice_dim', 'sdim': cur_E['sdim']}
                elif op == 'ext_shape':
                    sh = list(cur_E['shape'])
                    for ax in range(3):
                        if ax != cur_E['sdim']:
                            sh[ax] = rng.randint(1, 4)
                    cur_E = dict(cur_E, shape=sh)
                    pert = {'op': 'ext_shape', 'shape': sh}
                elif op == 'replace_ext':
                    # another valid extension: same grid, other T / V, or another slice count
                    sh2 = list(cur_E['shape'])
                    how = rng.choice(['same', 'trailing', 'slices'])
                    if how == 'trailing' and len(sh2) > 3:
                        ax = rng.randrange(3, len(sh2))
                        sh2[ax] = max(2, sh2[ax] + rng.choice([1, -1]))
                    elif how == 'slices' and cur_E['sdim'] is not None:
                        sh2[cur_E['sdim']] = max(1, sh2[cur_E['sdim']] + rng.choice([1, -1, 2]))
                    E2 = X.gen_ext(rng, tier, shape=sh2, sdim=cur_E['sdim'], aff=cur_E['aff'], nkeys=2,
                                   patterns=X.BASE_PATTERNS[1:])
                    ents2 = X.entry_map(E2)
                    for name, pat in (('PerVolume', 'vol'), ('PerSlice', 'slice')):
                        enc = X.encode(rng, sh2, E2['sdim'], X.gen_fn(rng, X.dims(E2), pat, alphabet=list(range(50, 90))), 0.0)
                        if enc is not None:
                            ents2[name] = enc
                    cur_E = X.mk_E(sh2, E2['sdim'], E2['aff'], ents2)
                    pert = {'op': 'replace_ext', 'ext': cur_E, 'how': 'replace_' + how}
            kinds.append(pert.get('how') or pert['op'])
            qkeys = sorted(set(keys + [k for k, _, _ in cur_E['entries']]))
            queries = []
            for k in qkeys:
                for _ in range(1 if len(qkeys) > 4 else 2):
                    idx, _ik = gen_index(rng, img['shape'])
                    queries.append([k, idx])
            steps.append({'pert': pert, 'queries': queries, 'state': state()})
        cases.append({'kind': 'hist/' + '+'.join(kinds), 'ext': E, 'img': img, 'steps': steps})
    return cases


class LookupHist:
    NAME = 'lookup_hist'
    CORR_REQUIRE = 'From DV Require Import Common.Jv Ext.Types Ext.Model Ext.Corr.'
    CORR_CASE_TYPE = 'list hist_step'
    CORR_CHECK = 'forallb check_step'
    CORR_SHOW = 'map run_step'
    SHARD = 30
    IMPL_TIMEOUT = 40
    RULE = ('ONE NiftiWrapper object, 2-4 steps; each step = optional IN-PLACE perturbation (header set_dim_info slice entry changed '
            '/ removed / restored; image affine overwritten in place through nii_img.affine[...] with rows flipped / swapped / '
            'rescaled, columns swapped, moved within / beyond tolerance, or restored, plus set_sform / set_qform; extension '
            'affine / slice_dim / shape setters; replace_extension with another valid extension, possibly of other T / V) followed '
            'by get_meta / meta_valid / __getitem__ of every key at sampled indices; each answer is compared (a) with a freshly '
            'constructed wrapper in the same state, (b) with the C08 statements for the current state, (c) in Coq with the '
            'model applied to the current state')

    gen_cases = staticmethod(gen_hist_cases)
    run_impl = staticmethod(run_hist)

    @staticmethod
    def coq_case(case, obs):
        # the model is evaluated on the GENERATOR's state (the oracle separately checks read-back == generator state)
        items = []
        for st_c, st_o in zip(case['steps'], obs.get('steps', [])):
            qs = []
            for (key, idx), a in zip(st_c['queries'], st_o['answers']):
                live = a['live']
                mv = [m if isinstance(m, bool) else False for m in live['mv']]
                qs.append('(mk_lookup_query %s %s %s %s %s %s)' % (
                    X.cstr(key), X.copt(idx, lambda ix: X.clist(X.cz(i) for i in ix)), X.cjv(DEFAULT),
                    X.resjv_to_coq(live['get']), X.clist(X.cbool(b) for b in mv), X.resjv_to_coq(live['item'])))
            items.append('(%s, %s, %s)' % (X.img_to_coq(st_c['state']['img']), X.ext_to_coq(st_c['state']['ext']), X.clist(qs)))
        return X.clist(items)

    @staticmethod
    def oracle(case, obs):
        if 'crash' in obs:
            return 'harness: %s: %s' % (obs.get('crash'), obs.get('msg'))
        msgs = []
        if len(obs.get('steps', [])) != len(case['steps']):
            return 'history stopped after %d of %d steps' % (len(obs.get('steps', [])), len(case['steps']))
        for si, (st_c, st_o) in enumerate(zip(case['steps'], obs['steps'])):
            op = st_c['pert']['op']
            T = st_c['state']
            if st_o['img'] != T['img']:
                msgs.append('step %d (%s): the image state read back %r is not what the edits produce %r' % (si, op, st_o['img'], T['img']))
            if st_o['ext'] != T['ext']:
                msgs.append('step %d (%s): the extension read back differs from what the edits produce' % (si, op))
            for (key, idx), a in zip(st_c['queries'], st_o['answers']):
                if a['live'] != a['fresh']:
                    msgs.append('step %d (%s): lookup of %r at %r on the used wrapper gives %r but a fresh wrapper in the same '
                                'state gives %r' % (si, op, key, idx, _short(a['live']), _short(a['fresh'])))
                q = {'ext': T['ext'], 'img': T['img'], 'key': key, 'index': idx, 'default': DEFAULT}
                msgs += ['step %d (%s): %s' % (si, op, m) for m in oracle_all(q, a['live'])]
        return _pick(msgs)

    @staticmethod
    def signature(case, obs, msg):
        if N13_TAG in msg:
            return N13_SIG
        if 'fresh wrapper' in msg:
            return 'lookup-history/stateful'
        if 'read back' in msg:
            return 'lookup-history/state-readback'
        return 'lookup-history/wrong-answer'

    @staticmethod
    def nontrivial(case, obs):
        return any(st['pert']['op'] != 'none' for st in case['steps'])

    @staticmethod
    def shrink(case):
        # only queries are dropped: every step keeps its perturbation and its generator state, so a candidate is a
        # history of the same domain
        for i, st in enumerate(case['steps']):
            for j in range(len(st['queries'])):
                c = copy.deepcopy(case)
                del c['steps'][i]['queries'][j]
                yield c


def _short(a):
    return {'get': a['get'].get('val', a['get'].get('exc')), 'mv': a['mv'], 'item': a['item'].get('val', a['item'].get('exc'))}


PARTS = [Lookup, LookupHist]


# source tie (integrator): the helper functions the extension model rests on are TRANSLATED from the Python AST on every
# run (tools/tables/py2coq.py, t_src_ext.py -> Generated/T_src_ext.v) and the hand models are proved equal to the translation
COQ_PROPS = (list(COQ_PROPS) if isinstance(COQ_PROPS, (list, tuple)) else [COQ_PROPS]) + ['Props/SRC.v']
THEOREMS = list(THEOREMS) + ['SRC_valid_classes', 'SRC_class_valid', 'SRC_multiplicity', 'SRC_is_constant', 'SRC_is_repeating', 'SRC_const_period', 'SRC_n_slices']
TABLES = sorted(set(list(globals().get('TABLES') or ['t_classes', 't_ext_tol']) + ['t_src_ext', 't_classes', 't_ext_tol']))
TRUSTED_BASE = list(TRUSTED_BASE) + ['tools/tables/py2coq.py + t_src_ext.py: typed fail-closed translator of is_constant, is_repeating, get_valid_classes, get_multiplicity, _get_const_period, n_slices into Gallina; coq/Common/PyOps2.v as the meaning of the translated primitives']


# source tie (integrator): meta_valid / get_meta / __getitem__ are TRANSLATED from the Python AST on every run
# (tools/tables/t_src_lookup.py) and Ext.Model's lookups are proved equal to the translation (Props/SRClookup.v)
COQ_PROPS = (list(COQ_PROPS) if isinstance(COQ_PROPS, (list, tuple)) else [COQ_PROPS]) + ['Props/SRClookup.v']
THEOREMS = list(THEOREMS) + ['SRC_meta_valid', 'SRC_get_meta', 'SRC_getitem']
TABLES = sorted(set(list(globals().get('TABLES') or []) + ['t_src_lookup', 't_classes', 't_ext_tol']))


# ------------------------------------------------------------------------------------------ part 3: systematic lookups
# DETERMINISTIC (every seed contains it): small shapes with NON-cubic spatial extents, slice axis 0 / 1 / 2, one key per
# classification, exact image, EVERY in-range index (plus the index-free lookup).  One case = one (image, extension) state
# with all its queries (Coq type hist_step).

SYS_SHAPES = [(5, 3, 2), (5, 3, 2, 3), (2, 3, 4, 2, 3), (3, 4, 2, 1, 2)]
SYS_AFF = [[0.0, 0.5, 0.0, 3.0], [0.0, 0.0, 1.5, 10.5], [2.0, 0.0, 0.0, -8.0], [0.0, 0.0, 0.0, 1.0]]     # slice axes off the diagonal


def gen_sys_cases(rng, tier):
    import itertools
    cases = []
    for sh in SYS_SHAPES:
        for sd in (0, 1, 2):
            d = X.dims({'shape': list(sh), 'sdim': sd})
            ents = {}
            for i, c in enumerate(X.PREF):
                if X.class_ok(sh, c) and (c == 'GConst' or X.mult(d, c) != 1):
                    vals = [1000 * (i + 1) + j for j in range(X.mult(d, c))]
                    ents['k' + c] = (c, vals)
            E = X.mk_E(list(sh), sd, copy.deepcopy(SYS_AFF), ents)
            img = {'shape': list(sh), 'slice': sd, 'aff': copy.deepcopy(SYS_AFF)}
            queries = [[k, None] for k in sorted(ents)]
            for idx in itertools.product(*[range(n) for n in sh]):
                for k in sorted(ents):
                    if ents[k][0] != 'GConst' or sum(idx) == 0:
                        queries.append([k, list(idx)])
            cases.append({'kind': 'sys-lookup/%dD/sd%d' % (len(sh), sd), 'ext': E, 'img': img, 'queries': queries})
    return cases


def run_sys(case):
    w = X.build_wrapper(case['ext'], case['img'])
    return {'answers': [_answers(w, k, idx) for k, idx in case['queries']]}


class LookupSys:
    NAME = 'lookup_sys'
    CORR_REQUIRE = 'From DV Require Import Common.Jv Ext.Types Ext.Model Ext.Corr.'
    CORR_CASE_TYPE = 'hist_step'
    CORR_CHECK = 'check_step'
    CORR_SHOW = 'run_step'
    SHARD = 3
    IMPL_TIMEOUT = 120
    RULE = ('deterministic block (in every seed): shapes (5,3,2), (5,3,2,3), (2,3,4,2,3), (3,4,2,1,2) x slice axis 0/1/2 on an '
            'affine whose slice axes are off the diagonal, one key per classification with all-different values, the exact '
            'image, EVERY in-range voxel index for every varying key (and the index-free lookup); non-trivial = always (every '
            'case holds every varying class)')
    gen_cases = staticmethod(gen_sys_cases)
    run_impl = staticmethod(run_sys)

    @staticmethod
    def coq_case(case, obs):
        qs = []
        for (key, idx), a in zip(case['queries'], obs.get('answers', [])):
            mv = [m if isinstance(m, bool) else False for m in a['mv']]
            qs.append('(mk_lookup_query %s %s %s %s %s %s)' % (
                X.cstr(key), X.copt(idx, lambda ix: X.clist(X.cz(i) for i in ix)), X.cjv(DEFAULT),
                X.resjv_to_coq(a['get']), X.clist(X.cbool(b) for b in mv), X.resjv_to_coq(a['item'])))
        return '(%s, %s, %s)' % (X.img_to_coq(case['img']), X.ext_to_coq(case['ext']), X.clist(qs))

    @staticmethod
    def oracle(case, obs):
        if 'crash' in obs:
            return 'harness: %s: %s' % (obs.get('crash'), obs.get('msg'))
        if len(obs.get('answers', [])) != len(case['queries']):
            return 'only %d of %d lookups were answered' % (len(obs.get('answers', [])), len(case['queries']))
        msgs = []
        for (key, idx), a in zip(case['queries'], obs['answers']):
            q = {'ext': case['ext'], 'img': case['img'], 'key': key, 'index': idx, 'default': DEFAULT}
            msgs += ['%r at %r: %s' % (key, idx, m) for m in oracle_all(q, a)]
        return _pick(msgs)

    @staticmethod
    def signature(case, obs, msg):
        if N13_TAG in msg:
            return N13_SIG
        cls = [c for c in X.CLASSES if ("'k%s'" % c) in msg[:40]]
        return 'lookup-sys/%s/%dD' % (cls[0] if cls else 'any', len(case['img']['shape']))

    @staticmethod
    def nontrivial(case, obs):
        return any(c != 'GConst' for _, c, _ in case['ext']['entries'])

    @staticmethod
    def shrink(case):
        n = len(case['queries'])
        if n > 1:
            for half in (case['queries'][:n // 2], case['queries'][n // 2:]):
                c = dict(case)
                c['queries'] = half
                yield c


PARTS = [LookupSys, Lookup, LookupHist]
