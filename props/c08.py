"""C08 Lookups: NiftiWrapper.get_meta / meta_valid / __getitem__ return the value at the asked position, or the
default when the image no longer matches the extension."""
import copy
from fractions import Fraction
from props import extlib as X

ID = 'C08'
COQ_PROPS = 'Props/C08.v'
THEOREMS = ['C08_value', 'C08_const', 'C08_noindex', 'C08_bounds', 'C08_mismatch', 'C08_absent', 'C08_total',
            'C08_agrees_exact', 'C08_getitem']
ALLOWED_AXIOMS = []
RULE = ('random valid nondegenerate extensions (3-5 D, any slice axis or none, canonical and widened classes, list / nested / '
        'None values) x image perturbations {exact, other in-plane extents, T+-1, V+-1, trailing dims dropped / added, S+-1, '
        'slice axis relabelled, dim_info removed, slice row flipped / permuted / rescaled, 3x3 part transposed, row moved '
        'within / beyond the tolerance}; affines mostly oblique (slice row != slice column) x keys (every key and a missing one) x indices {in range, one coordinate = extent, negative, too short, '
        'too long, None}; non-trivial = the key is in a varying class')
TRUSTED_BASE = ['hand-written Gallina model coq/Ext/Model.v of get_meta / meta_valid / __getitem__ (tied by Ext/Corr.v check_lookup)',
                'nibabel Nifti1Image / header (shape, dim_info slice, affine) is a contract: only img.shape, '
                'header.get_dim_info()[2], header.get_n_slices() = shape[slice_dim], img.affine are read',
                'np.allclose(a, b, atol=1e-6) modelled exactly in Q as |a-b| <= atol + 1e-5*|b| (generators stay a factor >= 8 '
                'away from the boundary, geometry is dyadic)']
ASSUMPTIONS = ['the extension is valid and nondegenerate (NiftiWrapper.__init__ enforces check_valid)',
               'index entries are Python ints; image is 3-5 D with slice dim_info in {None,0,1,2}',
               'Python == on values coincides with structural equality']

DEFAULT = {'dflt': [1]}          # a value no generator emits


def agrees(E, img, c):
    """Declarative 'the image still matches the extension for class c' (written from the property text)."""
    if c == 'GConst':
        return True
    ms, is_ = E['shape'], img['shape']
    if c == 'VSamples':
        return ms[4:] == is_[4:]
    if c == 'TSamples':
        return ms[3:] == is_[3:]
    if img['slice'] is None or E['sdim'] is None:
        return False
    if ms[E['sdim']] != is_[img['slice']]:
        return False
    a = [Fraction(x) for x in img['aff'][img['slice']][:3]]
    b = [Fraction(x) for x in E['aff'][E['sdim']][:3]]
    if not X.allclose(a, b, atol=Fraction(1, 1000000)):
        return False
    if c == 'TSlices':
        return True
    if c == 'VSlices':
        return ms[3:4] == is_[3:4]
    return ms[3:] == is_[3:]


def expected(case):
    """What the property demands of get_meta: ('val', v) or ('err', 'EIndex')."""
    E, img, k, idx = case['ext'], case['img'], case['key'], case['index']
    ent = X.entry_map(E).get(k)
    if ent is None or not X.class_ok(E['shape'], ent[0]):
        return ('val', DEFAULT)
    c, vs = ent
    if c == 'GConst':
        return ('val', vs[0])
    if not agrees(E, img, c):
        return ('val', DEFAULT)
    if idx is None:
        return ('val', DEFAULT)
    sh = img['shape']
    if len(idx) != len(sh) or any(not (0 <= i < n) for i, n in zip(idx, sh)):
        return ('err', 'EIndex')
    s = idx[img['slice']] if img['slice'] is not None else 0
    t = idx[3] if len(idx) > 3 else 0
    v = idx[4] if len(idx) > 4 else 0
    # documented layout on the IMAGE grid (slice index fastest, then time, then vector)
    S = sh[img['slice']] if img['slice'] is not None else 1
    T = sh[3] if len(sh) > 3 else 1
    i = X.cidx((S, T, 1), c, (s, t, v))
    return ('val', vs[i]) if i < len(vs) else ('err', 'EIndex')


PERTS = ['exact'] * 6 + ['inplane', 'T+1', 'T-1', 'V+1', 'V-1', 'drop_trailing', 'add_trailing', 'S+1', 'S-1', 'relabel',
                          'no_dim_info', 'flip_row', 'perm_rows', 'rescale_row', 'tiny', 'small', 'transpose']


def perturb(rng, E, pert):
    sh, sd = list(E['shape']), E['sdim']
    img = {'shape': sh, 'slice': sd, 'aff': copy.deepcopy(E['aff'])}
    if pert == 'inplane':
        for ax in range(3):
            if ax != sd:
                sh[ax] = rng.randint(1, 4)
    elif pert in ('T+1', 'T-1') and len(sh) > 3:
        sh[3] = max(1, sh[3] + (1 if pert == 'T+1' else -1))
    elif pert in ('V+1', 'V-1') and len(sh) > 4:
        sh[4] = max(1, sh[4] + (1 if pert == 'V+1' else -1))
    elif pert == 'drop_trailing' and len(sh) > 3:
        del sh[-1]
    elif pert == 'add_trailing' and len(sh) < 5:
        sh.append(rng.randint(1, 3))
    elif pert in ('S+1', 'S-1') and sd is not None:
        sh[sd] = max(1, sh[sd] + (1 if pert == 'S+1' else -1))
    elif pert == 'relabel':
        img['slice'] = rng.choice([d for d in (0, 1, 2, None) if d != sd])
    elif pert == 'no_dim_info':
        img['slice'] = None
    elif pert == 'flip_row' and sd is not None:
        img['aff'][sd] = [-x for x in img['aff'][sd][:3]] + img['aff'][sd][3:]
    elif pert == 'perm_rows' and sd is not None:
        o = rng.choice([d for d in range(3) if d != sd])
        img['aff'][sd], img['aff'][o] = img['aff'][o], img['aff'][sd]
    elif pert == 'rescale_row' and sd is not None:
        img['aff'][sd] = [2.0 * x for x in img['aff'][sd][:3]] + img['aff'][sd][3:]
    elif pert == 'transpose':
        a = img['aff']
        img['aff'] = [[a[j][i] for j in range(3)] + [a[i][3]] for i in range(3)] + [a[3]]
    elif pert in ('tiny', 'small') and sd is not None:
        j = rng.randrange(3)
        img['aff'][sd][j] += (2.0 ** -23 if pert == 'tiny' else 2.0 ** -12) * rng.choice([1, -1])
    return img


def gen_index(rng, sh):
    r = rng.random()
    idx = [rng.randrange(n) for n in sh]
    if r < 0.6:
        return idx, 'in'
    if r < 0.7:
        return None, 'none'
    j = rng.randrange(len(sh))
    if r < 0.8:
        idx[j] = sh[j] + rng.choice([0, 0, 1, 5])
        return idx, 'high'
    if r < 0.9:
        idx[j] = -rng.choice([1, 1, 2, sh[j]])
        return idx, 'neg'
    if r < 0.95:
        return idx[:-1], 'short'
    return idx + [0], 'long'


def gen_cases(rng, tier):
    n_ext = 130 if tier == 'quick' else 1200
    cases = []
    for _ in range(n_ext):
        E = X.gen_ext(rng, tier, nkeys=rng.randint(1, 4), widen=rng.choice([0.0, 0.4]),
                      aff=X.gen_affine(rng, rng.choice(['dense', 'dense', 'perm', 'diag'])),
                      patterns=X.BASE_PATTERNS[1:] if rng.random() < 0.8 else None)
        if len(E['shape']) >= 4 and rng.random() < 0.6:
            # make sure per-volume / per-(slice,time) layouts are frequent: they are where index arithmetic matters
            d = X.dims(E)
            ents = X.entry_map(E)
            for name, pat in (('PerVolume', 'vol'), ('PerSliceTime', 'slice_time'), ('Irregular', 'irregular')):
                enc = X.encode(rng, E['shape'], E['sdim'], X.gen_fn(rng, d, pat, alphabet=list(range(40))), 0.2)
                if enc is not None:
                    ents[name] = enc
            E = X.mk_E(E['shape'], E['sdim'], E['aff'], ents)
        pert = rng.choice(PERTS)
        img = perturb(rng, E, pert)
        keys = [k for k, _, _ in E['entries']] + ['NoSuchKey']
        for k in keys:
            for _ in range(2):
                idx, ik = gen_index(rng, img['shape'])
                cases.append({'kind': 'lookup/%s/%s' % (pert, ik), 'ext': E, 'img': img, 'key': k, 'index': idx,
                              'default': DEFAULT})
    return cases


run_impl = X.run_lookup
NAME = 'lookup'
CORR_REQUIRE = 'From DV Require Import Common.Jv Ext.Types Ext.Model Ext.Corr.'
CORR_CASE_TYPE = 'lookup_case'
CORR_CHECK = 'check_lookup'
CORR_SHOW = 'run_lookup'
SHARD = 150
IMPL_TIMEOUT = 20


def coq_case(case, obs):
    return X.lookup_case_to_coq(case, obs)


def oracle(case, obs):
    if 'crash' in obs:
        return 'harness: %s' % obs.get('msg')
    g = obs['get']
    kind, val = expected(case)
    if kind == 'val':
        if 'val' not in g:
            return 'get_meta raised %s (%s), expected %r' % (g.get('exc'), g.get('msg'), val)
        if g['val'] != val:
            return 'get_meta returned %r, expected %r' % (g['val'], val)
    else:
        if g.get('err') != val:
            return 'get_meta gave %r, expected IndexError' % (g,)
    for name, m in zip(X.CLASSES, obs['mv']):
        if not isinstance(m, bool):
            return 'meta_valid(%s) raised %s' % (name, m)
    ent = X.entry_map(case['ext']).get(case['key'])
    it = obs['item']
    if ent is not None and ent[0] == 'GConst':
        if it.get('val') != ent[1][0] or 'val' not in it:
            return '__getitem__ returned %r for a constant' % (it,)
    elif it.get('err') != 'EKey':
        return '__getitem__ gave %r for a non-constant key, expected KeyError' % (it,)
    return None


def signature(case, obs, msg):
    ent = X.entry_map(case['ext']).get(case['key'])
    return 'lookup/%s/%dD' % (ent[0] if ent else 'absent', len(case['img']['shape']))


def nontrivial(case, obs):
    ent = X.entry_map(case['ext']).get(case['key'])
    return ent is not None and ent[0] != 'GConst'


def shrink(case):
    for F in X.shrink_E(case['ext']):
        if any(k == case['key'] for k, _, _ in F['entries']) or case['key'] == 'NoSuchKey':
            c = dict(case)
            c['ext'] = F
            yield c
