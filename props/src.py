"""SRC — source equality (development plugin, not one of the C-properties).

Theorems (Props/SRC.v: extension algebra; Props/SRCfilter.v: key filter; Props/SRClookup.v: NiftiWrapper lookups;
Props/SRCvalid.v: DcmMetaExtension.check_valid on raw contents): the hand-written models of the small pure functions the extension algebra and the key
filter rest on are EQUAL, for all inputs, to the definitions TRANSLATED on every run from the current Python
sources (tools/tables/t_src_ext.py, t_src_filter.py -> coq/Generated/T_src_ext.v, T_src_filter.v).

Correspondence part "calls": the TRANSLATED definitions are evaluated inside Coq on random inputs and compared
with what the real functions return / raise — this validates the translator (py2coq.py) and the meaning given to
its primitives (Common/PyOps2.v), i.e. exactly the part the theorems have to trust.  The oracle is an independent
reference written from the documentation of each function."""
import os
from fractions import Fraction
from vlib.coqlit import cnat, cz, cbool, clist, copt, cpair, cstr, cq, cjv

ID = "SRC"
COQ_PROPS = ["Props/SRC.v", "Props/SRCfilter.v", "Props/SRClookup.v", "Props/SRCvalid.v", "Props/SRCalg.v", "Props/SRCstate.v", "Props/SRCsubset.v", "Props/SRCsample.v", "Props/SRCgetsubset.v", "Props/SRCinsert.v", "Props/SRCinsertall.v", "Props/SRCfromseq.v", "Props/SRCtop.v"]
THEOREMS = ["SRC_is_constant", "SRC_is_repeating", "SRC_class_names", "SRC_valid_classes", "SRC_class_valid", "SRC_multiplicity",
            "SRC_multiplicity_foreign", "SRC_const_period", "SRC_n_slices", "SRC_key_regex_filter", "SRC_make_key_regex_filter",
            "SRC_meta_valid", "SRC_get_meta", "SRC_getitem", "SRC_valid_classes_dyn", "SRC_multiplicity_dyn", "SRC_check_valid",
            "SRC_global_slice_subset", "SRC_changed_class", "SRC_change_class", "SRC_simplify", "SRC_to_content_holds",
            "SRC_copy_slice_step", "SRC_copy_slice", "SRC_copy_sample_step", "SRC_copy_sample", "SRC_get_subset_content", "SRC_get_subset", "SRC_insert_slice", "SRC_insert_non_slice", "SRC_insert_sample", "SRC_insert", "SRC_reclassify", "SRC_from_sequence", "SRC_from_sequence_ext", "SRC_valid_inputs", "SRC_merge_hdr", "SRC_top_get_subset", "SRC_top_get_subset_valid", "SRC_top_from_sequence", "SRC_top_from_sequence_valid", "SRC_sideb_sound", "SRC_traj_okb_sound"]
TABLES = ["t_src_ext", "t_src_filter", "t_src_lookup", "t_src_valid", "t_src_state", "t_classes", "t_ext_tol", "t_content"]
ALLOWED_AXIOMS = []
TRUSTED_BASE = ["tools/tables/py2coq.py (+ t_src_ext.py, t_src_filter.py): typed statement translator Python -> Gallina, "
                "fail-closed outside the vocabulary documented in its docstring",
                "coq/Common/PyOps2.v part 1: the meaning of the translated primitives (slices, indexing, //, %, range, all, for, ==, in)",
                "a compiled regular expression is represented by its search predicate; re.compile is a parameter whose only assumed "
                "property is the hypothesis of SRC_make_key_regex_filter (the alternation of the parts matches iff one part does)"]
ASSUMPTIONS = ["Python ints that are sizes, periods or list positions are non-negative (nat); voxel indices of get_meta are ints of either sign (Z)",
               "check_valid: dynamic values follow the conventions of Common/PyOps2Dyn.v (numbers = ints and bools; a float in a numeric "
               "position is outside the domain); SRC_check_valid holds where no classification entry content[base][sub] is a list or a str "
               "(there the hand model is knowingly inexact, see SRC_check_valid_domain_needed); np.array and the version table lookup are "
               "provided by Content/Model.v (np_shape, req_keys)",
               "lookups: everything read from the image / extension is a parameter (Ext/SrcEqLookup.v says how the model's img / hdr / ext "
               "records provide it); `values[i]` on a value is the parameter vindex, tied to the model's value list by the hypothesis of "
               "SRC_get_meta; np.allclose is the exact-Q Seq.allclose",
               "element equality (==) of sequence values is a total function without side effects (the parameter veqb)",
               "self.n_slices is read as a parameter by get_multiplicity / _get_const_period (the property itself is related to the "
               "model by SRC_n_slices on slice_dim < ndim)"]

PYCLS = [('global', 'const'), ('global', 'slices'), ('time', 'samples'), ('time', 'slices'), ('vector', 'samples'), ('vector', 'slices')]
FOREIGN = [('global', 'samples'), ('time', 'const'), ('x', 'y'), ('', ''), ('slices', 'global')]
ERR = {'ValueError': 'EValue', 'IndexError': 'EIndex', 'KeyError': 'EKey', 'TypeError': 'EType',
       'ZeroDivisionError': 'ECrash', 'AssertionError': 'ECrash', 'AttributeError': 'EAttr'}


def _cname(c):
    return cpair(cstr(c[0]), cstr(c[1]))


def _prod(xs):
    r = 1
    for x in xs:
        r *= x
    return r


# ------------------------------------------------------------------ independent reference (from the documentation)

def _class_ok(shape, c):
    n = len(shape)
    if n == 3:
        return c[0] == 'global'
    if n == 4:
        return c[0] in ('global', 'time')
    if n == 5:
        return c[0] != 'time' or shape[3] != 1
    return False


def _ref_mult(shape, ns, c):
    if not (3 <= len(shape) <= 5) or tuple(c) not in PYCLS or not _class_ok(shape, c):
        return {'err': 'EValue'}
    base, sub = c
    if sub == 'const':
        return {'nat': 1}
    if sub == 'slices':
        if ns is None:
            return {'nat': 0}
        return {'nat': ns * {'global': _prod(shape[3:]), 'time': 1, 'vector': shape[3] if len(shape) > 3 else None}[base]}
    return {'nat': _prod(shape[3:]) if base == 'time' else shape[4]}


def _ref(case):
    f = case['f']
    if f == 'is_constant':
        l, p = case['l'], case['p']
        if p is None:
            return {'bool': len(set(l)) <= 1}
        if p <= 1 or len(l) % p != 0:
            return {'err': 'EValue'}
        return {'bool': all(len(set(l[i:i + p])) == 1 for i in range(0, len(l), p))}
    if f == 'is_repeating':
        l, p = case['l'], case['p']
        if p <= 1 or p >= len(l) or len(l) % p != 0:
            return {'err': 'EValue'}
        return {'bool': l == l[:p] * (len(l) // p)}
    if f == 'n_slices':
        sh, sd = case['shape'], case['sd']
        if sd is None:
            return {'opt': None}
        return {'opt': sh[sd]} if sd < len(sh) else {'err': 'EIndex'}
    if f == 'valid':
        sh = case['shape']
        if not (3 <= len(sh) <= 5):
            return {'err': 'EValue'}
        return {'names': [list(c) for c in PYCLS if _class_ok(sh, c)]}
    if f == 'mult':
        return _ref_mult(case['shape'], case['ns'], tuple(case['c']))
    if f == 'period':
        sh, ns, s, d = case['shape'], case['ns'], tuple(case['s']), tuple(case['d'])
        if d == ('global', 'const'):
            return {'opt': None}
        if s == ('global', 'slices'):
            a = _ref_mult(sh, ns, s)
            if 'err' in a:
                return a
            b = _ref_mult(sh, ns, d)
            if 'err' in b:
                return b
            return {'opt': a['nat'] // b['nat']} if b['nat'] else {'err': 'ECrash'}
        if s == ('vector', 'slices'):
            return {'opt': ns}
        if s == ('time', 'samples'):
            return {'opt': sh[3]} if len(sh) > 3 else {'err': 'EIndex'}
        return {'err': 'ECrash'}
    if f == 'filter':
        ex = not case['excl'] or any(p in case['key'] for p in case['excl'])
        inc = bool(case['incl']) and any(p in case['key'] for p in case['incl'])
        return {'bool': ex and not inc}
    raise ValueError(f)


class Calls:
    NAME = "calls"
    CORR_REQUIRE = "From DV Require Import Common.Jv Ext.SrcEqCorr."
    CORR_CASE_TYPE = "SrcEqCorr.case"
    CORR_CHECK = "SrcEqCorr.check"
    CORR_SHOW = "SrcEqCorr.show"
    SHARD = 400
    RULE = ("random calls of is_constant / is_repeating (int sequences of length 0..12 with few distinct values, period None / 0..7), "
            "n_slices, get_valid_classes, get_multiplicity, _get_const_period (shapes of 1..7 dimensions with sizes 0..4, slice_dim None / "
            "inside the shape, the six classes and foreign name pairs) and of the filter built by make_key_regex_filter from plain-literal "
            "patterns; non-trivial = not an argument-validation error")

    @staticmethod
    def gen_cases(rng, tier):
        n = 1200 if tier == "quick" else 30000
        out = []
        words = ['Patient', 'Name', 'Date', 'Time', 'ID', 'a', 'Pa', 'x']
        for _ in range(n):
            f = rng.choice(['is_constant', 'is_constant', 'is_repeating', 'is_repeating', 'n_slices', 'valid', 'mult', 'mult', 'period',
                            'period', 'filter', 'changed', 'changed', 'changed', 'gss', 'gss'])
            c = {'kind': f, 'f': f}
            if f in ('is_constant', 'is_repeating'):
                p = rng.choice([None, 0, 1, 2, 2, 3, 3, 4, 5, 7]) if f == 'is_constant' else rng.choice([0, 1, 2, 2, 3, 3, 4, 5, 7])
                m = rng.randrange(0, 5) if p else rng.randrange(0, 13)
                ln = (p * m if p and rng.random() < 0.8 else rng.randrange(0, 13))
                style = rng.randrange(4)
                if style == 0 or not p:
                    l = [rng.randrange(2) if rng.random() < 0.3 else 0 for _ in range(ln)]
                elif style == 1:      # constant within each period
                    l = [(i // p) % 3 for i in range(ln)]
                elif style == 2:      # repeating with the period
                    base = [rng.randrange(3) for _ in range(p)]
                    l = [base[i % p] for i in range(ln)]
                else:
                    l = [rng.randrange(3) for _ in range(ln)]
                if ln and rng.random() < 0.2:
                    l[rng.randrange(ln)] = 9
                c.update(l=l, p=p)
            elif f == 'filter':
                c.update(excl=[rng.choice(words) for _ in range(rng.randrange(0, 3))],
                         incl=rng.choice([None, [], [rng.choice(words)], [rng.choice(words), rng.choice(words)]]),
                         key=''.join(rng.choice(words) for _ in range(rng.randrange(0, 3))))
            else:
                nd = rng.choice([1, 2, 3, 3, 4, 4, 4, 5, 5, 5, 5, 6, 7])
                sh = [rng.choice([0, 1, 1, 2, 3, 4]) for _ in range(nd)]
                sd = rng.choice([None] + list(range(min(3, nd))))
                c.update(shape=sh)
                if f == 'n_slices':
                    c.update(sd=rng.choice([None, 0, 1, 2, 3, 5]))
                if f in ('changed', 'gss'):
                    nd = rng.choice([3, 4, 4, 5, 5, 5])
                    sh = [rng.choice([1, 1, 2, 3]) for _ in range(nd)]
                    sd = rng.choice([None, 0, 1, 2, 2])
                    c.update(shape=sh, sd=sd, ns=None if sd is None else sh[sd])
                if f == 'changed':
                    cur = rng.choice(PYCLS + PYCLS + [None])
                    m = _ref_mult(sh, c['ns'], cur).get('nat') if cur else None
                    if cur is None:
                        vals = None
                    elif tuple(cur) == ('global', 'const'):
                        vals = rng.choice([5, None, [1, 2], 'x'])
                    elif m is None:
                        cur, vals = None, None                      # the class is not valid for the shape: the key is invisible
                    else:
                        n = m if rng.random() < 0.85 else rng.randrange(0, 5)
                        vals = [rng.choice([i, i, None, [i]]) for i in range(n)]
                    c.update(cur=None if cur is None else list(cur), values=vals, new=list(rng.choice(PYCLS)),
                             new_sd=rng.choice([None, None, 0, 1, 2, 4]))
                if f == 'gss':
                    tot = _prod(sh[3:]) * (c['ns'] or 1)
                    n = tot if rng.random() < 0.8 else rng.randrange(0, 10)
                    d = [['k', list(range(n))]] if rng.random() < 0.9 else [['other', [1]]]
                    if rng.random() < 0.05:
                        d = [['k', 7]]
                    c.update(d=d, base=rng.choice(['time', 'vector', 'vector', 'global']), idx=rng.randrange(0, 4))
                if f in ('mult', 'period'):
                    c.update(ns=None if sd is None else sh[sd])
                if f == 'mult':
                    c.update(c=list(rng.choice(PYCLS + PYCLS + FOREIGN)))
                if f == 'period':
                    c.update(s=list(rng.choice(PYCLS + PYCLS + PYCLS + FOREIGN)), d=list(rng.choice(PYCLS + PYCLS + PYCLS + FOREIGN)))
            out.append(c)
        return out

    @staticmethod
    def run_impl(case):
        import numpy as np
        import dcmstack
        from dcmstack import dcmmeta
        f = case['f']

        class Ext(dcmmeta.DcmMetaExtension):
            """the real methods on an extension whose shape / n_slices are the inputs of the case"""
            def __init__(self, shape, **kw):
                self._shape, self._kw = tuple(shape), kw
            shape = property(lambda self: self._shape)
            slice_dim = property(lambda self: self._kw['sd'])
        try:
            if f == 'is_constant':
                r = dcmmeta.is_constant(case['l'], case['p'])
                return {'bool': r} if isinstance(r, bool) else {'crash': 'NotBool', 'msg': repr(r)}
            if f == 'is_repeating':
                r = dcmmeta.is_repeating(case['l'], case['p'])
                return {'bool': r} if isinstance(r, bool) else {'crash': 'NotBool', 'msg': repr(r)}
            if f == 'n_slices':
                r = Ext(case['shape'], sd=case['sd']).n_slices
                return {'opt': None if r is None else int(r)}
            if f == 'valid':
                return {'names': [list(c) for c in Ext(case['shape']).get_valid_classes()]}
            if f in ('mult', 'period'):
                class Ext2(Ext):
                    n_slices = property(lambda self: self._kw['ns'])
                e = Ext2(case['shape'], ns=case['ns'])
                if f == 'mult':
                    return {'nat': int(e.get_multiplicity(tuple(case['c'])))}
                r = e._get_const_period(tuple(case['s']), tuple(case['d']))
                return {'opt': None if r is None else int(r)}
            if f == 'filter':
                flt = dcmstack.make_key_regex_filter(case['excl'], case['incl'])
                return {'bool': bool(flt(case['key'], None))}
            if f in ('changed', 'gss'):
                class Ext3(Ext):
                    n_slices = property(lambda self: self._kw['ns'])

                    def get_values_and_class(self, key):
                        return (case['values'], None if case['cur'] is None else tuple(case['cur']))

                    def get_class_dict(self, cl):
                        return dict((k, v) for k, v in case['d'])
                e = Ext3(case['shape'], ns=case['ns'])
                if f == 'changed':
                    return {'val': e._get_changed_class('k', tuple(case['new']), case['new_sd'])}
                return {'val': e._global_slice_subset('k', case['base'], case['idx'])}
        except (ValueError, IndexError, KeyError, TypeError, ZeroDivisionError, AssertionError, AttributeError) as e:
            return {'err': ERR[type(e).__name__]}
        raise ValueError(f)

    @staticmethod
    def _cobs(o):
        if 'err' in o:
            return '(SrcEqCorr.OErr %s)' % o['err']
        if 'bool' in o:
            return '(SrcEqCorr.OBool %s)' % cbool(o['bool'])
        if 'nat' in o:
            return '(SrcEqCorr.ONat %s)' % cnat(o['nat'])
        if 'opt' in o:
            return '(SrcEqCorr.OOptNat %s)' % copt(o['opt'], cnat)
        if 'names' in o:
            return '(SrcEqCorr.ONames %s)' % clist(_cname(c) for c in o['names'])
        if 'val' in o:
            return '(SrcEqCorr.OVal %s)' % cjv(o['val'])
        raise ValueError('no Coq rendering of %r' % (o,))

    @staticmethod
    def coq_case(case, obs):
        f = case['f']
        if f == 'is_constant':
            call = 'CIsConstant %s %s' % (clist(cz(x) for x in case['l']), copt(case['p'], cnat))
        elif f == 'is_repeating':
            call = 'CIsRepeating %s %s' % (clist(cz(x) for x in case['l']), cnat(case['p']))
        elif f == 'n_slices':
            call = 'CNSlices %s %s' % (clist(cnat(x) for x in case['shape']), copt(case['sd'], cnat))
        elif f == 'valid':
            call = 'CValid %s' % clist(cnat(x) for x in case['shape'])
        elif f == 'mult':
            call = 'CMult %s %s %s' % (clist(cnat(x) for x in case['shape']), copt(case['ns'], cnat), _cname(case['c']))
        elif f == 'period':
            call = 'CPeriod %s %s %s %s' % (clist(cnat(x) for x in case['shape']), copt(case['ns'], cnat), _cname(case['s']), _cname(case['d']))
        elif f == 'changed':
            call = 'CChanged %s %s %s %s %s %s' % (clist(cnat(x) for x in case['shape']), copt(case['ns'], cnat), cjv(case['values']),
                                                   copt(case['cur'], _cname), _cname(case['new']), copt(case['new_sd'], cnat))
        elif f == 'gss':
            call = 'CGss %s %s %s %s %s %s' % (clist(cnat(x) for x in case['shape']), copt(case['ns'], cnat),
                                               clist(cpair(cstr(k), cjv(v)) for k, v in case['d']), cstr('k'), cstr(case['base']),
                                               cnat(case['idx']))
        else:
            call = 'CFilter %s %s %s' % (clist(cstr(x) for x in case['excl']),
                                         copt(case['incl'], lambda l: clist(cstr(x) for x in l)), cstr(case['key']))
        return 'SrcEqCorr.mk_case (SrcEqCorr.%s) %s' % (call, Calls._cobs(obs))

    @staticmethod
    def oracle(case, obs):
        try:
            want = _ref(case)
        except Exception as e:       # the reference cannot judge: say nothing
            return None
        if obs != want:
            return '%s%r: the implementation gives %r, the documented behaviour is %r' % (
                case['f'], {k: v for k, v in case.items() if k not in ('kind', 'f')}, obs, want)
        return None

    @staticmethod
    def signature(case, obs, msg):
        return 'src-' + case['f']

    @staticmethod
    def nontrivial(case, obs):
        return 'err' not in obs

    @staticmethod
    def shrink(case):
        for k in ('l', 'shape', 'excl'):
            if k in case and case[k]:
                for i in range(len(case[k])):
                    c = dict(case)
                    c[k] = case[k][:i] + case[k][i + 1:]
                    if k == 'shape' and 'ns' in case:
                        continue
                    yield c





# ================================================================== part "lookups"

def _jv_ok(v):
    """values whose `v[i]` behaves like JSON array indexing / TypeError: no str, no dict"""
    if isinstance(v, list):
        return all(_jv_ok(x) for x in v)
    return v is None or (isinstance(v, int) and not isinstance(v, bool))


def _agrees(en, c):
    """declarative 'the image still matches the extension for class c' (from the docstring of meta_valid)"""
    if c == ('global', 'const'):
        return True
    ms, ish = en['meta_shape'], en['img_shape']
    if c == ('vector', 'samples'):
        return ms[4:] == ish[4:]
    if c == ('time', 'samples'):
        return ms[3:] == ish[3:]
    if en['img_sd'] is None or en['meta_sd'] is None or en['meta_ns'] != en['img_ns']:
        return False
    a = [Fraction(x) for x in en['rows'][en['img_sd']][:3]]
    b = [Fraction(x) for x in en['normal']]
    if len(a) != len(b) or not all(abs(x - y) <= Fraction(1, 10**6) + Fraction(1, 10**5) * abs(y) for x, y in zip(a, b)):
        return False
    if c == ('time', 'slices'):
        return True
    if c == ('vector', 'slices'):
        return ms[3:4] == ish[3:4]
    return ms[3:] == ish[3:]


class Lookups:
    NAME = "lookups"
    CORR_REQUIRE = "From DV Require Import Common.Jv Ext.SrcEqLookupCorr."
    CORR_CASE_TYPE = "SrcEqLookupCorr.case"
    CORR_CHECK = "SrcEqLookupCorr.check"
    CORR_SHOW = "SrcEqLookupCorr.show"
    SHARD = 300
    RULE = ("random calls of NiftiWrapper.meta_valid / get_meta / __getitem__ on stub image / extension objects that supply exactly the "
            "reads of the translation: shapes of 2..6 dimensions (image = extension shape, or perturbed), slice dims None/0..2, slice counts "
            "equal / different, affine rows equal / within / beyond the tolerance, the six classes and foreign ones, values lists / scalars / "
            "None / nested, indices in range / out of range / negative / wrong length / None; non-trivial = a value of a varying class is returned")

    @staticmethod
    def gen_cases(rng, tier):
        n = 900 if tier == "quick" else 20000
        out = []
        for _ in range(n):
            nd = rng.choice([2, 3, 3, 4, 4, 4, 5, 5, 5, 5, 6])
            ish = [rng.choice([1, 2, 2, 3, 4]) for _ in range(nd)]
            ms = list(ish)
            r = rng.random()
            if r < 0.15 and nd > 3:
                j = rng.randrange(3, nd)
                ms[j] = ms[j] + 1
            elif r < 0.25:
                ms = ms[:-1] if rng.random() < 0.5 else ms + [2]
            elif r < 0.3:
                ms[rng.randrange(min(3, nd))] += 1
            img_sd = rng.choice([None, 0, 1, 2, 2, 2, 2, 2])
            meta_sd = img_sd if rng.random() < 0.9 else rng.choice([None, 0, 1, 2])
            img_ns = ish[img_sd] if img_sd is not None and img_sd < nd else 0
            meta_ns = None if meta_sd is None else (ms[meta_sd] if meta_sd < len(ms) else 1)
            if rng.random() < 0.1 and meta_ns is not None:
                meta_ns += 1
            rows = [[rng.choice([0, 1, -1, 2, 0.5]) for _ in range(4)] for _ in range(4)]
            normal = list(rows[img_sd if img_sd is not None else 0][:3])
            r = rng.random()
            if r < 0.15:
                normal[rng.randrange(3)] += 2.0 ** -30      # within the tolerance
            elif r < 0.3:
                normal[rng.randrange(3)] += 2.0 ** -10      # beyond
            elif r < 0.35:
                normal = [float(-x) for x in normal]
            en = {'img_shape': ish, 'meta_shape': ms, 'img_sd': img_sd, 'meta_sd': meta_sd, 'img_ns': img_ns, 'meta_ns': meta_ns,
                  'rows': [[float(x) for x in row] for row in rows], 'normal': [float(x) for x in normal]}
            f = rng.choice(['meta_valid', 'get_meta', 'get_meta', 'get_meta', 'getitem'])
            c = {'kind': f, 'f': f, 'env': en}
            cl = list(rng.choice(PYCLS * 6 + FOREIGN))
            if f == 'meta_valid':
                c['c'] = cl
            elif f == 'getitem':
                keys = ['a', 'b', 'ab']
                c['d'] = [[k, rng.choice([1, None, [1, 2], [[3]], 0])] for k in keys if rng.random() < 0.6]
                c['key'] = rng.choice(keys + ['zz'])
            else:
                c['classes'] = rng.choice([cl] * 9 + [None])
                tot = 1
                for x in ish:
                    tot *= x
                m = rng.choice([1, 2, 3, 4, 6, 8, 12, tot, tot]) if rng.random() < 0.7 else rng.randrange(0, 20)
                kindv = rng.random()
                if c['classes'] is None:
                    vals = None
                elif kindv < 0.8:
                    vals = [rng.choice([i, i, [i], None]) for i in range(min(m, 200))]
                elif kindv < 0.9:
                    vals = rng.choice([5, None])
                else:
                    vals = [[i, i + 1] for i in range(min(m, 50))]
                c['values'] = vals
                r = rng.random()
                if r < 0.12:
                    idx = None
                else:
                    idx = [rng.randrange(x) for x in ish]
                    if r < 0.24 and idx:
                        j = rng.randrange(len(idx))
                        idx[j] = rng.choice([ish[j], -1, ish[j] + 1, -ish[j]])
                    elif r < 0.32:
                        idx = idx[:-1] if rng.random() < 0.5 else idx + [0]
                c['index'] = idx
                c['default'] = rng.choice([None, -7, [0]])
            out.append(c)
        return out

    @staticmethod
    def run_impl(case):
        import numpy as np
        from dcmstack import dcmmeta
        en = case['env']

        class Hdr(object):
            def get_dim_info(self):
                return (None, None, en['img_sd'])

            def get_n_slices(self):
                return en['img_ns']

        class Img(object):
            shape = tuple(en['img_shape'])
            affine = np.array(en['rows'], dtype=float)
            header = Hdr()

        class MExt(object):
            shape = tuple(en['meta_shape'])
            slice_dim = en['meta_sd']
            n_slices = en['meta_ns']
            slice_normal = np.array(en['normal'], dtype=float)

            def get_values_and_class(self, key):
                cl = case.get('classes')
                return (case.get('values'), None if cl is None else tuple(cl))

            def get_class_dict(self, c):
                return dict((k, v) for k, v in case['d'])
        w = dcmmeta.NiftiWrapper.__new__(dcmmeta.NiftiWrapper)
        w.nii_img, w.meta_ext = Img(), MExt()
        try:
            if case['f'] == 'meta_valid':
                return {'bool': bool(w.meta_valid(tuple(case['c'])))}
            if case['f'] == 'getitem':
                return {'val': w[case['key']]}
            idx = case['index']
            return {'val': w.get_meta('k', None if idx is None else tuple(idx), case['default'])}
        except (ValueError, IndexError, KeyError, TypeError, ZeroDivisionError, AssertionError) as e:
            return {'err': ERR[type(e).__name__]}

    @staticmethod
    def coq_case(case, obs):
        en = case['env']
        env = ('(SrcEqLookupCorr.mk_env %s %s %s %s %s %s %s %s)'
               % (clist(cnat(x) for x in en['img_shape']), clist(cnat(x) for x in en['meta_shape']), copt(en['img_sd'], cnat),
                  copt(en['meta_sd'], cnat), cnat(en['img_ns']), copt(en['meta_ns'], cnat),
                  clist(clist(cq(x) for x in row) for row in en['rows']), clist(cq(x) for x in en['normal'])))
        f = case['f']
        if f == 'meta_valid':
            call = '(SrcEqLookupCorr.CMetaValid %s)' % _cname(case['c'])
        elif f == 'getitem':
            call = '(SrcEqLookupCorr.CGetItem %s %s)' % (clist(cpair(cstr(k), cjv(v)) for k, v in case['d']), cstr(case['key']))
        else:
            call = '(SrcEqLookupCorr.CGetMeta %s %s %s %s)' % (
                cjv(case['values']), copt(case['classes'], _cname), copt(case['index'], lambda l: clist(cz(x) for x in l)),
                cjv(case['default']))
        if 'err' in obs:
            o = '(SrcEqLookupCorr.OErr %s)' % obs['err']
        elif 'bool' in obs:
            o = '(SrcEqLookupCorr.OBool %s)' % cbool(obs['bool'])
        else:
            o = '(SrcEqLookupCorr.OVal %s)' % cjv(obs['val'])
        return 'SrcEqLookupCorr.mk_case %s %s %s' % (env, call, o)

    @staticmethod
    def oracle(case, obs):
        """judges only the documented, well-formed region: 3..5-D image, class among the six, value lists long enough"""
        en, f = case['env'], case['f']
        ish = en['img_shape']
        if f == 'getitem':
            d = dict((k, v) for k, v in case['d'])
            want = {'val': d[case['key']]} if case['key'] in d else {'err': 'EKey'}
            return None if obs == want else 'getitem %r: %r, expected %r' % (case['key'], obs, want)
        if f == 'meta_valid':
            c = tuple(case['c'])
            if c not in PYCLS:
                return None
            want = {'bool': _agrees(en, c)}
            return None if obs == want else 'meta_valid%r with %r: %r, expected %r' % (c, en, obs, want)
        cl, vals, idx = case['classes'], case['values'], case['index']
        if cl is None:
            want = {'val': case['default']}
        elif tuple(cl) == ('global', 'const'):
            want = {'val': vals}
        elif tuple(cl) not in PYCLS:
            return None
        elif not _agrees(en, tuple(cl)) or idx is None:
            want = {'val': case['default']}
        elif len(idx) != len(ish) or not all(0 <= i < s for i, s in zip(idx, ish)):
            want = {'err': 'EIndex'}
        else:
            if not (3 <= len(ish) <= 5) or not isinstance(vals, list):
                return None
            c = tuple(cl)
            t = idx[3] if len(ish) > 3 else 0
            v = idx[4] if len(ish) > 4 else 0
            T = ish[3] if len(ish) > 3 else 1
            if c[1] == 'samples':
                if (c[0] == 'time' and len(ish) < 4) or (c[0] == 'vector' and len(ish) < 5):
                    return None
                pos = t + T * v if c[0] == 'time' else v
            else:
                sd = en['img_sd']
                if sd is None:
                    return None
                S = ish[sd]
                if c[0] == 'vector' and len(ish) < 4:
                    return None
                pos = idx[sd] + S * {'global': t + T * v, 'time': 0, 'vector': t}[c[0]]
            if pos >= len(vals):
                return None
            want = {'val': vals[pos]}
        return None if obs == want else 'get_meta(%r, %r) with values %r, class %r: %r, expected %r' % ('k', idx, vals, cl, obs, want)

    @staticmethod
    def signature(case, obs, msg):
        return 'src-' + case['f']

    @staticmethod
    def nontrivial(case, obs):
        return case['f'] == 'get_meta' and 'val' in obs and case.get('classes') not in (None, ['global', 'const']) \
            and case.get('index') is not None and obs['val'] != case.get('default')





# ================================================================== part "valid"

class Valid:
    NAME = "valid"
    CORR_REQUIRE = "From DV Require Import Common.Jv Content.SrcEqValidCorr."
    CORR_CASE_TYPE = "SrcEqValidCorr.case"
    CORR_CHECK = "SrcEqValidCorr.check"
    CORR_SHOW = "SrcEqValidCorr.show"
    SHARD = 150
    RULE = ("the contents of C10's `check` stream (valid contents of every dimensionality / slice dim / version, every single corruption, "
            "double corruptions, the malformed stream) that have no float in a numeric position, plus contents whose classification entries "
            "are lists of scalars / strs / numbers / None (outside the domain of SRC_check_valid, inside the translation's); "
            "DcmMetaExtension.from_json(json.dumps(content)) accepted / exception class vs check_valid_dyn; non-trivial = rejected or has varying keys")

    @staticmethod
    def _numeric_ok(c):
        """no float where the code computes: shape entries, slice dim"""
        if not isinstance(c, dict):
            return True
        sd = c.get('dcmmeta_slice_dim')
        if isinstance(sd, float):
            return False
        sh = c.get('dcmmeta_shape')
        if isinstance(sh, list) and any(not isinstance(e, int) for e in sh):
            return False
        if isinstance(sh, (str, dict)) and len(sh) > 0:
            return False
        return True

    @staticmethod
    def gen_cases(rng, tier):
        from props import c10
        out = []
        base = [k for k in c10.Check.gen_cases(rng, tier) if Valid._numeric_ok(k['content'])]
        rng.shuffle(base)
        base = base[:700] if tier == 'quick' else base[:6000]
        for k in base:
            out.append({'kind': k['kind'].split(':')[0], 'content': k['content']})
        # classification entries that are not dicts
        n = 150 if tier == 'quick' else 3000
        for _ in range(n):
            c = c10.gen_base(rng, nkeys=rng.choice([0, 1, 2]))
            for _ in range(rng.choice([1, 1, 2])):
                b, s_ = rng.choice(PYCLS)
                v = rng.choice([[], [1, 2], ['k1'], 'k1', '', 0, 5, None, True, ['k1', 'k2', 'k1']])
                if rng.random() < 0.25:
                    c[b] = v
                elif isinstance(c.get(b), dict):
                    c[b][s_] = v
            if Valid._numeric_ok(c):
                out.append({'kind': 'nondict-entry', 'content': c})
        return out

    @staticmethod
    def run_impl(case):
        import json
        from props import c10
        from dcmstack.dcmmeta import DcmMetaExtension
        try:
            DcmMetaExtension.from_json(json.dumps(case['content']))
            return {'r': 'ok'}
        except Exception as e:
            n = c10.errname(e)
            if n is None:
                raise
            return {'r': n}

    @staticmethod
    def coq_case(case, obs):
        return 'SrcEqValidCorr.mk_case %s %s' % (cjv(case['content']), '(Ok tt)' if obs['r'] == 'ok' else '(Err %s)' % obs['r'])

    @staticmethod
    def oracle(case, obs):
        return None       # the property of this part is the correspondence itself; which contents SHOULD be accepted is C10's question

    @staticmethod
    def signature(case, obs, msg):
        return 'src-check-valid'

    @staticmethod
    def nontrivial(case, obs):
        from props import c10
        return obs.get('r') != 'ok' or c10.content_has_varying(case['content'])





# ================================================================== part "state"

def _plain(x):
    """the content of an extension as plain JSON data in dictionary order"""
    if isinstance(x, dict):
        return dict((k, _plain(v)) for k, v in x.items())
    if isinstance(x, (list, tuple)):
        return [_plain(v) for v in x]
    return x


class State:
    NAME = "state"
    CORR_REQUIRE = "From DV Require Import Common.Jv Ext.SrcEqStateCorr."
    CORR_CASE_TYPE = "SrcEqStateCorr.case"
    CORR_CHECK = "SrcEqStateCorr.check"
    CORR_SHOW = "SrcEqStateCorr.show"
    SHARD = 150
    RULE = ("real DcmMetaExtension objects (make_empty on 3-5 D shapes with extents 1..3, every slice dim or none) holding 1-3 keys in random "
            "classes (valid for the shape or stale) with value lists that are constant / constant per period / repeating / arbitrary, of the "
            "right or a wrong length; `_simplify(key)`, `_change_class(key, new_class)`, `get_subset(dim, idx)`, `_insert_slice(key, other)` / "
            "`_insert_non_slice(key, other)` / `_insert_sample(key, other, base)` (other: same rank, partly different extents, overlapping "
            "keys; present and absent keys): the returned value / exception and the WHOLE content dictionary afterwards (key order included) vs "
            "the state-passing translation, `other` checked unchanged; `_insert(dim, other)` (other sometimes with another slice normal) and "
            "`from_sequence(seq, dim, None, slice_dim)` (1-3 inputs, singular or missing along dim, sometimes unfit): these go through a SET "
            "of keys whose iteration order the translation does not model, so the content is compared up to the order of keys and an "
            "exception only as 'some exception'; slice normals enter as tokens (equal iff np.allclose), make_empty's content for the result "
            "is supplied by the run of the real code; non-trivial = the content changed")

    @staticmethod
    def gen_cases(rng, tier):
        n = 1000 if tier == "quick" else 16000
        out = []
        for _ in range(n):
            nd = rng.choice([3, 4, 4, 5, 5, 5])
            sh = [rng.choice([1, 2, 2, 3]) for _ in range(nd)]
            sd = rng.choice([None, 0, 1, 2, 2, 2])
            ns = None if sd is None else sh[sd]
            keys = State._gen_keys(rng, sh, ns, rng.sample(['a', 'b', 'c'], rng.choice([1, 2, 3])))
            f = rng.choice(['simplify', 'simplify', 'change', 'subset', 'subset', 'subset', 'insslice', 'insslice', 'insslice', 'insnon', 'inssample', 'inssample', 'insert', 'insert', 'insert', 'fromseq', 'fromseq', 'fromseq'])
            c = {'kind': f, 'f': f, 'shape': sh, 'sd': sd, 'keys': keys, 'key': rng.choice([k_[0] for k_ in keys] * 5 + ['zz'])}
            if f == 'change':
                c['new'] = list(rng.choice(PYCLS))
            if f == 'subset':
                dim = rng.choice(list(range(nd)) * 3 + [nd, 5])
                c['dim'] = dim
                c['idx'] = rng.randrange(sh[dim]) if dim < nd and rng.random() < 0.9 else rng.randrange(0, 4)
            if f == 'fromseq':
                # 2-3 inputs of one shape that is singular (or missing) along dim, each with its own keys; sometimes an unfit input
                dim = rng.choice([0, 1, 2, 3, 3, 4, 4] + ([sd] * 3 if sd is not None else []) + [5])
                base = list(sh)
                if dim < len(base) and rng.random() < 0.9:
                    base[dim] = 1
                elif dim == len(base) - 1 and rng.random() < 0.5:
                    base = base[:-1] if len(base) > 3 else base
                ins = []
                for i_ in range(rng.choice([1, 2, 2, 3])):
                    ish = list(base) if rng.random() < 0.9 else [rng.choice([1, 2, 3]) for _ in base]
                    ins.append({'shape': ish, 'keys': State._gen_keys(rng, ish, None if sd is None else ish[sd],
                                                                      rng.sample(['a', 'b', 'c'], rng.choice([1, 2, 3]))),
                                'rot': rng.random() < 0.15})
                    if i_ and rng.random() < 0.6:         # often the keys (and classes) of the first input
                        import copy
                        ins[-1]['keys'] = copy.deepcopy(ins[0]['keys'])
                        for k_ in ins[-1]['keys']:
                            if rng.random() < 0.5:
                                k_[2] = State._gen_vals(rng, ish, None if sd is None else ish[sd], k_[1])
                c.update(dim=dim, inputs=ins, slice_dim=rng.choice([None, None, sd, 0, 1, 2]))
            if f in ('insslice', 'insnon', 'inssample', 'insert'):
                if f == 'insert':
                    c['dim'] = rng.choice([0, 1, 2, 3, 3, 4, 4, 5] + ([sd] * 4 if sd is not None else []))
                    c['orot'] = rng.random() < 0.3          # other has another slice normal: its per-slice meta data is not used
                if f == 'inssample':
                    c['base'] = rng.choice(['time', 'vector'])
                # the instance whose key is inserted: same rank and slice dim, extents partly different, the same keys (same or
                # another class) and sometimes others
                osh = [x_ if rng.random() < 0.7 else rng.choice([1, 2, 3]) for x_ in sh]
                ons = None if sd is None else osh[sd]
                names = [k_[0] for k_ in keys if rng.random() < 0.85] + (['d'] if rng.random() < 0.2 else [])
                okeys = State._gen_keys(rng, osh, ons, names)
                for ok_ in okeys:        # often the class the key has in self
                    mine = [k_ for k_ in keys if k_[0] == ok_[0]]
                    if mine and rng.random() < 0.6:
                        ok_[1] = list(mine[0][1])
                        ok_[2] = State._gen_vals(rng, osh, ons, ok_[1])
                    if mine and rng.random() < 0.3:
                        ok_[2] = mine[0][2]
                c['oshape'], c['okeys'] = osh, okeys
            out.append(c)
        return out

    @staticmethod
    def _gen_vals(rng, sh, ns, cl):
        m = _ref_mult(sh, ns, cl).get('nat')
        if tuple(cl) == ('global', 'const'):
            return rng.choice([5, None, 'x', [1, 2]])
        ln = m if (m is not None and rng.random() < 0.9) else rng.randrange(0, 7)
        style = rng.randrange(5)
        if style == 0:
            return [7] * ln
        if style == 1:
            p = rng.choice([1, 2, 3])
            return [i // p for i in range(ln)]
        if style == 2:
            p = rng.choice([1, 2, 3])
            return [i % p for i in range(ln)]
        if style == 3:
            return [None] * ln
        return [rng.randrange(3) for _ in range(ln)]

    @staticmethod
    def _gen_keys(rng, sh, ns, names):
        keys = []
        for key in names:
            cl = rng.choice([c_ for c_ in PYCLS if _class_ok(sh, c_)] * 4 + PYCLS)
            keys.append([key, list(cl), State._gen_vals(rng, sh, ns, cl)])
        return keys

    @staticmethod
    def _build(case):
        import numpy as np
        from dcmstack.dcmmeta import DcmMetaExtension
        ext = DcmMetaExtension.make_empty(tuple(case['shape']), np.eye(4), None, case['sd'])
        for key, cl, vals in case['keys']:
            base = ext._content.get(cl[0])
            if isinstance(base, dict) and cl[1] in base:
                base[cl[1]][key] = vals
        return ext

    @staticmethod
    def _token(normal):
        """a slice normal as a token: the test data uses rows of two affines (the identity and a cyclic permutation), so a row is
        identified by the position of its 1 - equal tokens exactly when np.allclose holds"""
        return int(max(range(len(normal)), key=lambda i_: normal[i_]))

    @staticmethod
    def _build_other(case):
        import copy
        ext = State._build({'shape': case['oshape'], 'sd': case['sd'], 'keys': copy.deepcopy(case['okeys'])})
        if case.get('orot'):
            import numpy as np
            ext.affine = np.array([[0., 1., 0., 0.], [0., 0., 1., 0.], [1., 0., 0., 0.], [0., 0., 0., 1.]])
        return ext

    @staticmethod
    def run_impl(case):
        ext = State._build(case)
        before = _plain(ext._content)
        ns = ext.n_slices
        if case['f'] == 'fromseq':
            import numpy as np
            from dcmstack.dcmmeta import DcmMetaExtension
            rot = np.array([[0., 1., 0., 0.], [0., 0., 1., 0.], [1., 0., 0., 0.], [0., 0., 0., 1.]])
            seq, ins = [], []
            for i_ in case['inputs']:
                e_ = State._build({'shape': i_['shape'], 'sd': case['sd'], 'keys': i_['keys']})
                if i_['rot']:
                    e_.affine = rot
                seq.append(e_)
            out = {'before': before, 'ns': None, 'empty': None, 'rnormal': None, 'ins': []}
            for e_ in seq:
                n_ = e_.slice_normal
                out['ins'].append({'shape': [int(x) for x in e_.shape], 'sd': e_.slice_dim, 'ns': None if e_.n_slices is None else int(e_.n_slices),
                                   'normal': None if n_ is None else State._token(n_), 'content': _plain(e_._content)})
            try:       # what make_empty gives for the result (external to the translation)
                osh = list(seq[0].shape)
                while len(osh) <= case['dim']:
                    osh.append(1)
                osh[case['dim']] = len(seq)
                sdim = case['slice_dim'] if case['slice_dim'] is not None else seq[0].slice_dim
                r0 = DcmMetaExtension.make_empty(osh, seq[0].affine, None, sdim)
                out['empty'] = _plain(r0._content)
                n_ = r0.slice_normal
                out['rnormal'] = None if n_ is None else State._token(n_)
            except Exception:
                pass
            try:
                r = DcmMetaExtension.from_sequence(seq, case['dim'], None, case['slice_dim'])
                out['after'] = _plain(r._content)
            except (ValueError, IndexError, KeyError, TypeError, ZeroDivisionError, AssertionError, AttributeError, UnboundLocalError) as e:
                out['err'] = 'ECrash' if isinstance(e, UnboundLocalError) else ERR[type(e).__name__]
            return out
        if case['f'] == 'subset':
            import numpy as np
            from dcmstack.dcmmeta import DcmMetaExtension
            out = {'before': before, 'ns': None if ns is None else int(ns), 'empty': None}
            try:       # the content make_empty gives for the shape of the result (external to the translation)
                rs = list(case['shape'])
                rs[case['dim']] = 1
                while rs[-1] == 1 and len(rs) > 3:
                    rs = rs[:-1]
                out['empty'] = _plain(DcmMetaExtension.make_empty(tuple(rs), np.eye(4), None, case['sd'])._content)
            except Exception:
                pass
            try:
                r = ext.get_subset(case['dim'], case['idx'])
                out['after'] = _plain(r._content)
                out['content'] = True
            except (ValueError, IndexError, KeyError, TypeError, ZeroDivisionError, AssertionError, AttributeError, UnboundLocalError) as e:
                out['err'] = 'ECrash' if isinstance(e, UnboundLocalError) else ERR[type(e).__name__]
            return out
        extra = {}
        if case['f'] in ('insslice', 'insnon', 'inssample', 'insert'):
            other = State._build_other(case)
            obefore = _plain(other._content)
            ons = other.n_slices
            extra = {'obefore': obefore, 'ons': None if ons is None else int(ons)}
            if case['f'] == 'insert':       # the slice normals as tokens: equal exactly when np.allclose holds
                import numpy as np
                a_, b_ = ext.slice_normal, other.slice_normal
                extra['normal'] = None if a_ is None else 0
                extra['onormal'] = None if b_ is None else (0 if (a_ is not None and np.allclose(a_, b_)) else 1)
        try:
            if case['f'] == 'simplify':
                r = ext._simplify(case['key'])
                res = {'bool': bool(r)}
            elif case['f'] in ('insslice', 'insnon', 'inssample', 'insert'):
                if case['f'] == 'insert':
                    ext._insert(case['dim'], other)
                elif case['f'] == 'insslice':
                    ext._insert_slice(case['key'], other)
                elif case['f'] == 'insnon':
                    ext._insert_non_slice(case['key'], other)
                else:
                    ext._insert_sample(case['key'], other, case['base'])
                res = {'unit': True, 'ochanged': _plain(other._content) != obefore}
            else:
                ext._change_class(case['key'], tuple(case['new']))
                res = {'unit': True}
        except (ValueError, IndexError, KeyError, TypeError, ZeroDivisionError, AssertionError, AttributeError, UnboundLocalError) as e:
            return dict(extra, before=before, ns=None if ns is None else int(ns),
                        err='ECrash' if isinstance(e, UnboundLocalError) else ERR[type(e).__name__])
        res.update(extra, before=before, ns=None if ns is None else int(ns), after=_plain(ext._content))
        return res

    @staticmethod
    def coq_case(case, obs):
        if case['f'] == 'simplify':
            call = '(SrcEqStateCorr.CSimplify %s)' % cstr(case['key'])
        elif case['f'] == 'subset':
            call = '(SrcEqStateCorr.CSubset %s %s %s %s)' % (copt(case['sd'], cnat), cnat(case['dim']), cnat(case['idx']), copt(obs['empty'], cjv))
        elif case['f'] in ('insslice', 'insnon'):
            call = '(SrcEqStateCorr.%s %s %s %s %s %s)' % ('CInsertSlice' if case['f'] == 'insslice' else 'CInsertNonSlice',
                                                           copt(case['sd'], cnat), cstr(case['key']),
                                                           clist(cnat(x) for x in case['oshape']), copt(obs['ons'], cnat),
                                                           cjv(obs['obefore']))
        elif case['f'] == 'insert':
            call = '(SrcEqStateCorr.CInsert %s %s %s %s %s %s %s)' % (copt(case['sd'], cnat), cnat(case['dim']), copt(obs['normal'], cnat),
                                                                      copt(obs['onormal'], cnat),
                                                                      clist(cnat(x) for x in case['oshape']), copt(obs['ons'], cnat),
                                                                      cjv(obs['obefore']))
        elif case['f'] == 'fromseq':
            call = '(SrcEqStateCorr.CFromSeq %s %s %s %s %s)' % (
                cnat(case['dim']), copt(case['slice_dim'], cnat),
                clist('(%s, %s, %s, %s, %s)' % (clist(cnat(x) for x in i_['shape']), copt(i_['sd'], cnat), copt(i_['ns'], cnat),
                                                copt(i_['normal'], cnat), cjv(i_['content'])) for i_ in obs['ins']),
                copt(obs['empty'], cjv), copt(obs['rnormal'], cnat))
        elif case['f'] == 'inssample':
            call = '(SrcEqStateCorr.CInsertSample %s %s %s %s %s %s)' % (copt(case['sd'], cnat), cstr(case['key']), cstr(case['base']),
                                                                         clist(cnat(x) for x in case['oshape']), copt(obs['ons'], cnat),
                                                                         cjv(obs['obefore']))
        else:
            call = '(SrcEqStateCorr.CChange %s %s)' % (cstr(case['key']), _cname(case['new']))
        if 'err' in obs and case['f'] in ('insert', 'fromseq'):
            o = 'SrcEqStateCorr.OErrU'
        elif 'err' in obs:
            o = '(SrcEqStateCorr.OErr %s)' % obs['err']
        elif 'content' in obs:
            o = '(SrcEqStateCorr.OContent %s)' % cjv(obs['after'])
        elif 'bool' in obs:
            o = '(SrcEqStateCorr.OBoolSt %s %s)' % (cbool(obs['bool']), cjv(obs['after']))
        elif case['f'] in ('insert', 'fromseq'):
            o = '(SrcEqStateCorr.OUnitStU %s)' % cjv(obs['after'])
        else:
            o = '(SrcEqStateCorr.OUnitSt %s)' % cjv(obs['after'])
        return 'SrcEqStateCorr.mk_case %s %s %s %s %s' % (clist(cnat(x) for x in case['shape']), copt(obs['ns'], cnat),
                                                          cjv(obs['before']), call, o)

    @staticmethod
    def oracle(case, obs):
        if obs.get('ochanged'):
            return 'the instance that is only read was changed'
        return None

    @staticmethod
    def signature(case, obs, msg):
        return 'src-state'

    @staticmethod
    def nontrivial(case, obs):
        return 'after' in obs and obs['after'] != obs['before']


PARTS = [Calls, Lookups, Valid, State]
