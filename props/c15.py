"""C15 -- Extraction maps each DICOM element to one key with a faithfully converted value.

Cases are *descriptions* of in-memory pydicom datasets (+ an extractor configuration).  run_impl builds the
dataset, records how pydicom presents every element (tag, VR, VM, keyword, name, value object and its Python
class) -- that abstract list is what the Coq model is fed, so pydicom itself stays outside the model -- and runs
the real MetaExtractor.  The oracle re-states the property in Python on the observation alone."""
import os, sys, json, math, struct

from vlib.coqlit import cstr, cN, cz, cnat, cbool, clist, copt, cpair, cbytes

ID = "C15"
COQ_PROPS = "Props/C15.v"
THEOREMS = ["C15_partition", "C15_never", "C15_never_default", "C15_injective", "C15_injective_refuted_without_hyp",
            "C15_values", "C15_values_conversion", "C15_values_default_numeric", "C15_deterministic",
            "C15_decl_agree", "C15_decl_keys", "C15_decl_pieces", "C15_json_serialisable", "C15_appears",
            "C15_private_enabled", "C15_fuel_total"]
ALLOWED_AXIOMS = []
RULE = ("pydicom datasets over every VR pydicom 3 knows except the ambiguous US-or-OW kinds (AE AS AT CS DA DS DT FD FL IS LO LT OB OD OF OL OV OW "
        "PN SH SL SQ(depth<=4) SS ST SV TM UC UI UL UN UR US UT UV, 'US or SS', 'OB or OW', 'OW or OB') x VM {0,1,n}, empty/None/blank values, "
        "private blocks at ANY reserved slot 0x10..0xff (222 distinct slots per quick run) with and without registered translators, private "
        "sequences whose items carry their own blocks, custom deterministic Translator functions, the default CSA translators on syntactically "
        "valid CSA2 headers built by the generator (tags, multi-valued items, Phoenix protocol) and on non-CSA blobs, name clashes (equal private "
        "names, private name = standard keyword, unknown tags), pixel (PixelData, FloatPixelData OF, DoubleFloatPixelData OD) / overlay / LUT "
        "elements, configurations of ignore rules / translators / conversions; built in memory with add_new, or written to a file (explicit / "
        "implicit VR little endian) and read back (raw file elements, dictionary VRs, UN for private elements under implicit VR); F12 cases "
        "(one creator in two or three blocks at any slots, private extraction on and off) from the corpus and the generator in every run; a "
        "separate malformed stream (text under a numeric VR, two translators for one slot, raising translator with warn_on_trans_except=False). "
        "Non-trivial = at least 3 keys in the result or an exception")
TRUSTED_BASE = [
    "pydicom 3 as the provider of each element's tag, VR, VM, keyword, name and value object (inputs of the model, captured per case; not the library under test)",
    "get_text is an input of the model (`c_get_text`): printable-ASCII rule of is_ascii when chardet is absent; with chardet installed the harness calls chardet itself (not extract.get_text) to build the table, and the oracle independently demands the ASCII decoding for printable-ASCII byte strings",
    "translation functions are inputs of the model (`t_fun`): the test translators of props/c15.py are mirrored in Extract/Corr.v `test_trans_fun`; for the default CSA translators the expected dictionaries are GENERATOR TRUTH (the tags, items and protocol lines the generator encoded into the blob), nibabel's csareader and the Phoenix parser (C16) are not modelled",
    "floating point values are carried both as exact rationals (Common.PyNum fval, compared with Qeq) and as repr tokens (for str(float) and the sign of zero)",
    "pydicom facts used as theorem hypotheses (a DS/IS value carrying its text equals float(text)/int(text); an element is named 'Private Creator' iff group odd and element in 0x10..0xff) are recorded per case (obs.pydicom_facts, Corr.facts) but are NOT part of any verdict: a pydicom that presents values differently is not an extractor defect. Decl.names_wf only gates the declarative key comparison",
    "'extraction does not alter pixel data' has no content in the (pure) model; it is harness-checked on every case (pixel_same)",
    "results are compared as maps at every nesting level (Model.val_eqb on VDict, Corr.same_keys), exceptions as raised / not raised: the property names neither a key order nor exception classes",
]
ASSUMPTIONS = [
    "Python 3: the struct.unpack branch of _get_elem_value is reachable only with a text value under a numeric VR and then raises TypeError; byte strings are never unpacked",
    "names used for keys (elements without dictionary keyword) are ASCII; upper-casing of a non-ASCII first letter is outside the model",
    "values: one-element lists collapse to scalars (pydicom); tuples, empty lists under VRs without a conversion (they stay MultiValue objects), byte strings under numeric VRs and the ambiguous VRs 'US or OW' / 'US or SS or OW' (byte strings without any conversion: reported to the integrator) are outside the generated domain; pydicom.config.datetime_conversion is off (with it DA/DT/TM values are date objects, not JSON serialisable)",
    "injectivity holds under the stated hypotheses only: no plain name equals another clashing name plus its tag suffix, no plain key contains '.', translator names are distinct and dot-free, every translator fires at most once (F12 when violated)",
    "F12 is recognised exactly: a translator name bound to >= 2 elements of one dataset whose translations are truthy, the keys under '<name>.' are precisely those of the LAST translation with its values, and what cannot be recovered are earlier translations. Any other loss (both lost, prefix dropped, other elements of the block missing) is a new failure; a library that keeps every translation recoverable under keys beginning with the translator's name, or that refuses such a dataset with an exception, is accepted",
    "the never-extract guarantee is for configurations that contain the corresponding ignore rule (the default contains all four); pixel data = (7FE0,0008) FloatPixelData, (7FE0,0009) DoubleFloatPixelData, (7FE0,0010) PixelData",
    "observation (behind no_suffix_clash): private names 'foo','foo','foo_0X29_0X1001' at (0029,1001..1003) with ignore_rules=() give 2 keys for 3 elements (the third overwrites Foo_0X29_0X1001)",
    "observation (behind no_dot_keys): a private element named 'T1.Tag' plus a translator T1 returning {'Tag':..}: the plain element's value is overwritten by the translator key",
    "observation: the group of Translator.tag is never compared; a translator declared for (0029,1001) also fires on (0019,1001) when the creator string matches (generators keep the groups equal)",
    "observation (outside the property: empty / non-text values): empty UI, PN and byte-string values and [] under DS/IS yield key -> [] ; [] under a VR without conversion stays a MultiValue (not JSON serialisable); bytes outside 0x20..0x7e (e.g. text with a newline) in the byte-string VRs are dropped by get_text/is_ascii",
    "JSON: the oracle walks every extracted value itself; a value is exempt only when the CONFIGURATION removed the default conversion of its VR, when pixel/overlay/LUT data are extracted because the configuration lacks the rule, or for objects outside the generated domain; json.dumps of the whole result must succeed when nothing is exempt",
    "elements whose value is empty (blank text, None, VM 0) or a byte string that is not text are not constrained by the property; the model still predicts what the code does with them",
    "malformed stream: outside the property; only checked: exceptions are ValueError/TypeError (anything else is reported as a crash), and a raising translator with warn_on_trans_except=False does propagate",
]

RULE_NAMES = ["ignore_private", "ignore_pixel_data", "ignore_overlay_data", "ignore_color_lut_data"]
RULE_COQ = {"ignore_private": "RPrivate", "ignore_pixel_data": "RPixel", "ignore_overlay_data": "ROverlay",
            "ignore_color_lut_data": "RLut"}
CONV_COQ = {"float": "CvFloat", "int": "CvInt", "str": "CvStr", "unicode_str": "CvStr", "get_text": "CvText"}
DEFAULT_CONVS = [["DS", "float"], ["IS", "int"], ["AT", "str"], ["OW", "get_text"], ["OB", "get_text"],
                 ["OW or OB", "get_text"], ["OB or OW", "get_text"], ["UN", "get_text"], ["OF", "get_text"], ["OD", "get_text"],
                 ["OL", "get_text"], ["OV", "get_text"], ["PN", "unicode_str"], ["UI", "unicode_str"]]
BYTES_VRS = ("OB", "OW", "UN", "OW or OB", "OB or OW", "OF", "OD", "OL", "OV")
UNCONVERTED_BINARY_VRS = ("US or OW", "US or SS or OW")   # VRs that may hold byte strings and have no default conversion (not generated)
F12_SIG = 'translator-bound-twice'
KNOWN_SIGS = (F12_SIG,)
TEST_CREATORS = ["VERIF A", "VERIF B", "VERIF C"]

# ------------------------------------------------------------------ test translators (mirrored in Extract/Corr.v)


def _tag_str(tag):
    return '%#X_%#X' % (tag.group, tag.elem)


def _tf0(elem):
    return {'Tag': _tag_str(elem.tag), 'VR': str(elem.VR)}


def _tf1(elem):
    return {}


def _tf2(elem):
    return None


def _tf3(elem):
    raise ValueError('translator refuses')


def _tf4(elem):
    return {'a.b': 1, 'Tag': _tag_str(elem.tag)}


def _tf5(elem):
    return {'VM': int(elem.VM), 'Tag': _tag_str(elem.tag)}


TRANS_FUNCS = {0: _tf0, 1: _tf1, 2: _tf2, 3: _tf3, 4: _tf4, 5: _tf5}

# ------------------------------------------------------------------ building datasets


def _reset_private_dict(entries):
    import pydicom.datadict as dd
    for c in TEST_CREATORS:
        dd.private_dictionaries.pop(c, None)
    for creator, tag, vr, name in entries:
        dd.add_private_dict_entry(creator, tag, vr, name, '1')


def _csa_blob(entry):
    """A syntactically valid Siemens CSA2 header for the tags of [entry] (generator truth: see _csa_truth)."""
    tags = [list(t) for t in entry['tags']]
    if entry.get('prot') is not None:
        lines = ['### ASCCONV BEGIN ###']
        for k, v in entry['prot']:
            lines.append('%s = %s' % (k, '""%s""' % v if isinstance(v, str) else repr(v)))
        lines.append('### ASCCONV END ###')
        tags.append(['MrPhoenixProtocol', 'UN', ['\n'.join(lines)]])
    out = b'SV10' + b'\x04\x03\x02\x01' + struct.pack('<II', len(tags), 77)
    for name, vr, items in tags:
        out += name.encode('ascii').ljust(64, b'\x00') + struct.pack('<i', len(items)) + vr.encode('ascii').ljust(4, b'\x00')
        out += struct.pack('<iii', 0, len(items), 77)
        for it in items:
            b = it.encode('ascii') + b'\x00'
            out += struct.pack('<iiii', len(b), len(b), 77, len(b)) + b + b'\x00' * ((4 - len(b) % 4) % 4)
    return out


def _csa_truth(entry):
    """What the default translators must return for the blob of [entry]: from the generator's data alone."""
    out = {}
    for name, vr, items in entry['tags']:
        if not items:
            continue
        conv = float if vr in ('FL', 'FD', 'DS') else int if vr in ('SS', 'US', 'SL', 'UL', 'IS') else str
        vals = [conv(x) for x in items]
        out[name] = vals[0] if len(vals) == 1 else vals
    if entry.get('prot') is not None:
        if entry['func'] == 'csa_series_trans_func':
            for k, v in entry['prot']:
                out['MrPhoenixProtocol.%s' % k] = v
        else:
            raise ValueError('protocols only in series headers')
    return out


def _value(spec, csa=None):
    from pydicom.dataset import Dataset
    from pydicom.sequence import Sequence
    if isinstance(spec, dict):
        if 'b' in spec:
            return bytes(spec['b'])
        if 'f' in spec:
            return float(spec['f'])
        if 'csa' in spec:
            return _csa_blob(csa[spec['csa']])
        if 'seq' in spec:
            return Sequence([_build(items, csa) for items in spec['seq']])
        raise ValueError('bad value spec')
    if isinstance(spec, list):
        return [_value(x, csa) for x in spec]
    return spec


def _build(elems, csa=None):
    from pydicom.dataset import Dataset
    ds = Dataset()
    for e in elems:
        ds.add_new((e['tag'][0], e['tag'][1]), e['vr'], _value(e['val'], csa))
    return ds


_FILE_COUNTER = [0]


def _fresh(case):
    """A fresh dataset for the case: built in memory, or (via_file) written to a file under the work directory
    and read back, so that the extractor sees what pydicom makes of raw file elements."""
    import pydicom
    ds = _build(case['elems'], case.get('csa'))
    mode = case.get('via_file')
    if not mode:
        return ds
    d = os.environ.get('VERIF_WORK') or os.path.join(os.path.dirname(os.path.dirname(os.path.abspath(__file__))), 'work')
    os.makedirs(d, exist_ok=True)
    _FILE_COUNTER[0] += 1
    fn = os.path.join(d, 'c15_%d_%d.dcm' % (os.getpid(), _FILE_COUNTER[0]))
    try:
        pydicom.dcmwrite(fn, ds, implicit_vr=(mode == 'implicit'), little_endian=True, enforce_file_format=False)
        with open(fn, 'rb') as f:
            data = f.read()
    finally:
        if os.path.exists(fn):
            os.remove(fn)
    import io
    return pydicom.dcmread(io.BytesIO(data), force=True)


def _harness_get_text(b):
    """get_text re-stated in the harness (chardet is called directly, not through the library under test)."""
    try:
        import chardet
    except ImportError:
        chardet = None
    if chardet is not None:
        m = chardet.detect(b)
        if m['encoding'] is None:
            return None
        try:
            return b.decode(m['encoding'])
        except UnicodeDecodeError:
            pass
    if all(32 <= c <= 126 for c in b):
        return b.decode('ascii')
    return None


def _render(v):
    """Python object -> JSON tree with the Python class name."""
    import pydicom
    from pydicom.sequence import Sequence
    from pydicom.multival import MultiValue
    from pydicom.valuerep import PersonName
    t = type(v).__name__
    if v is None:
        return {'t': 'NoneType'}
    if isinstance(v, bool):
        return {'t': 'other', 'ty': t, 'v': repr(v)}
    if isinstance(v, PersonName):
        return {'t': 'PersonName', 'v': str(v)}
    if isinstance(v, str):
        if t in ('str', 'UID'):
            return {'t': t, 'v': str.__str__(v)}
        return {'t': 'other', 'ty': t, 'v': repr(v)}
    if isinstance(v, int):
        if t in ('int', 'IS', 'BaseTag'):
            return {'t': t, 'v': str(int(v))}
        return {'t': 'other', 'ty': t, 'v': repr(v)}
    if isinstance(v, float):
        if t in ('float', 'DSfloat'):
            f = float(v)
            if math.isnan(f):
                q = 'nan'
            elif math.isinf(f):
                q = 'inf' if f > 0 else '-inf'
            else:
                n, d = f.as_integer_ratio()
                q = [str(n), str(d)]
            return {'t': t, 'v': float.__repr__(f), 'q': q}
        return {'t': 'other', 'ty': t, 'v': repr(v)}
    if isinstance(v, (bytes, bytearray)):
        return {'t': 'bytes', 'v': list(v)}
    if isinstance(v, Sequence):
        return {'t': 'Sequence', 'v': [_listing(item) for item in v]}
    if isinstance(v, MultiValue):
        return {'t': 'MultiValue', 'v': [_render(x) for x in v]}
    if type(v) is list:
        return {'t': 'list', 'v': [_render(x) for x in v]}
    if isinstance(v, dict):
        return {'t': 'dict', 'v': [[k if isinstance(k, str) else repr(k), _render(x)] for k, x in v.items()]}
    return {'t': 'other', 'ty': t, 'v': repr(v)[:80]}


def _listing(ds):
    from pydicom.datadict import keyword_for_tag
    out = []
    for elem in ds:
        raw = getattr(elem.value, 'original_string', None) if type(elem.value).__name__ in ('DSfloat', 'IS') else None
        out.append({'tag': [int(elem.tag.group), int(elem.tag.elem)], 'vr': str(elem.VR), 'vm': int(elem.VM),
                    'kw': keyword_for_tag(elem.tag), 'name': str(elem.name), 'val': _render(elem.value),
                    'raw': raw if isinstance(raw, str) else None})
    return out


def _pixels(ds):
    out = []
    for elem in ds:
        if elem.tag in (0x7fe00008, 0x7fe00009, 0x7fe00010):
            out.append(bytes(elem.value) if elem.value is not None else None)
        elif elem.VR == 'SQ' and elem.value is not None:
            for item in elem.value:
                out += _pixels(item)
    return out


def _extractor(cfg):
    from dcmstack import extract
    import pydicom
    kw = {}
    if cfg.get('rules') is not None:
        kw['ignore_rules'] = tuple(getattr(extract, r) for r in cfg['rules'])
    if cfg.get('trans') is not None:
        kw['translators'] = tuple(extract.Translator(t['name'], pydicom.tag.Tag(t['tag'][0], t['tag'][1]), t['creator'],
                                                     TRANS_FUNCS[t['kind']]) for t in cfg['trans'])
    if cfg.get('convs') is not None:
        kw['conversions'] = dict((vr, getattr(extract, c) if c in ('get_text', 'unicode_str') else {'float': float, 'int': int, 'str': str}[c])
                                 for vr, c in cfg['convs'])
    kw['warn_on_trans_except'] = bool(cfg.get('warn', True))
    return extract.MetaExtractor(**kw)


def _collect_bytes(listing, acc):
    for e in listing:
        v = e['val']
        if v['t'] == 'bytes':
            acc.append(v['v'])
        elif v['t'] == 'Sequence':
            for item in v['v']:
                _collect_bytes(item, acc)


def _pydicom_facts(listing):
    """pydicom facts the theorems take as hypotheses; recorded for the evidence, never part of a verdict."""
    ok = True
    for e in listing:
        g, el = e['tag']
        if (e['name'] == 'Private Creator') != (g % 2 == 1 and 0x10 <= el <= 0xff):
            ok = False
        v = e['val']
        if e.get('raw') is not None:
            try:
                if v['t'] == 'DSfloat' and float.__repr__(float(e['raw'])) != v['v']:
                    ok = False
                if v['t'] == 'IS' and str(int(e['raw'])) != v['v']:
                    ok = False
            except ValueError:
                ok = False
        if v['t'] == 'Sequence':
            ok = ok and all(_pydicom_facts(item) for item in v['v'])
    return ok


def run_impl(case):
    import warnings
    warnings.simplefilter('ignore')
    from dcmstack import extract
    _reset_private_dict(case.get('priv_dict', []))
    cfg = case['cfg']
    ds_a = _fresh(case)
    ds_a.decode()
    listing = _listing(ds_a)
    obs = {'abstract': listing, 'chardet': bool(extract.have_chardet), 'gt': [], 'pydicom_facts': _pydicom_facts(listing)}
    if extract.have_chardet:
        acc = []
        _collect_bytes(listing, acc)
        seen = set()
        for b in acc:
            if tuple(b) not in seen:
                seen.add(tuple(b))
                obs['gt'].append([b, _harness_get_text(bytes(b))])

    def one(ds, ex):
        # ValueError: 'More than one translator for tag', or a translator's own exception re-raised
        # (warn_on_trans_except=False); TypeError: struct.unpack on text.  Anything else is unexpected and propagates.
        try:
            return None, ex(ds)
        except ValueError:
            return 'EValue', None
        except TypeError:
            return 'EType', None

    ds1 = _fresh(case)
    pix_before = _pixels(ds1)
    ex = _extractor(cfg)
    err, r1 = one(ds1, ex)
    pix_after = _pixels(ds1)
    obs['pixel_same'] = pix_before == pix_after == _pixels(_fresh(case))
    ds2 = _fresh(case)
    err2, r2 = one(ds2, _extractor(cfg))
    err3, r3 = one(ds1, ex)               # a second call on the same (already decoded) dataset
    if err is not None:
        obs['err'] = err
        obs['deterministic'] = (err2 is not None and err3 is not None)
        return obs
    obs['result'] = _render(r1)['v']
    obs['deterministic'] = (err2 is None and err3 is None and _canon(_render(r2)) == _canon(_render(r1)) and _canon(_render(r3)) == _canon(_render(r1)))
    try:
        json.dumps(r1)
        obs['json_ok'] = True
    except (TypeError, ValueError):
        obs['json_ok'] = False
    return obs


def _canon(v):
    """rendered value with dictionaries as sorted maps (key order is not part of the property)"""
    if v['t'] == 'dict':
        return {'t': 'dict', 'v': sorted(([k, _canon(x)] for k, x in v['v']), key=lambda kv: kv[0])}
    if v['t'] in ('list', 'MultiValue'):
        return {'t': v['t'], 'v': [_canon(x) for x in v['v']]}
    return v


# ------------------------------------------------------------------ Coq literals

def _cval(v):
    t = v['t']
    if t == 'NoneType':
        return 'VNone'
    if t in ('str', 'UID', 'PersonName'):
        return '(VStr %s %s)' % ({'str': 'CStr', 'UID': 'CUid', 'PersonName': 'CPn'}[t], cstr(v['v']))
    if t in ('int', 'IS', 'BaseTag'):
        return '(VInt %s %s)' % ({'int': 'CInt', 'IS': 'CIs', 'BaseTag': 'CTag'}[t], cz(int(v['v'])))
    if t in ('float', 'DSfloat'):
        q = v['q']
        fv = 'FNan' if q == 'nan' else '(FInf false)' if q == 'inf' else '(FInf true)' if q == '-inf' else '(FFin (%s # %s))' % (q[0] if int(q[0]) >= 0 else '(%s)' % q[0], q[1])
        return '(VNum %s %s %s)' % ({'float': 'CFloat', 'DSfloat': 'CDs'}[t], fv, cstr(v['v']))
    if t == 'bytes':
        return '(VBytes %s)' % cbytes(bytes(v['v']))
    if t in ('list', 'MultiValue'):
        return '(VMulti %s %s)' % ({'list': 'CList', 'MultiValue': 'CMulti'}[t], clist(_cval(x) for x in v['v']))
    if t == 'Sequence':
        return '(VSeq %s)' % clist(_cds(item) for item in v['v'])
    if t == 'dict':
        return '(VDict %s)' % _cdict(v['v'])
    return '(VOpaque %s %s)' % (cstr(v.get('ty', '?')), cstr(v.get('v', '')))


def _cdict(kvs):
    return clist(cpair(cstr(k), _cval(x)) for k, x in kvs)


def _cds(listing):
    return clist('(mk_einfo (%s, %s) %s %s %s %s %s, %s)' % (cN(e['tag'][0]), cN(e['tag'][1]), cstr(e['vr']), cnat(e['vm']),
                                                            cstr(e['kw']), cstr(e['name']), copt(e.get('raw'), cstr), _cval(e['val']))
                 for e in listing)


def coq_case(case, obs):
    cfg = case['cfg']
    if 'abstract' not in obs:     # the runner itself failed: a case the model cannot agree with
        return 'mk_case None None None true [] [] [] [] (Err ECrash)'
    rules = copt(cfg.get('rules'), lambda rs: clist(RULE_COQ[r] for r in rs))
    trans = copt(cfg.get('trans'), lambda ts: clist('mk_tspec %s (%s, %s) %s %s' % (cstr(t['name']), cN(t['tag'][0]), cN(t['tag'][1]),
                                                                                   cstr(t['creator']), cnat(t['kind'])) for t in ts))
    convs = copt(cfg.get('convs'), lambda cs: clist(cpair(cstr(vr), CONV_COQ[c]) for vr, c in cs))
    gt = clist(cpair(cbytes(bytes(b)), copt(s, cstr)) for b, s in obs.get('gt', []))
    csa = clist('(%s, %s, %s)' % (cstr(en['func']), cbytes(_csa_blob(en)), _cdict(_render(_csa_truth(en))['v'])) for en in case.get('csa') or [])
    if 'err' in obs:
        o = '(Err %s)' % obs['err']
    elif 'result' in obs:
        o = '(Ok %s)' % _cdict(obs['result'])
    else:
        o = '(Err EMissingExt)'
    relax = clist(cstr(t['name']) for t in _trans_specs(cfg)) if case.get('kind') != 'malformed' and _multi_bound(obs['abstract'], case) else '[]'
    return 'mk_case %s %s %s %s %s %s %s %s %s' % (rules, trans, convs, cbool(bool(cfg.get('warn', True))), gt, csa, relax, _cds(obs['abstract']), o)


# ------------------------------------------------------------------ the property, re-stated on the observation

def _is_space(c):
    return c.isspace()


def _camel(name):
    if name.startswith('[') and name.endswith(']'):
        name = name[1:-1]
    return ''.join(t[0].upper() + t[1:] for t in name.split())


def _base_key(e):
    return e['kw'] if e['kw'] else _camel(e['name'])


def _rule_hits(rules, tag):
    g, el = tag
    hit = False
    if 'ignore_private' in rules and g % 2 == 1:
        hit = True
    if 'ignore_pixel_data' in rules and g == 0x7fe0 and el in (0x0008, 0x0009, 0x0010):
        hit = True
    if 'ignore_overlay_data' in rules and 0x6000 <= g <= 0x60ff and el == 0x3000:
        hit = True
    if 'ignore_color_lut_data' in rules and g == 0x0028 and el in (0x1201, 0x1202, 0x1203, 0x1221, 0x1222, 0x1223):
        hit = True
    return hit


def _never_rule(tag):
    g, el = tag
    if g == 0x7fe0 and el in (0x0008, 0x0009, 0x0010):
        return 'ignore_pixel_data'
    if 0x6000 <= g <= 0x60ff and el == 0x3000:
        return 'ignore_overlay_data'
    if g == 0x0028 and el in (0x1201, 0x1202, 0x1203, 0x1221, 0x1222, 0x1223):
        return 'ignore_color_lut_data'
    return None


def _is_empty(e):
    v = e['val']
    if v['t'] == 'NoneType' or e['vm'] == 0:
        return True
    if v['t'] in ('str', 'UID', 'PersonName') and v['v'].strip() == '':
        return True
    if v['t'] == 'Sequence' and len(v['v']) == 0:
        return True
    return False


def _is_text_bytes(b):
    return all(32 <= c <= 126 for c in b)


JSON_TYPES = ('NoneType', 'str', 'UID', 'int', 'IS', 'BaseTag', 'float', 'DSfloat', 'list', 'dict')


def _trans_specs(cfg):
    if cfg.get('trans') is None:
        return [{'name': 'CsaImage', 'tag': [0x29, 0x1010], 'creator': 'SIEMENS CSA HEADER', 'kind': 99, 'func': 'csa_image_trans_func'},
                {'name': 'CsaSeries', 'tag': [0x29, 0x1020], 'creator': 'SIEMENS CSA HEADER', 'kind': 99, 'func': 'csa_series_trans_func'}]
    return cfg['trans']


def _claims(listing, cfg):
    """tag -> translator spec, by the DICOM private block rule: creator C in (g,00bb) reserves (g,bbxx)."""
    out = {}
    for e in listing:
        g, el = e['tag']
        if g % 2 == 1 and 0x10 <= el <= 0xff and e['val']['t'] == 'str' and e['val']['v'].strip() != '':
            for t in _trans_specs(cfg):
                if t['creator'] == e['val']['v']:
                    out.setdefault((g, (el << 8) | (t['tag'][1] & 0xff)), t)
    return out


def _expected_translation(e, t, case):
    """generator truth: what the translation function returns for this element (None: nothing / raises)"""
    if t['kind'] == 99:
        if e['val']['t'] != 'bytes':
            return None
        for en in case.get('csa') or []:
            if en['func'] == t.get('func') and list(_csa_blob(en)) == list(e['val']['v']):
                return _csa_truth(en)
        return None
    f = TRANS_FUNCS.get(t['kind'])
    if f is None:
        return None
    import collections
    T = collections.namedtuple('T', 'group elem')

    class _E:                                   # what the test translation functions look at
        pass
    x = _E()
    x.tag, x.VR, x.VM = T(e['tag'][0], e['tag'][1]), e['vr'], e['vm']
    try:
        return f(x) or None
    except ValueError:
        return None


def _same(a, b):
    """rendered values equal: class and value (floats by repr), lists element-wise, dicts as maps"""
    if a['t'] != b['t']:
        return False
    if a['t'] in ('list', 'MultiValue'):
        return len(a['v']) == len(b['v']) and all(_same(x, y) for x, y in zip(a['v'], b['v']))
    if a['t'] == 'dict':
        da, db = dict((k, v) for k, v in a['v']), dict((k, v) for k, v in b['v'])
        return set(da) == set(db) and all(_same(da[k], db[k]) for k in da)
    return a.get('v') == b.get('v')


def _tag_paren(n):
    return '(%04X,%04X)' % (n >> 16, n & 0xffff)


def _expect_scalar(vr, raw, got, convs, where, fail):
    """raw: rendered input scalar; got: rendered output scalar."""
    conv = dict(convs).get(vr)
    rt, gt_ = raw['t'], got['t']
    if conv == 'float':
        if gt_ != 'float':
            return fail('wrong-type', '%s: %s value extracted as %s, expected float' % (where, vr, gt_))
        if rt in ('DSfloat', 'float') and got['v'] != raw['v']:
            return fail('wrong-value', '%s: %s extracted as %s' % (where, raw['v'], got['v']))
        if rt in ('int', 'IS') and float(got['v']) != float(int(raw['v'])):
            return fail('wrong-value', '%s: %s extracted as %s' % (where, raw['v'], got['v']))
    elif conv == 'int':
        if gt_ != 'int':
            return fail('wrong-type', '%s: %s value extracted as %s, expected int' % (where, vr, gt_))
        if rt in ('int', 'IS') and got['v'] != raw['v']:
            return fail('wrong-value', '%s: %s extracted as %s' % (where, raw['v'], got['v']))
    elif conv in ('str', 'unicode_str'):
        if gt_ != 'str':
            return fail('wrong-type', '%s: %s value extracted as %s, expected str' % (where, vr, gt_))
        exp = None
        if rt in ('str', 'UID', 'PersonName'):
            exp = raw['v']
        elif rt == 'BaseTag':
            exp = _tag_paren(int(raw['v']))
        elif rt == 'int':
            exp = raw['v']
        elif rt == 'float':
            exp = raw['v']
        if exp is not None and got['v'] != exp:
            return fail('wrong-value', '%s: %r extracted as %r, expected %r' % (where, raw['v'], got['v'], exp))
    elif conv == 'get_text':
        if rt == 'bytes':
            if gt_ != 'str' or got['v'] != bytes(raw['v']).decode('ascii'):
                return fail('wrong-value', '%s: text bytes extracted as %s %r' % (where, gt_, got.get('v')))
    else:
        # no conversion: the value itself
        if rt in ('str', 'int', 'float'):
            if gt_ != rt or got['v'] != raw['v']:
                return fail('wrong-value', '%s: %s %r extracted as %s %r' % (where, rt, raw['v'], gt_, got.get('v')))
        elif rt in ('UID', 'IS', 'DSfloat', 'BaseTag', 'PersonName', 'bytes'):
            if got.get('v') != raw['v']:
                return fail('wrong-value', '%s: %r extracted as %r' % (where, raw['v'], got.get('v')))


def _json_walk(v):
    """first non-JSON Python class in a rendered value, or None"""
    if v['t'] not in JSON_TYPES:
        return v.get('ty', v['t'])
    if v['t'] == 'list':
        for x in v['v']:
            r = _json_walk(x)
            if r:
                return r
    if v['t'] == 'dict':
        for _, x in v['v']:
            r = _json_walk(x)
            if r:
                return r
    return None


def _json_exempt(e, convs):
    """the CONFIGURATION took the conversion away that would have made this value serialisable (the user's choice),
    or the value is outside the generated domain (opaque objects, byte strings under non-binary VRs, an empty
    MultiValue under a VR without conversion)"""
    v = e['val']
    conv = dict(convs).get(e['vr'])
    dflt = dict(DEFAULT_CONVS).get(e['vr'])
    items = v['v'] if v['t'] in ('MultiValue', 'list') else [v]
    if v['t'] == 'MultiValue' and conv is None and e['vm'] <= 1:
        return True
    for x in items:
        if x['t'] == 'other':
            return True
        if x['t'] == 'bytes' and conv is None and (dflt is not None or e['vr'] not in BYTES_VRS + UNCONVERTED_BINARY_VRS):
            return True
        if x['t'] == 'PersonName' and conv is None:
            return True
    return False


def _check_level(listing, result, case, where, fails, st):
    """result: rendered dict (list of [key, rendered value]).  Appends (signature, message) to [fails]; every clause is
    evaluated (no early exit)."""
    cfg = case['cfg']

    def fail(sig, msg):
        fails.append((sig, '%s: %s' % (sig, msg)))

    rules = RULE_NAMES if cfg.get('rules') is None else cfg['rules']
    convs = DEFAULT_CONVS if cfg.get('convs') is None else cfg['convs']
    keys = [k for k, _ in result]
    if len(set(keys)) != len(keys):
        fail('duplicate-key', where)
    res = dict((k, v) for k, v in result)
    claims = _claims(listing, cfg)
    required, exempt, translated = [], [], []
    for e in listing:
        tag = tuple(e['tag'])
        v = e['val']
        if v['t'] == 'str' and v['v'].strip() == '':
            continue                                   # blank text: nothing is expected, nothing allowed
        if tag in claims:
            translated.append((e, claims[tag]))
            continue
        if _rule_hits(rules, tag):
            continue
        if _is_empty(e):
            exempt.append(e)
        elif v['t'] == 'bytes' and dict(convs).get(e['vr']) == 'get_text' and not _is_text_bytes(v['v']):
            exempt.append(e)                           # binary data is not text: get_text drops it by design
        elif v['t'] == 'other':
            exempt.append(e)
        else:
            required.append(e)
    n_req, n_ex = {}, {}
    for e in required:
        n_req[_base_key(e)] = n_req.get(_base_key(e), 0) + 1
    for e in exempt:
        n_ex[_base_key(e)] = n_ex.get(_base_key(e), 0) + 1
    allowed = set()
    for e in exempt:
        b = _base_key(e)
        tagged = b + '_' + '%#X_%#X' % tuple(e['tag'])
        allowed.add(b)
        allowed.add(tagged)
        if tagged in res or (b in res and n_req.get(b, 0) == 0):
            st['exempt_present'] = True

    # ---- translated elements: the translation is in the result under the translator's name
    by_name = {}
    for e, t in translated:
        exp = _expected_translation(e, t, case)
        if exp:
            by_name.setdefault(t['name'], []).append((e, exp))
    for tn, lst in sorted(by_name.items()):
        prefix = tn + '.'
        if len(lst) == 1:
            e, exp = lst[0]
            for k, val in exp.items():
                key = prefix + k
                allowed.add(key)
                got = res.get(key)
                if got is None or not _same(_render(val), got):
                    fail('translated-element-lost', '%s: key %s of (%04X,%04X) is %r, expected %r'
                         % (where, key, e['tag'][0], e['tag'][1], got and (got['t'], got.get('v')), val))
            continue
        # one translator name bound to several elements of this dataset.  Whatever a library does about it, every
        # element's translation must be recoverable under keys that begin with the translator's name.
        under = dict((k, v) for k, v in res.items() if k.startswith(tn))
        allowed.update(under)

        def recoverable(exp):
            return all(any(k.endswith(kk) and _same(_render(val), got) for k, got in under.items()) for kk, val in exp.items())
        lost = [(e, exp) for e, exp in lst if not recoverable(exp)]
        if not lost:
            continue
        # F12 exactly: the keys under the prefix are those of the LAST translation, with its values, and what is
        # lost are earlier translations (each later assignment trans_meta_dicts[name] = meta replaced the earlier one)
        last_e, last_exp = lst[-1]
        only_last = (set(k for k in under if k.startswith(prefix)) == set(prefix + kk for kk in last_exp)
                     and set(under) == set(prefix + kk for kk in last_exp)
                     and all(_same(_render(val), under[prefix + kk]) for kk, val in last_exp.items()))
        earlier = all(e is not last_e for e, _ in lost)
        e0 = lost[0][0]
        if only_last and earlier:
            fail(F12_SIG, '%s: translator %s is bound to %d elements; only the translation of (%04X,%04X) is under %r, that of (%04X,%04X) was overwritten'
                 % (where, tn, len(lst), last_e['tag'][0], last_e['tag'][1], prefix, e0['tag'][0], e0['tag'][1]))
        else:
            fail('translated-element-lost', '%s: translator %s is bound to %d elements; the translation of (%04X,%04X) is not in the result (keys under the name: %r)'
                 % (where, tn, len(lst), e0['tag'][0], e0['tag'][1], sorted(under)))

    # ---- surviving elements: exactly one key each, with the value
    for e in required:
        b = _base_key(e)
        tagged = b + '_' + '%#X_%#X' % tuple(e['tag'])
        w = '%s(%04X,%04X)' % (where, e['tag'][0], e['tag'][1])
        if n_req[b] >= 2:
            cands = [tagged]
        elif n_ex.get(b, 0) == 0:
            cands = [b]
        else:
            cands = [b, tagged]
        present = [k for k in cands if k in res]
        if n_req[b] >= 2 and b in res and b not in allowed:
            fail('clash-not-disambiguated', '%s: key %r is used bare although %d elements carry that name' % (w, b, n_req[b]))
        if len(present) != 1:
            fail('element-not-mapped', '%s %s %s: expected exactly one of the keys %r, found %r' % (w, e['vr'], e['val']['t'], cands, present))
            allowed.update(cands)
            continue
        key = present[0]
        allowed.add(key)
        got = res[key]
        v = e['val']
        if v['t'] == 'Sequence':
            if got['t'] != 'list' or len(got['v']) != len(v['v']):
                fail('wrong-type', '%s: sequence of %d items extracted as %s' % (w, len(v['v']), got['t']))
                continue
            for i, (item, sub) in enumerate(zip(v['v'], got['v'])):
                if sub['t'] != 'dict':
                    fail('wrong-type', '%s: sequence item extracted as %s' % (w, sub['t']))
                else:
                    _check_level(item, sub['v'], case, '%s[%d].' % (w, i), fails, st)
            continue
        if e['vm'] > 1:
            if got['t'] != 'list' or v['t'] not in ('MultiValue', 'list') or len(got['v']) != len(v['v']):
                fail('wrong-type', '%s: VM %d value extracted as %s' % (w, e['vm'], got['t']))
            else:
                for raw, g1 in zip(v['v'], got['v']):
                    _expect_scalar(e['vr'], raw, g1, convs, w, fail)
        else:
            if got['t'] in ('list', 'MultiValue'):
                fail('wrong-type', '%s: single value extracted as %s' % (w, got['t']))
            else:
                _expect_scalar(e['vr'], v, got, convs, w, fail)
        # JSON: every value must be of a serialisable class, unless the configuration / domain says otherwise
        bad = _json_walk(got)
        if bad:
            if _never_rule(tuple(e['tag'])) is not None:
                st['exempt_present'] = True        # pixel / overlay / LUT data extracted because the configuration lacks the rule
            elif e['vr'] in UNCONVERTED_BINARY_VRS and dict(convs).get(e['vr']) is None and got['t'] == 'bytes':
                fail('binary-vr-unconverted', '%s: the %s value is extracted as raw bytes (no conversion exists for this VR); the result is not JSON serialisable' % (w, e['vr']))
                st['exempt_present'] = True
            elif _json_exempt(e, convs):
                st['exempt_present'] = True
            else:
                fail('not-json', '%s: value of class %s is not JSON serialisable' % (w, bad))
    for k in keys:
        if k not in allowed:
            fail('unexpected-key', '%s: key %r does not come from any extractable element' % (where, k))
    # never-extract tags (also covered by unexpected-key; stated separately because the property does)
    for e in listing:
        r = _never_rule(tuple(e['tag']))
        if r and r in rules and tuple(e['tag']) not in claims:
            b = _base_key(e)
            for k in (b, b + '_' + '%#X_%#X' % tuple(e['tag'])):
                if k in res and n_req.get(b, 0) == 0:
                    fail('never-extract', '%s: %s of (%04X,%04X) is in the result' % (where, k, e['tag'][0], e['tag'][1]))
    # translator results must be serialisable too (the test translators return str / int / float)
    for k, got in res.items():
        if k in allowed and any(k.startswith(tn) for tn in by_name):
            bad = _json_walk(got)
            if bad:
                fail('not-json', '%s: translator value %s of class %s' % (where, k, bad))


def _multi_bound(listing, case):
    """some translator is bound to two or more elements of one dataset (at any nesting level)"""
    claims = _claims(listing, case['cfg'])
    n = {}
    for e in listing:
        if tuple(e['tag']) in claims and not (e['val']['t'] == 'str' and e['val']['v'].strip() == ''):
            t = claims[tuple(e['tag'])]
            if _expected_translation(e, t, case):
                n[t['name']] = n.get(t['name'], 0) + 1
    if any(c >= 2 for c in n.values()):
        return True
    return any(_multi_bound(item, case) for e in listing if e['val']['t'] == 'Sequence' for item in e['val']['v'])


def _collect(case, obs):
    """every clause of the property, evaluated on the observation: list of (signature, message)"""
    fails = []
    if not isinstance(obs, dict) or 'crash' in obs or 'abstract' not in obs:
        return [('crash', 'crash: implementation runner: %s' % (obs.get('crash') if isinstance(obs, dict) else obs))]
    if case.get('kind') == 'malformed':
        # outside the property's domain: only "what happens is what the documented API says"
        m = case.get('malformed')
        if m == 'raising-translator-no-warn' and 'err' not in obs:
            fails.append(('translator-exception-swallowed', 'translator-exception-swallowed: warn_on_trans_except=False but the translator\'s exception did not propagate'))
        return fails
    if 'err' in obs:
        if _multi_bound(obs['abstract'], case):
            return fails          # refusing a translator bound twice is an acceptable answer to F12
        return [('raised', 'raised: extraction of a well-formed dataset raised %s' % obs['err'])]
    if not obs.get('pixel_same', False):
        fails.append(('pixel-changed', 'pixel-changed: pixel data differ after extraction'))
    if not obs.get('deterministic', False):
        fails.append(('non-deterministic', 'non-deterministic: two extractions of the same dataset differ'))
    st = {'exempt_present': False}
    _check_level(obs['abstract'], obs['result'], case, '', fails, st)
    if not obs.get('json_ok', False) and not st['exempt_present'] and not any(s in ('not-json', 'binary-vr-unconverted') for s, _ in fails):
        fails.append(('not-json', 'not-json: json.dumps rejects the result although every value looks serialisable'))
    return fails


def oracle(case, obs):
    try:
        fails = _collect(case, obs)
    except Exception as e:        # never raise
        return 'oracle-error: %s: %s' % (type(e).__name__, e)
    for sig, msg in fails:
        if sig not in KNOWN_SIGS:
            return msg
    return fails[0][1] if fails else None


def signature(case, obs, msg):
    """re-derived from the case and the observation: the signature of the clause that produced this message"""
    try:
        for sig, m in _collect(case, obs):
            if m == msg:
                return sig
    except Exception:
        pass
    return 'unclassified/' + msg.split(':')[0]


def nontrivial(case, obs):
    if not isinstance(obs, dict):
        return False
    if 'err' in obs:
        return True
    return len(obs.get('result', [])) >= 3


def shrink(case):
    elems = case['elems']
    for i in range(len(elems)):
        c = dict(case)
        c['elems'] = elems[:i] + elems[i + 1:]
        yield c
    for i, e in enumerate(elems):
        v = e['val']
        if isinstance(v, dict) and 'seq' in v:
            for j in range(len(v['seq'])):
                c = dict(case)
                e2 = dict(e)
                e2['val'] = {'seq': v['seq'][:j] + v['seq'][j + 1:]}
                c['elems'] = elems[:i] + [e2] + elems[i + 1:]
                yield c
        elif isinstance(v, list) and len(v) > 2:
            c = dict(case)
            e2 = dict(e)
            e2['val'] = v[:2]
            c['elems'] = elems[:i] + [e2] + elems[i + 1:]
            yield c
    cfg = case['cfg']
    if cfg.get('trans'):
        for i in range(len(cfg['trans'])):
            c = dict(case)
            c['cfg'] = dict(cfg, trans=cfg['trans'][:i] + cfg['trans'][i + 1:])
            yield c
    if case.get('priv_dict'):
        for i in range(len(case['priv_dict'])):
            c = dict(case)
            c['priv_dict'] = case['priv_dict'][:i] + case['priv_dict'][i + 1:]
            yield c


# ------------------------------------------------------------------ generators

STD_TAGS = [  # tags with a dictionary keyword (any VR may be put on them: add_new takes the VR explicitly)
    (0x0008, 0x0008), (0x0008, 0x0016), (0x0008, 0x0018), (0x0008, 0x0020), (0x0008, 0x0021), (0x0008, 0x0030),
    (0x0008, 0x0031), (0x0008, 0x0050), (0x0008, 0x0060), (0x0008, 0x0070), (0x0008, 0x0080), (0x0008, 0x0090),
    (0x0008, 0x1010), (0x0008, 0x1030), (0x0008, 0x103e), (0x0008, 0x1090), (0x0010, 0x0010), (0x0010, 0x0020),
    (0x0010, 0x0030), (0x0010, 0x0040), (0x0010, 0x1010), (0x0010, 0x1030), (0x0018, 0x0020), (0x0018, 0x0021),
    (0x0018, 0x0050), (0x0018, 0x0080), (0x0018, 0x0081), (0x0018, 0x0083), (0x0018, 0x0088), (0x0018, 0x0091),
    (0x0018, 0x1020), (0x0018, 0x1310), (0x0018, 0x1314), (0x0018, 0x9087), (0x0018, 0x9089), (0x0020, 0x000d),
    (0x0020, 0x000e), (0x0020, 0x0011), (0x0020, 0x0012), (0x0020, 0x0013), (0x0020, 0x0032), (0x0020, 0x0037),
    (0x0020, 0x0052), (0x0020, 0x1041), (0x0028, 0x0002), (0x0028, 0x0004), (0x0028, 0x0010), (0x0028, 0x0011),
    (0x0028, 0x0030), (0x0028, 0x0100), (0x0028, 0x0101), (0x0028, 0x0106), (0x0028, 0x1050), (0x0028, 0x1051),
    (0x0028, 0x1052), (0x0028, 0x1053), (0x0040, 0x0244), (0x0040, 0x0245), (0x0020, 0x5000), (0x0028, 0x0009),
]
SEQ_TAGS = [(0x0008, 0x1110), (0x0008, 0x1140), (0x0008, 0x2112), (0x0040, 0x0275), (0x5200, 0x9229), (0x5200, 0x9230),
            (0x0018, 0x9117), (0x0088, 0x0200)]
UNKNOWN_TAGS = [(0x0018, 0x1313), (0x0008, 0x1051), (0x0020, 0x5001), (0x0012, 0x7777), (0x6000, 0x0010), (0x6002, 0x0011)]
NEVER_TAGS = [((0x7fe0, 0x0010), 'OW'), ((0x7fe0, 0x0008), 'OF'), ((0x7fe0, 0x0009), 'OD'), ((0x7fe0, 0x0010), 'OB'), ((0x6000, 0x3000), 'OW'), ((0x6002, 0x3000), 'OB'), ((0x60fe, 0x3000), 'OW'),
              ((0x0028, 0x1201), 'OW'), ((0x0028, 0x1202), 'OW'), ((0x0028, 0x1203), 'OW'), ((0x0028, 0x1221), 'OW'),
              ((0x0028, 0x1222), 'OW'), ((0x0028, 0x1223), 'OW')]
NEAR_NEVER_TAGS = [((0x0028, 0x1101), 'US'), ((0x0028, 0x1200), 'OW'), ((0x0028, 0x1204), 'OW'), ((0x6000, 0x3001), 'OW'), ((0x5fff, 0x3000), 'OW'),
                   ((0x6100, 0x3000), 'OW'), ((0x7fe0, 0x0011), 'OW'), ((0x7fe0, 0x0007), 'OW'), ((0x7fe0, 0x000a), 'OB'), ((0x7fe1, 0x0010), 'LO')]
SCALAR_VRS = ['CS', 'LO', 'SH', 'DS', 'IS', 'US', 'SS', 'UL', 'SL', 'FL', 'FD', 'UI', 'PN', 'DA', 'TM', 'AT', 'OB', 'OW', 'UN',
              'US or SS', 'ST', 'LT', 'AS', 'DT', 'AE', 'UT', 'UC', 'UR', 'SV', 'UV', 'OB or OW', 'OW or OB', 'OF', 'OD', 'OL', 'OV']
SINGLE_ONLY_VRS = ('OB', 'OW', 'UN', 'ST', 'LT', 'UT', 'UR', 'OB or OW', 'OW or OB', 'OF', 'OD', 'OL', 'OV')
WORDS = ['MR', 'ORIGINAL', 'PRIMARY', 'M', 'ND', 'NORM', 'head scan', 'T1 mprage', 'a', 'Ab c', ' lead', 'trail ', 'x_y', 'café',
         'Köln', '0', '12', 'foo.bar', 'A^B', '日本']
DS_STRS = ['1.5', '-0.25', '100', '1e2', '0.1', '123456.789', '3.14159265358979', '0', '-0', '2.50', '1E-3', '+7.25', '.5', '12345678.9012345', '0.30000000000000004']
IS_STRS = ['7', '-12', '0', '2147483647', '+5', '0012']
FLOATS = ['1.5', '0.1', '-2.25', '1e+20', '3.0', '0.0', '-0.0', '1e-07', 'inf', 'nan', '123456789.125']
BYTES = [[97, 98, 99], [32, 126], [72, 105, 32, 116, 104, 101, 114, 101], [0, 1, 2, 3], [255, 254], [97, 10, 98], [127], [], [65], [195, 169]]


def _scalar(rng, vr):
    if vr in ('CS', 'LO', 'SH', 'ST', 'LT', 'UC'):
        return rng.choice(WORDS)
    if vr == 'UT':
        return rng.choice(WORDS + ['two\nlines', 'a long text ' * 8])
    if vr == 'AE':
        return rng.choice(['STORESCP', 'AE_1', 'X'])
    if vr == 'UR':
        return rng.choice(['http://example.org/a?b=c', 'urn:oid:1.2.3'])
    if vr == 'SV':
        return rng.choice([0, -1, 7, -9223372036854775808, 9223372036854775807])
    if vr == 'UV':
        return rng.choice([0, 1, 4294967296, 18446744073709551615])
    if vr == 'AS':
        return rng.choice(['030Y', '012M'])
    if vr == 'DT':
        return rng.choice(['20200101101010', '20191231235959.123456'])
    if vr == 'DS':
        return rng.choice(DS_STRS)
    if vr == 'IS':
        return rng.choice(IS_STRS)
    if vr in ('US', 'UL', 'US or SS'):
        return rng.choice([0, 1, 4, 255, 65535])
    if vr in ('SS', 'SL'):
        return rng.choice([0, -1, 3, -32768, 32767])
    if vr in ('FL', 'FD'):
        return {'f': rng.choice(FLOATS)}
    if vr == 'UI':
        return rng.choice(['1.2.840.10008.1.2', '1.2.3', '2.25.1234567890'])
    if vr == 'PN':
        return rng.choice(['Doe^John', 'Müller^Hans', 'X', 'Yamada^Tarou=山田^太郎'])
    if vr == 'DA':
        return rng.choice(['20200101', '19991231'])
    if vr == 'TM':
        return rng.choice(['101010', '101010.500000', '0930'])
    if vr == 'AT':
        return rng.choice([0x00080010, 0x7fe00010, 0x00291010, 0])
    if vr in ('OB', 'OW', 'UN', 'OB or OW', 'OW or OB'):
        return {'b': rng.choice(BYTES)}
    if vr in ('OF', 'OL'):
        return {'b': rng.choice([[0, 0, 128, 63], [1, 0, 0, 0, 2, 0, 0, 0], [97, 98, 99, 100], [32, 126, 65, 66], []])}
    if vr in ('OD', 'OV'):
        return {'b': rng.choice([[0, 0, 0, 0, 0, 0, 240, 63], [97, 98, 99, 100, 101, 102, 103, 104], [255] * 8, []])}
    raise ValueError(vr)


def _elem_value(rng, vr):
    """value spec with VM 0 / 1 / n and the empty forms"""
    r = rng.random()
    if r < 0.07:
        return None
    if r < 0.13 and vr not in ('OB', 'OW', 'UN', 'AT', 'FL', 'FD', 'US', 'SS', 'UL', 'SL', 'US or SS', 'SV', 'UV',
                              'OB or OW', 'OW or OB', 'OF', 'OD', 'OL', 'OV'):
        return rng.choice(['', ' ', '  '])
    if r < 0.16 and vr in ('DS', 'IS', 'UI', 'PN'):
        return []
    if r < 0.45 and vr not in SINGLE_ONLY_VRS:
        n = rng.choice([2, 2, 3, 4, 6])
        return [_scalar(rng, vr) for _ in range(n)]
    return _scalar(rng, vr)


def _std_elems(rng, n, used, depth=0):
    out = []
    for _ in range(n):
        r = rng.random()
        if r < 0.12 and depth < 3:
            tag = rng.choice(SEQ_TAGS)
            if tag in used:
                continue
            used.add(tag)
            nitems = rng.choice([0, 1, 1, 2, 3])
            items = []
            for _i in range(nitems):
                iu = set()
                sub = _std_elems(rng, rng.choice([0, 1, 2, 3]), iu, depth + 1)
                if rng.random() < 0.25:
                    sub += _never_elems(rng, 1, iu)
                if rng.random() < 0.25:
                    sub += _private_block(rng, iu, rng.choice(TEST_CREATORS + ['SIEMENS CSA HEADER']), depth=depth + 1)[0]
                items.append(sub)
            out.append({'tag': list(tag), 'vr': 'SQ', 'val': {'seq': items}})
            continue
        tag = rng.choice(UNKNOWN_TAGS) if r < 0.2 else rng.choice(STD_TAGS)
        if tag in used:
            continue
        used.add(tag)
        vr = rng.choice(SCALAR_VRS)
        if vr == 'UN' and tag not in UNKNOWN_TAGS[:4]:
            vr = 'OB'        # pydicom re-interprets UN on a public (or repeating-group) tag with its dictionary VR
        out.append({'tag': list(tag), 'vr': vr, 'val': _elem_value(rng, vr)})
    return out


def _never_elems(rng, n, used):
    out = []
    for _ in range(n):
        tag, vr = rng.choice(NEVER_TAGS + NEVER_TAGS + NEAR_NEVER_TAGS)
        if tag in used:
            continue
        used.add(tag)
        if vr in ('OW', 'OB'):
            val = {'b': rng.choice([[0, 1, 2, 3], [97, 98, 99, 100], [255, 0], [80, 73, 88]])}
        elif vr == 'OF':
            val = {'b': rng.choice([[0, 0, 128, 63], [0, 0, 128, 63, 0, 0, 0, 64], [97, 98, 99, 100]])}
        elif vr == 'OD':
            val = {'b': rng.choice([[0, 0, 0, 0, 0, 0, 240, 63], [97, 98, 99, 100, 101, 102, 103, 104]])}
        elif vr == 'US':
            val = [256, 0, 16]
        else:
            val = 'text'
        out.append({'tag': list(tag), 'vr': vr, 'val': val})
    return out


def _slot(rng):
    """any reserved slot 0x10..0xff (the edges and a few usual ones more often)"""
    return rng.choice([0x10, 0x10, 0x11, 0xff, rng.randrange(0x10, 0x100), rng.randrange(0x10, 0x100), rng.randrange(0x10, 0x100)])


def _private_block(rng, used, creator, group=None, slot=None, n=None, multi_creator=False, depth=0):
    group = group if group is not None else rng.choice([0x0009, 0x0019, 0x0021, 0x0029, 0x0029, 0x0051, 0x7fe1])
    slot = slot if slot is not None else _slot(rng)
    if (group, slot) in used:
        return [], group, slot
    used.add((group, slot))
    out = [{'tag': [group, slot], 'vr': 'LO', 'val': [creator, 'X'] if multi_creator else creator}]
    n = n if n is not None else rng.choice([1, 2, 3, 4])
    for _ in range(n):
        low = rng.choice([0x01, 0x02, 0x03, 0x08, 0x10, 0x20, 0xff, 0x00])
        tag = (group, (slot << 8) | low)
        if tag in used:
            continue
        used.add(tag)
        if depth < 2 and rng.random() < 0.12:
            # a private sequence: items are datasets of their own (own creators, own translator bindings)
            items = []
            for _i in range(rng.choice([0, 1, 2])):
                iu = set()
                sub = _std_elems(rng, rng.choice([0, 1, 2]), iu, depth + 2)
                if rng.random() < 0.5:
                    sub += _private_block(rng, iu, creator, group=group, depth=depth + 1)[0]
                items.append(sub)
            out.append({'tag': list(tag), 'vr': 'SQ', 'val': {'seq': items}})
            continue
        vr = rng.choice(['LO', 'CS', 'OB', 'UN', 'DS', 'IS', 'US', 'FD', 'SH'])
        val = _elem_value(rng, vr)
        out.append({'tag': list(tag), 'vr': vr, 'val': val})
    return out, group, slot


CSA_IMAGE_TAGS = [['EchoLinePosition', 'US', ['64']], ['SliceNormalVector', 'FD', ['0.0', '0.5', '1.0']], ['ImaCoilString', 'LO', ['HEA;HEP']],
                  ['NumberOfImagesInMosaic', 'US', ['36']], ['B_value', 'IS', ['1000']], ['DiffusionGradientDirection', 'FD', ['0.7071', '-0.7071', '0.0']],
                  ['TimeAfterStart', 'DS', ['2.5']], ['Empty', 'IS', []], ['ICE_Dims', 'LO', ['X_1_1_1_1_1_1_1_1_1_1_1_41']],
                  ['MosaicRefAcqTimes', 'FD', ['0.0', '1020.0', '50.0', '1070.0']], ['PhaseEncodingDirectionPositive', 'IS', ['1']]]
CSA_SERIES_TAGS = [['UsedPatientWeight', 'IS', ['70']], ['SeriesWorkflowStatus', 'LT', ['com']], ['Isocentered', 'IS', ['1']],
                   ['CoilString', 'LO', ['HE1-4', 'NE1,2']], ['ReadoutOS', 'FD', ['2.0']], ['Empty', 'US', []]]
PHOENIX_LINES = [['sProtConsistencyInfo.tBaselineString', 'N4_VB17A_LATEST'], ['lRepetitions', 3], ['sSliceArray.lSize', 36],
                 ['sSliceArray.asSlice[0].dThickness', 2.5], ['alTR[0]', 2000000], ['sKSpace.ucDimension', 2], ['dFlip', -0.125],
                 ['tSequenceFileName', '%SiemensSeq%\\ep2d_bold'], ['lContrasts', 0]]


def _csa_entry(rng, func):
    if func == 'csa_image_trans_func':
        return {'func': func, 'tags': [list(t) for t in rng.sample(CSA_IMAGE_TAGS, rng.choice([0, 1, 3, 5]))], 'prot': None}
    tags = [list(t) for t in rng.sample(CSA_SERIES_TAGS, rng.choice([0, 1, 3]))]
    prot = [list(x) for x in rng.sample(PHOENIX_LINES, rng.choice([0, 1, 3, 5]))] if rng.random() < 0.7 else None
    return {'func': func, 'tags': tags, 'prot': prot}


# tags with the VR of the DICOM dictionary (a file read back presents every element with its dictionary VR)
FILE_TAGS = [((0x0008, 0x0008), 'CS', 'n'), ((0x0008, 0x0060), 'CS', '1'), ((0x0008, 0x0070), 'LO', '1'), ((0x0008, 0x1080), 'LO', 'n'),
             ((0x0008, 0x0050), 'SH', '1'), ((0x0018, 0x1210), 'SH', 'n'), ((0x0010, 0x1020), 'DS', '1'), ((0x0018, 0x0050), 'DS', '1'),
             ((0x0020, 0x0032), 'DS', 'n'), ((0x0008, 0x2130), 'DS', 'n'), ((0x0008, 0x2122), 'IS', '1'), ((0x0020, 0x0013), 'IS', '1'),
             ((0x0008, 0x1160), 'IS', 'n'), ((0x0028, 0x0010), 'US', '1'), ((0x0010, 0x0028), 'US', 'n'), ((0x0018, 0x9219), 'SS', '1'),
             ((0x0018, 0x9440), 'SS', 'n'), ((0x0018, 0x6020), 'SL', '1'), ((0x0070, 0x0052), 'SL', 'n'), ((0x0008, 0x1161), 'UL', 'n'),
             ((0x0008, 0x0309), 'UL', '1'), ((0x0018, 0x1320), 'FL', '1'), ((0x0018, 0x2044), 'FL', 'n'), ((0x0008, 0x2134), 'FD', '1'),
             ((0x0018, 0x6054), 'FD', 'n'), ((0x0008, 0x0018), 'UI', '1'), ((0x0008, 0x001a), 'UI', 'n'), ((0x0010, 0x0010), 'PN', '1'),
             ((0x0008, 0x1050), 'PN', 'n'), ((0x0008, 0x0020), 'DA', '1'), ((0x0008, 0x0030), 'TM', '1'), ((0x0008, 0x002a), 'DT', '1'),
             ((0x0010, 0x1010), 'AS', '1'), ((0x0020, 0x9165), 'AT', '1'), ((0x0028, 0x0009), 'AT', 'n'), ((0x0008, 0x0055), 'AE', '1'),
             ((0x0008, 0x0054), 'AE', 'n'), ((0x0008, 0x0081), 'ST', '1'), ((0x0008, 0x0108), 'LT', '1'), ((0x0010, 0x0218), 'UT', '1'),
             ((0x0008, 0x0119), 'UC', '1'), ((0x0018, 0x9908), 'UC', 'n'), ((0x0008, 0x0120), 'UR', '1'), ((0x0008, 0x040c), 'UV', '1'),
             ((0x0008, 0x041b), 'OB', '1'), ((0x0066, 0x0016), 'OF', '1'), ((0x0070, 0x150d), 'OD', '1'), ((0x0066, 0x0040), 'OL', '1'),
             ((0x7fe0, 0x0001), 'OV', '1'), ((0x7fe0, 0x0008), 'OF', '1'), ((0x0028, 0x1201), 'OW', '1'), ((0x7fe0, 0x0010), 'OW', '1'), ((0x6000, 0x3000), 'OW', '1')]
FILE_WORDS = ['MR', 'ORIGINAL', 'PRIMARY', 'head scan', 'T1 mprage', 'a', 'Ab c', 'x_y', '0', '12', 'foo.bar']
FILE_DS = ['1.5', '-0.25', '100', '1e2', '0.1', '123456.789', '0', '-0', '2.50', '1E-3', '+7.25', '.5']


def _file_scalar(rng, vr):
    if vr in ('CS',):
        return rng.choice(['MR', 'ORIGINAL', 'PRIMARY', 'M', 'ND'])
    if vr in ('LO', 'SH', 'ST', 'LT', 'UT', 'UC'):
        return rng.choice(FILE_WORDS)
    if vr == 'DS':
        return rng.choice(FILE_DS)
    if vr in ('FL', 'FD'):
        return {'f': rng.choice(['1.5', '0.1', '-2.25', '3.0', '0.0', '1e-07', '123456789.125'])}
    if vr == 'PN':
        return rng.choice(['Doe^John', 'X', 'A^B^C'])
    if vr in ('OB', 'OW', 'OF', 'OL'):
        return {'b': rng.choice([[97, 98, 99, 100], [0, 1, 2, 3], [72, 105, 33, 33], [255, 254, 0, 0]])}
    if vr in ('OD', 'OV'):
        return {'b': rng.choice([[97, 98, 99, 100, 101, 102, 103, 104], [0, 0, 0, 0, 0, 0, 240, 63]])}
    return _scalar(rng, vr)


def _file_elems(rng, n, used, depth=0):
    out = []
    for _ in range(n):
        if depth < 2 and rng.random() < 0.12:
            tag = rng.choice(SEQ_TAGS)
            if tag in used:
                continue
            used.add(tag)
            items = [_file_elems(rng, rng.choice([0, 1, 2, 3]), set(), depth + 1) for _i in range(rng.choice([0, 1, 2]))]
            out.append({'tag': list(tag), 'vr': 'SQ', 'val': {'seq': items}})
            continue
        tag, vr, vm = rng.choice(FILE_TAGS)
        if tag in used:
            continue
        used.add(tag)
        r = rng.random()
        if r < 0.08:
            val = None
        elif r < 0.14 and vr in ('CS', 'LO', 'SH', 'DS', 'IS', 'PN', 'UI', 'DA', 'TM', 'ST', 'LT', 'UT', 'UC', 'AE', 'AS', 'DT', 'UR'):
            val = ''
        elif vm == 'n' and r < 0.7:
            val = [_file_scalar(rng, vr) for _i in range(rng.choice([2, 3, 4]))]
        else:
            val = _file_scalar(rng, vr)
        out.append({'tag': list(tag), 'vr': vr, 'val': val})
    return out


PRIV_NAMES = ['Modality', 'modality', 'foo bar', 'Foo  Bar', 'fooBar', '3d thing', "it's", 'Rows', 'image type', 'a', 'A',
              'Patient ID', 'tab\tsep', ' padded ', 'x-y/z', '[inner]', 'UPPER lower', 'Study  Date']


def _rules_cfg(rng):
    r = rng.random()
    if r < 0.45:
        return None
    if r < 0.6:
        return []
    if r < 0.75:
        return [x for x in RULE_NAMES if x != 'ignore_private']
    rs = [x for x in RULE_NAMES if rng.random() < 0.6]
    rng.shuffle(rs)
    return rs


def _convs_cfg(rng):
    r = rng.random()
    if r < 0.7:
        return None
    if r < 0.8:
        return [list(x) for x in DEFAULT_CONVS] + rng.choice([[['US', 'float']], [['LO', 'unicode_str']], [['SS', 'float'], ['SH', 'str']],
                                                             [['UL', 'int']], [['FD', 'str']], [['US', 'str']]])
    # drop some entries that do not endanger JSON output, or all of them
    if r < 0.92:
        drop = set(rng.sample(['DS', 'IS', 'UI', 'AT'], rng.choice([1, 2, 3])))
        return [list(x) for x in DEFAULT_CONVS if x[0] not in drop]
    return rng.choice([[], [['DS', 'float']], [['IS', 'int'], ['OB', 'get_text']]])


def _f12_case(rng=None, extra=None, slots=(0x10, 0x11), group=0x0029, low=0x01, kind=0):
    elems = [{'tag': [0x0008, 0x0060], 'vr': 'CS', 'val': 'MR'}]
    for s_ in slots:
        elems.append({'tag': [group, s_], 'vr': 'LO', 'val': 'VERIF A'})
    for i, s_ in enumerate(slots):
        elems.append({'tag': [group, (s_ << 8) | low], 'vr': 'LO', 'val': ['first', 'second', 'third'][i % 3]})
        elems.append({'tag': [group, (s_ << 8) | ((low + 1) & 0xff)], 'vr': 'LO', 'val': 'untranslated %d' % i})
    elems += (extra or [])
    return {'kind': 'f12-translator-bound-twice', 'priv_dict': [],
            'cfg': {'rules': None, 'trans': [{'name': 'T1', 'tag': [group, 0x1000 | low], 'creator': 'VERIF A', 'kind': kind}], 'convs': None, 'warn': True},
            'elems': elems}


def gen_cases(rng, tier):
    n = 900 if tier == 'quick' else 8000
    out = [_f12_case()]
    while len(out) < n:
        r = rng.random()
        used = set()
        priv_dict = []
        cfg = {'rules': None, 'trans': None, 'convs': None, 'warn': True}
        if r < 0.22:
            kind = 'standard'
            elems = _std_elems(rng, rng.choice([3, 6, 10, 16]), used)
            cfg['rules'] = _rules_cfg(rng)
            cfg['convs'] = _convs_cfg(rng)
        elif r < 0.48:
            kind = 'private-translators'
            elems = _std_elems(rng, rng.choice([1, 3, 5]), used)
            trans = []
            tnames = ['T1', 'Acme', 'Csa2', 'X9']
            rng.shuffle(tnames)
            creators = list(TEST_CREATORS)
            rng.shuffle(creators)
            nblocks = rng.choice([1, 2, 3])
            bound = set()
            for b in range(nblocks):
                creator = creators[b % len(creators)]
                blk, g, s = _private_block(rng, used, creator, multi_creator=rng.random() < 0.06)
                elems += blk
                # translators for some of the elements of this block (each translator name used once: F12 is a separate stream)
                for e in blk[1:]:
                    if rng.random() < 0.5 and tnames and (creator, e['tag'][1] & 0xff) not in bound:
                        bound.add((creator, e['tag'][1] & 0xff))
                        trans.append({'name': tnames.pop(), 'tag': [g, 0x1000 | (e['tag'][1] & 0xff)], 'creator': creator,
                                      'kind': rng.choice([0, 0, 0, 4, 5, 1, 2, 3])})
            # a translator for an absent creator / absent element
            if rng.random() < 0.3 and tnames:
                trans.append({'name': tnames.pop(), 'tag': [0x0029, 0x1042], 'creator': rng.choice(['NOBODY', creators[0]]), 'kind': 0})
            # keep (creator, low byte) unique: two translators for one slot is the malformed stream
            seen, t2 = set(), []
            for t in trans:
                if (t['creator'], t['tag'][1] & 0xff) not in seen:
                    seen.add((t['creator'], t['tag'][1] & 0xff))
                    t2.append(t)
            # a creator reserving two blocks would bind its translators twice (F12): drop the translators of such creators
            ccount = {}
            for e in elems:
                if e['tag'][0] % 2 == 1 and 0x10 <= e['tag'][1] <= 0xff and isinstance(e['val'], str):
                    ccount[(e['val'])] = ccount.get(e['val'], 0) + 1
            t2 = [t for t in t2 if ccount.get(t['creator'], 0) <= 1]
            cfg['trans'] = t2
            cfg['rules'] = rng.choice([None, None, [], [x for x in RULE_NAMES if x != 'ignore_private']])
            if rng.random() < 0.3:
                priv_dict = [[c, (g0 << 16) | 0x1000 | low, 'LO', rng.choice(PRIV_NAMES)] for c in TEST_CREATORS for g0 in (0x0019, 0x0029)
                             for low in (1, 2, 3) if rng.random() < 0.4]
        elif r < 0.60:
            kind = 'default-csa-translators'
            elems = _std_elems(rng, rng.choice([1, 3]), used)
            g = 0x0029
            slot = _slot(rng)
            used.add((g, slot))
            elems.append({'tag': [g, slot], 'vr': 'LO', 'val': 'SIEMENS CSA HEADER'})
            csa = []
            for low, vr in ((0x08, 'CS'), (0x09, 'LO'), (0x10, 'OB'), (0x18, 'CS'), (0x20, 'OB'), (0x60, 'LO')):
                if rng.random() < 0.7:
                    if vr == 'OB' and rng.random() < 0.6:
                        # a syntactically valid CSA header: the translator succeeds
                        csa.append(_csa_entry(rng, 'csa_image_trans_func' if low == 0x10 else 'csa_series_trans_func'))
                        val = {'csa': len(csa) - 1}
                    elif vr == 'OB':
                        val = {'b': rng.choice([[103, 97, 114, 98, 97, 103, 101], [83, 86, 49, 48], [0, 0, 0, 0], [120]])}
                    else:
                        val = rng.choice(['IMAGE NUM 4', 'MR', '20200101'])
                    elems.append({'tag': [g, (slot << 8) | low], 'vr': vr, 'val': val})
            if rng.random() < 0.4:
                blk, _, _ = _private_block(rng, used, 'SIEMENS MEDCOM HEADER', group=0x0029)
                elems += blk
            cfg['rules'] = rng.choice([None, None, [], ['ignore_pixel_data', 'ignore_private']])
            out.append({'kind': kind, 'priv_dict': priv_dict, 'cfg': cfg, 'elems': elems, 'csa': csa})
            continue
        elif r < 0.66:
            # datasets written to a file (explicit or implicit VR little endian) and read back: raw file elements
            kind = 'file-roundtrip'
            mode = rng.choice(['explicit', 'explicit', 'implicit'])
            elems = _file_elems(rng, rng.choice([3, 6, 10]), used)
            trans = []
            if rng.random() < 0.7:
                creator = rng.choice(TEST_CREATORS)
                g, slot = rng.choice([0x0019, 0x0029, 0x0051]), _slot(rng)
                elems.append({'tag': [g, slot], 'vr': 'LO', 'val': creator})
                for low in rng.sample([0x01, 0x02, 0x03, 0x10, 0xff], rng.choice([1, 2, 3])):
                    vr = rng.choice(['LO', 'CS', 'DS', 'IS', 'US', 'FD', 'OB', 'SH'])
                    v = _file_scalar(rng, vr)
                    elems.append({'tag': [g, (slot << 8) | low], 'vr': vr, 'val': v})
                    if rng.random() < 0.4 and not trans:
                        trans.append({'name': 'T1', 'tag': [g, 0x1000 | low], 'creator': creator, 'kind': rng.choice([0, 5])})
            cfg['trans'] = trans
            cfg['rules'] = rng.choice([None, None, [], [x for x in RULE_NAMES if x != 'ignore_private']])
            cfg['convs'] = rng.choice([None, None, None, [list(x) for x in DEFAULT_CONVS if x[0] not in ('DS',)]])
            out.append({'kind': kind + '-' + mode, 'priv_dict': [], 'cfg': cfg, 'elems': elems, 'via_file': mode})
            continue
        elif r < 0.80:
            kind = 'name-clash'
            elems = _std_elems(rng, rng.choice([2, 4]), used)
            for t, vr, v in (((0x0008, 0x0060), 'CS', 'MR'), ((0x0028, 0x0010), 'US', 4), ((0x0008, 0x0008), 'CS', ['A', 'B']),
                             ((0x0010, 0x0020), 'LO', 'id'), ((0x0008, 0x0020), 'DA', '20200101')):
                if t not in used and rng.random() < 0.6:
                    used.add(t)
                    elems.append({'tag': list(t), 'vr': vr, 'val': v})
            # unknown tags all have the name '' and clash with each other
            for t in UNKNOWN_TAGS[:4]:
                if t not in used and rng.random() < 0.3:
                    used.add(t)
                    elems.append({'tag': list(t), 'vr': 'LO', 'val': 'unk'})
            creators = list(TEST_CREATORS)
            for b in range(rng.choice([1, 2, 3])):
                creator = rng.choice(creators)
                blk, g, s = _private_block(rng, used, creator, group=rng.choice([0x0019, 0x0029]), n=rng.choice([2, 3, 4]))
                elems += blk
            priv_dict = [[c, (g0 << 16) | 0x1000 | low, 'LO', rng.choice(PRIV_NAMES)] for c in TEST_CREATORS for g0 in (0x0019, 0x0029)
                         for low in (1, 2, 3, 8, 0x10, 0x20, 0xff, 0) if rng.random() < 0.6]
            cfg['rules'] = rng.choice([[], [], [x for x in RULE_NAMES if x != 'ignore_private'], None])
            cfg['trans'] = []
        elif r < 0.92:
            kind = 'never-extract'
            elems = _std_elems(rng, rng.choice([1, 3, 5]), used) + _never_elems(rng, rng.choice([2, 4, 6]), used)
            cfg['rules'] = rng.choice([None, None, None, ['ignore_pixel_data', 'ignore_overlay_data', 'ignore_color_lut_data'], _rules_cfg(rng)])
            if rng.random() < 0.3:
                blk, _, _ = _private_block(rng, used, rng.choice(TEST_CREATORS), group=rng.choice([0x6001, 0x7fe1, 0x0029]))
                elems += blk
            cfg['trans'] = rng.choice([None, []])
        elif r < 0.95:
            # the known finding, varied: two or three blocks of one creator at any slots; ignore_private on or off
            #  (off: the untranslated elements of every block must still be judged)
            extra = _std_elems(rng, rng.choice([0, 2]), set([(0x0008, 0x0060)]))
            slots = sorted(rng.sample(range(0x10, 0x100), rng.choice([2, 2, 3])))
            c = _f12_case(extra=extra, slots=slots, group=rng.choice([0x0019, 0x0029]), low=rng.choice([0x01, 0x10, 0xfe]), kind=rng.choice([0, 5]))
            c['cfg']['rules'] = rng.choice([None, [], [x for x in RULE_NAMES if x != 'ignore_private']])
            out.append(c)
            continue
        else:
            kind = 'malformed'
            elems = _std_elems(rng, rng.choice([1, 2]), used)
            m = rng.randrange(3)
            mal = ['text-under-numeric-vr', 'two-translators-one-slot', 'raising-translator-no-warn'][m]
            if m == 0:
                t = rng.choice([(0x0028, 0x0010), (0x0028, 0x0100)])
                elems = [e for e in elems if tuple(e['tag']) != t]
                elems.append({'tag': list(t), 'vr': rng.choice(['US', 'SS', 'UL', 'SL', 'FL', 'FD', 'US or SS']), 'val': rng.choice(['ab', 'abcd', '12'])})
            elif m == 1:
                elems += [{'tag': [0x0029, 0x0010], 'vr': 'LO', 'val': 'VERIF A'}, {'tag': [0x0029, 0x1001], 'vr': 'LO', 'val': 'v'}]
                cfg['trans'] = [{'name': 'T1', 'tag': [0x0029, 0x1001], 'creator': 'VERIF A', 'kind': 0},
                                {'name': 'T2', 'tag': [0x0029, rng.choice([0x1101, 0x2001, 0x1001])], 'creator': 'VERIF A', 'kind': 0}]
            else:
                elems += [{'tag': [0x0029, 0x0010], 'vr': 'LO', 'val': 'VERIF A'}, {'tag': [0x0029, 0x1001], 'vr': 'LO', 'val': 'v'}]
                cfg['trans'] = [{'name': 'T1', 'tag': [0x0029, 0x1001], 'creator': 'VERIF A', 'kind': 3}]
                cfg['warn'] = False
            out.append({'kind': kind, 'malformed': mal, 'priv_dict': priv_dict, 'cfg': cfg, 'elems': elems})
            continue
        out.append({'kind': kind, 'priv_dict': priv_dict, 'cfg': cfg, 'elems': elems})
    return out


CORR_REQUIRE = "From Coq Require Import QArith.\nFrom DV Require Import Common.Str Common.PyNum Extract.Model Extract.Corr."
CORR_CASE_TYPE = "Corr.case"
CORR_CHECK = "Corr.check"
CORR_SHOW = "Corr.show"
NAME = "main"
SHARD = 30
IMPL_TIMEOUT = 20
