"""C15 -- Extraction maps each DICOM element to one key with a faithfully converted value.

Cases are *descriptions* of in-memory pydicom datasets (+ an extractor configuration).  run_impl builds the
dataset, records how pydicom presents every element (tag, VR, VM, keyword, name, value object and its Python
class) -- that abstract list is what the Coq model is fed, so pydicom itself stays outside the model -- and runs
the real MetaExtractor.  The oracle re-states the property in Python on the observation alone."""
import os, sys, json, math

from vlib.coqlit import cstr, cN, cz, cnat, cbool, clist, copt, cpair, cbytes

ID = "C15"
COQ_PROPS = "Props/C15.v"
THEOREMS = ["C15_partition", "C15_never", "C15_never_default", "C15_injective", "C15_injective_refuted_without_hyp",
            "C15_values", "C15_values_conversion", "C15_values_default_numeric", "C15_deterministic",
            "C15_decl_agree", "C15_decl_keys", "C15_decl_pieces", "C15_json_serialisable", "C15_appears",
            "C15_private_enabled", "C15_fuel_total"]
ALLOWED_AXIOMS = []
RULE = ("in-memory pydicom datasets over CS LO SH DS IS US SS UL SL FL FD UI PN DA TM AT OB OW UN SQ(depth<=3) x VM {0,1,n}, "
        "empty/None/blank values, private blocks at reserved slots 0x10..0xff with and without registered translators "
        "(custom deterministic Translator functions, the default CSA translators on non-CSA blobs), name clashes "
        "(equal private names, private name = standard keyword, unknown tags), pixel (PixelData, FloatPixelData OF, DoubleFloatPixelData OD) / overlay / LUT elements, and "
        "configurations of ignore rules / translators / conversions; one F12 case (same creator in two blocks) in every run; "
        "a separate malformed stream (text value under a numeric VR, two translators for one slot, raising translator with "
        "warn_on_trans_except=False).  Non-trivial = at least 3 elements reach the result or an error branch is taken")
TRUSTED_BASE = [
    "pydicom 3 as the provider of each element's tag, VR, VM, keyword, name and value object (inputs of the model, captured per case)",
    "get_text is an input of the model (`c_get_text`); with chardet absent it is instantiated by the printable-ASCII rule of is_ascii",
    "translation functions are inputs of the model (`t_fun`); the test translators of props/c15.py are mirrored in Extract/Corr.v `test_trans_fun`; nibabel's csareader is represented only by 'raises on a blob that is not a CSA header'",
    "floating point values are carried both as exact rationals (Common.PyNum fval, compared with Qeq) and as repr tokens (for str(float) and the sign of zero)",
    "Common/PyNum.v py_float / py_int as models of float(str) / int(str): on every case the check verifies that a single DS / IS value carrying its text (original_string) has the value py_float(text) / py_int(text) -- the hypothesis of C15_values_default_numeric",
    "pydicom names an element 'Private Creator' iff group odd and element in 0x10..0xff (Decl.names_wf, hypothesis of C15_decl_*): verified on every case at every nesting level",
    "'extraction does not alter pixel data' has no content in the (pure) model; it is harness-checked on every case (pixel_same)",
]
ASSUMPTIONS = [
    "Python 3: the struct.unpack branch of _get_elem_value is reachable only with a text value under a numeric VR and then raises TypeError (modelled as EType); byte strings are never unpacked",
    "names used for keys (elements without dictionary keyword) are ASCII; upper-casing of a non-ASCII first letter is outside the model",
    "values: a multi-valued element is a pydicom MultiValue; one-element lists collapse to scalars (pydicom); tuples, empty lists under VRs without a conversion (they stay MultiValue objects), byte strings under numeric VRs are outside the generated domain",
    "injectivity holds under the stated hypotheses only: no plain name equals another clashing name plus its tag suffix, no plain key contains '.', translator names are distinct and dot-free, every translator fires at most once (F12 when violated)",
    "the never-extract guarantee is for configurations that contain the corresponding ignore rule (the default contains all four); pixel data = (7FE0,0008) FloatPixelData, (7FE0,0009) DoubleFloatPixelData, (7FE0,0010) PixelData",
    "observation (behind no_suffix_clash): private names 'foo','foo','foo_0X29_0X1001' at (0029,1001..1003) with ignore_rules=() give 2 keys for 3 elements (the third overwrites Foo_0X29_0X1001)",
    "observation (behind no_dot_keys): a private element named 'T1.Tag' plus a translator T1 returning {'Tag':..}: the plain element's value is overwritten by the translator key",
    "observation: the group of Translator.tag is never compared; a translator declared for (0029,1001) also fires on (0019,1001) when the creator string matches (generators keep the groups equal)",
    "observation: on Python 3 the struct.unpack branch of _get_elem_value never runs for byte strings; a text value under US/SS/UL/SL/FL/FD raises TypeError (malformed stream)",
    "observation (outside the property: empty / non-text values): empty UI, PN, OB/OW/UN values and [] under DS/IS yield key -> [] ; [] under a VR without conversion stays a MultiValue (not JSON serialisable); bytes outside 0x20..0x7e (e.g. text with a newline) in OB/OW/UN are dropped by get_text/is_ascii",
    "JSON-serialisability is checked for configurations whose conversions keep the default get_text / unicode_str entries and for translators returning JSON values",
    "elements whose value is empty (blank text, None, VM 0) or a byte string that is not text are not constrained by the property; the model still predicts what the code does with them",
]

RULE_NAMES = ["ignore_private", "ignore_pixel_data", "ignore_overlay_data", "ignore_color_lut_data"]
RULE_COQ = {"ignore_private": "RPrivate", "ignore_pixel_data": "RPixel", "ignore_overlay_data": "ROverlay",
            "ignore_color_lut_data": "RLut"}
CONV_COQ = {"float": "CvFloat", "int": "CvInt", "str": "CvStr", "unicode_str": "CvStr", "get_text": "CvText"}
DEFAULT_CONVS = [["DS", "float"], ["IS", "int"], ["AT", "str"], ["OW", "get_text"], ["OB", "get_text"],
                 ["OW or OB", "get_text"], ["OB or OW", "get_text"], ["UN", "get_text"], ["PN", "unicode_str"],
                 ["UI", "unicode_str"]]
BYTES_VRS = ("OB", "OW", "UN", "OW or OB", "OB or OW")
TEST_CREATORS = ["VERIF A", "VERIF B", "VERIF C"]

# ------------------------------------------------------------------ test translators (mirrored in Extract/Corr.v)


def _tag_str(tag):
    return '%#X_%#X' % (tag.group, tag.elem)


def _tf0(elem):
    return {'Tag': _tag_str(elem.tag), 'VR': elem.VR}


def _tf1(elem):
    return {}


def _tf2(elem):
    return None


def _tf3(elem):
    raise ValueError('translator refuses')


def _tf4(elem):
    return {'a.b': 1, 'Tag': _tag_str(elem.tag)}


def _tf5(elem):
    return {'VM': int(elem.VM), 'Tag': _tag_str(elem.tag)}


TRANS_FUNCS = {0: _tf0, 1: _tf1, 2: _tf2, 3: _tf3, 4: _tf4, 5: _tf5}

# ------------------------------------------------------------------ building datasets


def _reset_private_dict(entries):
    import pydicom.datadict as dd
    for c in TEST_CREATORS:
        dd.private_dictionaries.pop(c, None)
    for creator, tag, vr, name in entries:
        dd.add_private_dict_entry(creator, tag, vr, name, '1')


def _value(spec):
    from pydicom.dataset import Dataset
    from pydicom.sequence import Sequence
    if isinstance(spec, dict):
        if 'b' in spec:
            return bytes(spec['b'])
        if 'f' in spec:
            return float(spec['f'])
        if 'seq' in spec:
            return Sequence([_build(items) for items in spec['seq']])
        raise ValueError('bad value spec')
    if isinstance(spec, list):
        return [_value(x) for x in spec]
    return spec


def _build(elems):
    from pydicom.dataset import Dataset
    ds = Dataset()
    for e in elems:
        ds.add_new((e['tag'][0], e['tag'][1]), e['vr'], _value(e['val']))
    return ds


def _render(v):
    """Python object -> JSON tree with the Python class name."""
    import pydicom
    from pydicom.sequence import Sequence
    from pydicom.multival import MultiValue
    from pydicom.valuerep import PersonName
    t = type(v).__name__
    if v is None:
        return {'t': 'NoneType'}
    if isinstance(v, bool):
        return {'t': 'other', 'ty': t, 'v': repr(v)}
    if isinstance(v, PersonName):
        return {'t': 'PersonName', 'v': str(v)}
    if isinstance(v, str):
        if t in ('str', 'UID'):
            return {'t': t, 'v': str.__str__(v)}
        return {'t': 'other', 'ty': t, 'v': repr(v)}
    if isinstance(v, int):
        if t in ('int', 'IS', 'BaseTag'):
            return {'t': t, 'v': str(int(v))}
        return {'t': 'other', 'ty': t, 'v': repr(v)}
    if isinstance(v, float):
        if t in ('float', 'DSfloat'):
            f = float(v)
            if math.isnan(f):
                q = 'nan'
            elif math.isinf(f):
                q = 'inf' if f > 0 else '-inf'
            else:
                n, d = f.as_integer_ratio()
                q = [str(n), str(d)]
            return {'t': t, 'v': float.__repr__(f), 'q': q}
        return {'t': 'other', 'ty': t, 'v': repr(v)}
    if isinstance(v, (bytes, bytearray)):
        return {'t': 'bytes', 'v': list(v)}
    if isinstance(v, Sequence):
        return {'t': 'Sequence', 'v': [_listing(item) for item in v]}
    if isinstance(v, MultiValue):
        return {'t': 'MultiValue', 'v': [_render(x) for x in v]}
    if type(v) is list:
        return {'t': 'list', 'v': [_render(x) for x in v]}
    if isinstance(v, dict):
        return {'t': 'dict', 'v': [[k if isinstance(k, str) else repr(k), _render(x)] for k, x in v.items()]}
    return {'t': 'other', 'ty': t, 'v': repr(v)[:80]}


def _listing(ds):
    from pydicom.datadict import keyword_for_tag
    out = []
    for elem in ds:
        raw = getattr(elem.value, 'original_string', None) if type(elem.value).__name__ in ('DSfloat', 'IS') else None
        out.append({'tag': [int(elem.tag.group), int(elem.tag.elem)], 'vr': str(elem.VR), 'vm': int(elem.VM),
                    'kw': keyword_for_tag(elem.tag), 'name': str(elem.name), 'val': _render(elem.value),
                    'raw': raw if isinstance(raw, str) else None})
    return out


def _pixels(ds):
    out = []
    for elem in ds:
        if elem.tag in (0x7fe00008, 0x7fe00009, 0x7fe00010):
            out.append(bytes(elem.value) if elem.value is not None else None)
        elif elem.VR == 'SQ' and elem.value is not None:
            for item in elem.value:
                out += _pixels(item)
    return out


def _extractor(cfg):
    from dcmstack import extract
    import pydicom
    kw = {}
    if cfg.get('rules') is not None:
        kw['ignore_rules'] = tuple(getattr(extract, r) for r in cfg['rules'])
    if cfg.get('trans') is not None:
        kw['translators'] = tuple(extract.Translator(t['name'], pydicom.tag.Tag(t['tag'][0], t['tag'][1]), t['creator'],
                                                     TRANS_FUNCS[t['kind']]) for t in cfg['trans'])
    if cfg.get('convs') is not None:
        kw['conversions'] = dict((vr, getattr(extract, c) if c in ('get_text', 'unicode_str') else {'float': float, 'int': int, 'str': str}[c])
                                 for vr, c in cfg['convs'])
    kw['warn_on_trans_except'] = bool(cfg.get('warn', True))
    return extract.MetaExtractor(**kw)


def _collect_bytes(listing, acc):
    for e in listing:
        v = e['val']
        if v['t'] == 'bytes':
            acc.append(v['v'])
        elif v['t'] == 'Sequence':
            for item in v['v']:
                _collect_bytes(item, acc)


def run_impl(case):
    import warnings
    warnings.simplefilter('ignore')
    from dcmstack import extract
    _reset_private_dict(case.get('priv_dict', []))
    cfg = case['cfg']
    ds_a = _build(case['elems'])
    ds_a.decode()
    listing = _listing(ds_a)
    obs = {'abstract': listing, 'chardet': bool(extract.have_chardet), 'gt': []}
    if extract.have_chardet:
        acc = []
        _collect_bytes(listing, acc)
        seen = set()
        for b in acc:
            if tuple(b) not in seen:
                seen.add(tuple(b))
                obs['gt'].append([b, extract.get_text(bytes(b))])

    def one(ds, ex):
        try:
            return None, ex(ds)
        except ValueError:
            return 'EValue', None
        except TypeError:
            return 'EType', None
        except (KeyError, IndexError, AttributeError) as e:
            return {'KeyError': 'EKey', 'IndexError': 'EIndex', 'AttributeError': 'EAttr'}[type(e).__name__], None
        except Exception as e:
            return 'ECrash', None

    ds1 = _build(case['elems'])
    pix_before = _pixels(ds1)
    ex = _extractor(cfg)
    err, r1 = one(ds1, ex)
    pix_after = _pixels(ds1)
    obs['pixel_same'] = pix_before == pix_after == _pixels(_build(case['elems']))
    ds2 = _build(case['elems'])
    err2, r2 = one(ds2, _extractor(cfg))
    err3, r3 = one(ds1, ex)               # a second call on the same (already decoded) dataset
    if err is not None:
        obs['err'] = err
        obs['deterministic'] = (err2 == err and err3 == err)
        return obs
    obs['result'] = _render(r1)['v']
    obs['deterministic'] = (err2 is None and err3 is None and _render(r2)['v'] == obs['result'] and _render(r3)['v'] == obs['result']
                            and list(r1.keys()) == list(r2.keys()) == list(r3.keys()))
    try:
        json.dumps(r1)
        obs['json_ok'] = True
    except (TypeError, ValueError):
        obs['json_ok'] = False
    return obs


# ------------------------------------------------------------------ Coq literals

def _cval(v):
    t = v['t']
    if t == 'NoneType':
        return 'VNone'
    if t in ('str', 'UID', 'PersonName'):
        return '(VStr %s %s)' % ({'str': 'CStr', 'UID': 'CUid', 'PersonName': 'CPn'}[t], cstr(v['v']))
    if t in ('int', 'IS', 'BaseTag'):
        return '(VInt %s %s)' % ({'int': 'CInt', 'IS': 'CIs', 'BaseTag': 'CTag'}[t], cz(int(v['v'])))
    if t in ('float', 'DSfloat'):
        q = v['q']
        fv = 'FNan' if q == 'nan' else '(FInf false)' if q == 'inf' else '(FInf true)' if q == '-inf' else '(FFin (%s # %s))' % (q[0] if int(q[0]) >= 0 else '(%s)' % q[0], q[1])
        return '(VNum %s %s %s)' % ({'float': 'CFloat', 'DSfloat': 'CDs'}[t], fv, cstr(v['v']))
    if t == 'bytes':
        return '(VBytes %s)' % cbytes(bytes(v['v']))
    if t in ('list', 'MultiValue'):
        return '(VMulti %s %s)' % ({'list': 'CList', 'MultiValue': 'CMulti'}[t], clist(_cval(x) for x in v['v']))
    if t == 'Sequence':
        return '(VSeq %s)' % clist(_cds(item) for item in v['v'])
    if t == 'dict':
        return '(VDict %s)' % _cdict(v['v'])
    return '(VOpaque %s %s)' % (cstr(v.get('ty', '?')), cstr(v.get('v', '')))


def _cdict(kvs):
    return clist(cpair(cstr(k), _cval(x)) for k, x in kvs)


def _cds(listing):
    return clist('(mk_einfo (%s, %s) %s %s %s %s %s, %s)' % (cN(e['tag'][0]), cN(e['tag'][1]), cstr(e['vr']), cnat(e['vm']),
                                                            cstr(e['kw']), cstr(e['name']), copt(e.get('raw'), cstr), _cval(e['val']))
                 for e in listing)


def coq_case(case, obs):
    cfg = case['cfg']
    if 'abstract' not in obs:     # the runner itself failed: a case the model cannot agree with
        return 'mk_case None None None true [] [] (Err EMissingExt)'
    rules = copt(cfg.get('rules'), lambda rs: clist(RULE_COQ[r] for r in rs))
    trans = copt(cfg.get('trans'), lambda ts: clist('mk_tspec %s (%s, %s) %s %s' % (cstr(t['name']), cN(t['tag'][0]), cN(t['tag'][1]),
                                                                                   cstr(t['creator']), cnat(t['kind'])) for t in ts))
    convs = copt(cfg.get('convs'), lambda cs: clist(cpair(cstr(vr), CONV_COQ[c]) for vr, c in cs))
    gt = clist(cpair(cbytes(bytes(b)), copt(s, cstr)) for b, s in obs.get('gt', []))
    if 'err' in obs:
        o = '(Err %s)' % obs['err']
    elif 'result' in obs:
        o = '(Ok %s)' % _cdict(obs['result'])
    else:
        o = '(Err EMissingExt)'
    return 'mk_case %s %s %s %s %s %s %s' % (rules, trans, convs, cbool(bool(cfg.get('warn', True))), gt, _cds(obs['abstract']), o)


# ------------------------------------------------------------------ the property, re-stated on the observation

def _is_space(c):
    return c.isspace()


def _camel(name):
    if name.startswith('[') and name.endswith(']'):
        name = name[1:-1]
    return ''.join(t[0].upper() + t[1:] for t in name.split())


def _base_key(e):
    return e['kw'] if e['kw'] else _camel(e['name'])


def _rule_hits(rules, tag):
    g, el = tag
    hit = False
    if 'ignore_private' in rules and g % 2 == 1:
        hit = True
    if 'ignore_pixel_data' in rules and g == 0x7fe0 and el in (0x0008, 0x0009, 0x0010):
        hit = True
    if 'ignore_overlay_data' in rules and 0x6000 <= g <= 0x60ff and el == 0x3000:
        hit = True
    if 'ignore_color_lut_data' in rules and g == 0x0028 and el in (0x1201, 0x1202, 0x1203, 0x1221, 0x1222, 0x1223):
        hit = True
    return hit


def _never_rule(tag):
    g, el = tag
    if g == 0x7fe0 and el in (0x0008, 0x0009, 0x0010):
        return 'ignore_pixel_data'
    if 0x6000 <= g <= 0x60ff and el == 0x3000:
        return 'ignore_overlay_data'
    if g == 0x0028 and el in (0x1201, 0x1202, 0x1203, 0x1221, 0x1222, 0x1223):
        return 'ignore_color_lut_data'
    return None


def _is_empty(e):
    v = e['val']
    if v['t'] == 'NoneType' or e['vm'] == 0:
        return True
    if v['t'] in ('str', 'UID', 'PersonName') and v['v'].strip() == '':
        return True
    if v['t'] == 'Sequence' and len(v['v']) == 0:
        return True
    return False


def _is_text_bytes(b):
    return all(32 <= c <= 126 for c in b)


class _Fail(Exception):
    pass


def _trans_specs(cfg):
    if cfg.get('trans') is None:
        return [{'name': 'CsaImage', 'tag': [0x29, 0x1010], 'creator': 'SIEMENS CSA HEADER', 'kind': 99},
                {'name': 'CsaSeries', 'tag': [0x29, 0x1020], 'creator': 'SIEMENS CSA HEADER', 'kind': 99}]
    return cfg['trans']


def _claims(listing, cfg):
    """tag -> translator spec, by the DICOM private block rule: creator C in (g,00bb) reserves (g,bbxx)."""
    out = {}
    for e in listing:
        g, el = e['tag']
        if g % 2 == 1 and 0x10 <= el <= 0xff and e['val']['t'] == 'str':
            for t in _trans_specs(cfg):
                if t['creator'] == e['val']['v']:
                    out[(g, (el << 8) | (t['tag'][1] & 0xff))] = t
    return out


def _expect_scalar(vr, raw, got, convs, where):
    """raw: rendered input scalar; got: rendered output scalar."""
    conv = dict(convs).get(vr)
    rt, gt_ = raw['t'], got['t']
    if conv == 'float':
        if gt_ != 'float':
            raise _Fail('wrong-type: %s: %s value extracted as %s, expected float' % (where, vr, gt_))
        if rt in ('DSfloat', 'float') and got['v'] != raw['v']:
            raise _Fail('wrong-value: %s: %s extracted as %s' % (where, raw['v'], got['v']))
        if rt in ('int', 'IS') and float(got['v']) != float(int(raw['v'])):
            raise _Fail('wrong-value: %s: %s extracted as %s' % (where, raw['v'], got['v']))
    elif conv == 'int':
        if gt_ != 'int':
            raise _Fail('wrong-type: %s: %s value extracted as %s, expected int' % (where, vr, gt_))
        if rt in ('int', 'IS') and got['v'] != raw['v']:
            raise _Fail('wrong-value: %s: %s extracted as %s' % (where, raw['v'], got['v']))
    elif conv in ('str', 'unicode_str'):
        if gt_ != 'str':
            raise _Fail('wrong-type: %s: %s value extracted as %s, expected str' % (where, vr, gt_))
        if rt in ('str', 'UID', 'PersonName') and got['v'] != raw['v']:
            raise _Fail('wrong-value: %s: %r extracted as %r' % (where, raw['v'], got['v']))
    elif conv == 'get_text':
        if rt == 'bytes':
            if gt_ != 'str' or got['v'] != bytes(raw['v']).decode('ascii'):
                raise _Fail('wrong-value: %s: text bytes extracted as %s %r' % (where, gt_, got.get('v')))
    else:
        # no conversion: the value itself
        same_class = {'str': 'str', 'int': 'int', 'float': 'float'}
        if rt in same_class:
            if gt_ != rt or got['v'] != raw['v']:
                raise _Fail('wrong-value: %s: %s %r extracted as %s %r' % (where, rt, raw['v'], gt_, got.get('v')))
        elif rt in ('UID', 'IS', 'DSfloat', 'BaseTag'):
            if got.get('v') != raw['v']:
                raise _Fail('wrong-value: %s: %r extracted as %r' % (where, raw['v'], got.get('v')))


def _check_level(listing, result, cfg, where):
    """result: rendered dict (list of [key, rendered value]).  Raises _Fail."""
    rules = RULE_NAMES if cfg.get('rules') is None else cfg['rules']
    convs = DEFAULT_CONVS if cfg.get('convs') is None else cfg['convs']
    keys = [k for k, _ in result]
    if len(set(keys)) != len(keys):
        raise _Fail('duplicate-key: %s' % where)
    res = dict((k, v) for k, v in result)
    claims = _claims(listing, cfg)
    required, exempt, translated = [], [], []
    for e in listing:
        tag = tuple(e['tag'])
        v = e['val']
        if v['t'] == 'str' and v['v'].strip() == '':
            continue                                   # blank text: nothing is expected, nothing allowed
        if tag in claims:
            translated.append((e, claims[tag]))
            continue
        if _rule_hits(rules, tag):
            continue
        if _is_empty(e):
            exempt.append(e)
        elif v['t'] == 'bytes' and dict(convs).get(e['vr']) == 'get_text' and not _is_text_bytes(v['v']):
            exempt.append(e)                           # binary data is not text: get_text drops it by design
        elif v['t'] == 'other':
            exempt.append(e)
        else:
            required.append(e)
    n_req, n_ex = {}, {}
    for e in required:
        n_req[_base_key(e)] = n_req.get(_base_key(e), 0) + 1
    for e in exempt:
        n_ex[_base_key(e)] = n_ex.get(_base_key(e), 0) + 1
    allowed = set()
    for e in exempt:
        b = _base_key(e)
        allowed.add(b)
        allowed.add(b + '_' + '%#X_%#X' % tuple(e['tag']))
    # translated elements: every key the translation function returns must be there, prefixed
    by_name = {}
    for e, t in translated:
        by_name.setdefault(t['name'], []).append(e)
    for e, t in translated:
        f = TRANS_FUNCS.get(t['kind'])
        exp = None
        if f is not None:
            class _E:                                   # what the test translation functions look at
                pass
            import collections
            T = collections.namedtuple('T', 'group elem')
            x = _E()
            x.tag, x.VR, x.VM = T(e['tag'][0], e['tag'][1]), e['vr'], e['vm']
            try:
                exp = f(x)
            except ValueError:
                exp = None
        for k, val in (exp or {}).items():
            key = '%s.%s' % (t['name'], k)
            allowed.add(key)
            got = res.get(key)
            ok = got is not None and got.get('v') == (str(val) if isinstance(val, int) else val)
            if not ok:
                if len(by_name[t['name']]) > 1:
                    raise _Fail('translator-bound-twice: %s: translator %s is bound to %d elements; the translation of (%04X,%04X) is lost (key %s is %r)'
                                % (where, t['name'], len(by_name[t['name']]), e['tag'][0], e['tag'][1], key, got and got.get('v')))
                raise _Fail('translated-element-lost: %s: key %s of (%04X,%04X) is %r' % (where, key, e['tag'][0], e['tag'][1], got and got.get('v')))
    # surviving elements: exactly one key each
    for e in required:
        b = _base_key(e)
        tagged = b + '_' + '%#X_%#X' % tuple(e['tag'])
        w = '%s(%04X,%04X)' % (where, e['tag'][0], e['tag'][1])
        if n_req[b] >= 2:
            cands = [tagged]
        elif n_ex.get(b, 0) == 0:
            cands = [b]
        else:
            cands = [b, tagged]
        present = [k for k in cands if k in res]
        if n_req[b] >= 2 and b in res and b not in allowed:
            # a clashing name must not also appear bare
            raise _Fail('clash-not-disambiguated: %s: key %r is used bare although %d elements carry that name' % (w, b, n_req[b]))
        if len(present) != 1:
            raise _Fail('element-not-mapped: %s %s %s: expected exactly one of the keys %r, found %r' % (w, e['vr'], e['val']['t'], cands, present))
        key = present[0]
        allowed.add(key)
        got = res[key]
        v = e['val']
        if v['t'] == 'Sequence':
            if got['t'] != 'list' or len(got['v']) != len(v['v']):
                raise _Fail('wrong-type: %s: sequence of %d items extracted as %s' % (w, len(v['v']), got['t']))
            for i, (item, sub) in enumerate(zip(v['v'], got['v'])):
                if sub['t'] != 'dict':
                    raise _Fail('wrong-type: %s: sequence item extracted as %s' % (w, sub['t']))
                _check_level(item, sub['v'], cfg, '%s[%d].' % (w, i))
        elif e['vm'] > 1:
            if got['t'] != 'list' or v['t'] != 'MultiValue' or len(got['v']) != len(v['v']):
                raise _Fail('wrong-type: %s: VM %d value extracted as %s' % (w, e['vm'], got['t']))
            for raw, g1 in zip(v['v'], got['v']):
                _expect_scalar(e['vr'], raw, g1, convs, w)
        else:
            if got['t'] in ('list', 'MultiValue'):
                raise _Fail('wrong-type: %s: single value extracted as %s' % (w, got['t']))
            _expect_scalar(e['vr'], v, got, convs, w)
    for k in keys:
        if k not in allowed:
            raise _Fail('unexpected-key: %s: key %r does not come from any extractable element' % (where, k))
    # never-extract tags (also covered by unexpected-key; stated separately because the property does)
    for e in listing:
        r = _never_rule(tuple(e['tag']))
        if r and r in rules and tuple(e['tag']) not in claims:
            b = _base_key(e)
            for k in (b, b + '_' + '%#X_%#X' % tuple(e['tag'])):
                if k in res and n_req.get(b, 0) == 0:
                    raise _Fail('never-extract: %s: %s of (%04X,%04X) is in the result' % (where, k, e['tag'][0], e['tag'][1]))


def _json_expected(listing, cfg):
    convs = dict(DEFAULT_CONVS if cfg.get('convs') is None else cfg['convs'])
    for vr, c in DEFAULT_CONVS:
        if c in ('get_text', 'unicode_str') and convs.get(vr) not in ('get_text', 'unicode_str', 'str'):
            return False
    return True


def _has_other(listing):
    for e in listing:
        v = e['val']
        if v['t'] == 'other' or (v['t'] == 'MultiValue' and e['vm'] == 0) or (v['t'] == 'bytes' and e['vr'] not in BYTES_VRS):
            return True
        if v['t'] == 'Sequence' and any(_has_other(i) for i in v['v']):
            return True
    return False


def oracle(case, obs):
    try:
        if not isinstance(obs, dict) or 'crash' in obs or 'abstract' not in obs:
            if case.get('kind') == 'malformed':
                return None
            return 'crash: implementation runner: %s' % (obs.get('crash') if isinstance(obs, dict) else obs)
        if case.get('kind') == 'malformed':
            return None
        if 'err' in obs:
            return 'raised: extraction of a well-formed dataset raised %s' % obs['err']
        if not obs.get('pixel_same', False):
            return 'pixel-changed: PixelData differs after extraction'
        if not obs.get('deterministic', False):
            return 'non-deterministic: two extractions of the same dataset differ'
        try:
            _check_level(obs['abstract'], obs['result'], case['cfg'], '')
        except _Fail as f:
            return str(f)
        if not obs.get('json_ok', False) and _json_expected(obs['abstract'], case['cfg']) and not _has_other(obs['abstract']):
            return 'not-json: the result is not JSON serialisable'
        return None
    except Exception as e:        # never raise
        return 'oracle-error: %s: %s' % (type(e).__name__, e)


def signature(case, obs, msg):
    return msg.split(':')[0]


def nontrivial(case, obs):
    if not isinstance(obs, dict):
        return False
    if 'err' in obs:
        return True
    return len(obs.get('result', [])) >= 3


def shrink(case):
    elems = case['elems']
    for i in range(len(elems)):
        c = dict(case)
        c['elems'] = elems[:i] + elems[i + 1:]
        yield c
    for i, e in enumerate(elems):
        v = e['val']
        if isinstance(v, dict) and 'seq' in v:
            for j in range(len(v['seq'])):
                c = dict(case)
                e2 = dict(e)
                e2['val'] = {'seq': v['seq'][:j] + v['seq'][j + 1:]}
                c['elems'] = elems[:i] + [e2] + elems[i + 1:]
                yield c
        elif isinstance(v, list) and len(v) > 2:
            c = dict(case)
            e2 = dict(e)
            e2['val'] = v[:2]
            c['elems'] = elems[:i] + [e2] + elems[i + 1:]
            yield c
    cfg = case['cfg']
    if cfg.get('trans'):
        for i in range(len(cfg['trans'])):
            c = dict(case)
            c['cfg'] = dict(cfg, trans=cfg['trans'][:i] + cfg['trans'][i + 1:])
            yield c
    if case.get('priv_dict'):
        for i in range(len(case['priv_dict'])):
            c = dict(case)
            c['priv_dict'] = case['priv_dict'][:i] + case['priv_dict'][i + 1:]
            yield c


# ------------------------------------------------------------------ generators

STD_TAGS = [  # tags with a dictionary keyword (any VR may be put on them: add_new takes the VR explicitly)
    (0x0008, 0x0008), (0x0008, 0x0016), (0x0008, 0x0018), (0x0008, 0x0020), (0x0008, 0x0021), (0x0008, 0x0030),
    (0x0008, 0x0031), (0x0008, 0x0050), (0x0008, 0x0060), (0x0008, 0x0070), (0x0008, 0x0080), (0x0008, 0x0090),
    (0x0008, 0x1010), (0x0008, 0x1030), (0x0008, 0x103e), (0x0008, 0x1090), (0x0010, 0x0010), (0x0010, 0x0020),
    (0x0010, 0x0030), (0x0010, 0x0040), (0x0010, 0x1010), (0x0010, 0x1030), (0x0018, 0x0020), (0x0018, 0x0021),
    (0x0018, 0x0050), (0x0018, 0x0080), (0x0018, 0x0081), (0x0018, 0x0083), (0x0018, 0x0088), (0x0018, 0x0091),
    (0x0018, 0x1020), (0x0018, 0x1310), (0x0018, 0x1314), (0x0018, 0x9087), (0x0018, 0x9089), (0x0020, 0x000d),
    (0x0020, 0x000e), (0x0020, 0x0011), (0x0020, 0x0012), (0x0020, 0x0013), (0x0020, 0x0032), (0x0020, 0x0037),
    (0x0020, 0x0052), (0x0020, 0x1041), (0x0028, 0x0002), (0x0028, 0x0004), (0x0028, 0x0010), (0x0028, 0x0011),
    (0x0028, 0x0030), (0x0028, 0x0100), (0x0028, 0x0101), (0x0028, 0x0106), (0x0028, 0x1050), (0x0028, 0x1051),
    (0x0028, 0x1052), (0x0028, 0x1053), (0x0040, 0x0244), (0x0040, 0x0245), (0x0020, 0x5000), (0x0028, 0x0009),
]
SEQ_TAGS = [(0x0008, 0x1110), (0x0008, 0x1140), (0x0008, 0x2112), (0x0040, 0x0275), (0x5200, 0x9229), (0x5200, 0x9230),
            (0x0018, 0x9117), (0x0088, 0x0200)]
UNKNOWN_TAGS = [(0x0018, 0x1313), (0x0008, 0x1051), (0x0020, 0x5001), (0x0012, 0x7777), (0x6000, 0x0010), (0x6002, 0x0011)]
NEVER_TAGS = [((0x7fe0, 0x0010), 'OW'), ((0x7fe0, 0x0008), 'OF'), ((0x7fe0, 0x0009), 'OD'), ((0x7fe0, 0x0010), 'OB'), ((0x6000, 0x3000), 'OW'), ((0x6002, 0x3000), 'OB'), ((0x60fe, 0x3000), 'OW'),
              ((0x0028, 0x1201), 'OW'), ((0x0028, 0x1202), 'OW'), ((0x0028, 0x1203), 'OW'), ((0x0028, 0x1221), 'OW'),
              ((0x0028, 0x1222), 'OW'), ((0x0028, 0x1223), 'OW')]
NEAR_NEVER_TAGS = [((0x0028, 0x1101), 'US'), ((0x0028, 0x1200), 'OW'), ((0x0028, 0x1204), 'OW'), ((0x6000, 0x3001), 'OW'), ((0x5fff, 0x3000), 'OW'),
                   ((0x6100, 0x3000), 'OW'), ((0x7fe0, 0x0011), 'OW'), ((0x7fe0, 0x0007), 'OW'), ((0x7fe0, 0x000a), 'OB'), ((0x7fe1, 0x0010), 'LO')]
SCALAR_VRS = ['CS', 'LO', 'SH', 'DS', 'IS', 'US', 'SS', 'UL', 'SL', 'FL', 'FD', 'UI', 'PN', 'DA', 'TM', 'AT', 'OB', 'OW', 'UN',
              'US or SS', 'ST', 'LT', 'AS', 'DT']
WORDS = ['MR', 'ORIGINAL', 'PRIMARY', 'M', 'ND', 'NORM', 'head scan', 'T1 mprage', 'a', 'Ab c', ' lead', 'trail ', 'x_y', 'café',
         'Köln', '0', '12', 'foo.bar', 'A^B', '日本']
DS_STRS = ['1.5', '-0.25', '100', '1e2', '0.1', '123456.789', '3.14159265358979', '0', '-0', '2.50', '1E-3', '+7.25', '.5', '12345678.9012345', '0.30000000000000004']
IS_STRS = ['7', '-12', '0', '2147483647', '+5', '0012']
FLOATS = ['1.5', '0.1', '-2.25', '1e+20', '3.0', '0.0', '-0.0', '1e-07', 'inf', 'nan', '123456789.125']
BYTES = [[97, 98, 99], [32, 126], [72, 105, 32, 116, 104, 101, 114, 101], [0, 1, 2, 3], [255, 254], [97, 10, 98], [127], [], [65], [195, 169]]


def _scalar(rng, vr):
    if vr in ('CS', 'LO', 'SH', 'ST', 'LT'):
        return rng.choice(WORDS)
    if vr == 'AS':
        return rng.choice(['030Y', '012M'])
    if vr == 'DT':
        return rng.choice(['20200101101010', '20191231235959.123456'])
    if vr == 'DS':
        return rng.choice(DS_STRS)
    if vr == 'IS':
        return rng.choice(IS_STRS)
    if vr in ('US', 'UL', 'US or SS'):
        return rng.choice([0, 1, 4, 255, 65535])
    if vr in ('SS', 'SL'):
        return rng.choice([0, -1, 3, -32768, 32767])
    if vr in ('FL', 'FD'):
        return {'f': rng.choice(FLOATS)}
    if vr == 'UI':
        return rng.choice(['1.2.840.10008.1.2', '1.2.3', '2.25.1234567890'])
    if vr == 'PN':
        return rng.choice(['Doe^John', 'Müller^Hans', 'X', 'Yamada^Tarou=山田^太郎'])
    if vr == 'DA':
        return rng.choice(['20200101', '19991231'])
    if vr == 'TM':
        return rng.choice(['101010', '101010.500000', '0930'])
    if vr == 'AT':
        return rng.choice([0x00080010, 0x7fe00010, 0x00291010, 0])
    if vr in ('OB', 'OW', 'UN'):
        return {'b': rng.choice(BYTES)}
    raise ValueError(vr)


def _elem_value(rng, vr):
    """value spec with VM 0 / 1 / n and the empty forms"""
    r = rng.random()
    if r < 0.07:
        return None
    if r < 0.13 and vr not in ('OB', 'OW', 'UN', 'AT', 'FL', 'FD', 'US', 'SS', 'UL', 'SL', 'US or SS'):
        return rng.choice(['', ' ', '  '])
    if r < 0.16 and vr in ('DS', 'IS', 'UI', 'PN'):
        return []
    if r < 0.45 and vr not in ('OB', 'OW', 'UN', 'ST', 'LT'):
        n = rng.choice([2, 2, 3, 4, 6])
        return [_scalar(rng, vr) for _ in range(n)]
    return _scalar(rng, vr)


def _std_elems(rng, n, used, depth=0):
    out = []
    for _ in range(n):
        r = rng.random()
        if r < 0.12 and depth < 3:
            tag = rng.choice(SEQ_TAGS)
            if tag in used:
                continue
            used.add(tag)
            nitems = rng.choice([0, 1, 1, 2, 3])
            items = []
            for _i in range(nitems):
                iu = set()
                sub = _std_elems(rng, rng.choice([0, 1, 2, 3]), iu, depth + 1)
                if rng.random() < 0.25:
                    sub += _never_elems(rng, 1, iu)
                if rng.random() < 0.25:
                    sub += _private_block(rng, iu, rng.choice(TEST_CREATORS + ['SIEMENS CSA HEADER']))[0]
                items.append(sub)
            out.append({'tag': list(tag), 'vr': 'SQ', 'val': {'seq': items}})
            continue
        tag = rng.choice(UNKNOWN_TAGS) if r < 0.2 else rng.choice(STD_TAGS)
        if tag in used:
            continue
        used.add(tag)
        vr = rng.choice(SCALAR_VRS)
        if vr == 'UN' and tag not in UNKNOWN_TAGS[:4]:
            vr = 'OB'        # pydicom re-interprets UN on a public (or repeating-group) tag with its dictionary VR
        out.append({'tag': list(tag), 'vr': vr, 'val': _elem_value(rng, vr)})
    return out


def _never_elems(rng, n, used):
    out = []
    for _ in range(n):
        tag, vr = rng.choice(NEVER_TAGS + NEVER_TAGS + NEAR_NEVER_TAGS)
        if tag in used:
            continue
        used.add(tag)
        if vr in ('OW', 'OB'):
            val = {'b': rng.choice([[0, 1, 2, 3], [97, 98, 99, 100], [255, 0], [80, 73, 88]])}
        elif vr == 'OF':
            val = {'b': rng.choice([[0, 0, 128, 63], [0, 0, 128, 63, 0, 0, 0, 64], [97, 98, 99, 100]])}
        elif vr == 'OD':
            val = {'b': rng.choice([[0, 0, 0, 0, 0, 0, 240, 63], [97, 98, 99, 100, 101, 102, 103, 104]])}
        elif vr == 'US':
            val = [256, 0, 16]
        else:
            val = 'text'
        out.append({'tag': list(tag), 'vr': vr, 'val': val})
    return out


def _private_block(rng, used, creator, group=None, slot=None, n=None, multi_creator=False):
    group = group if group is not None else rng.choice([0x0009, 0x0019, 0x0021, 0x0029, 0x0029, 0x0051, 0x7fe1])
    slot = slot if slot is not None else rng.choice([0x10, 0x10, 0x11, 0x12, 0x7f, 0xe0, 0xff])
    if (group, slot) in used:
        return [], group, slot
    used.add((group, slot))
    out = [{'tag': [group, slot], 'vr': 'LO', 'val': [creator, 'X'] if multi_creator else creator}]
    n = n if n is not None else rng.choice([1, 2, 3, 4])
    for _ in range(n):
        low = rng.choice([0x01, 0x02, 0x03, 0x08, 0x10, 0x20, 0xff, 0x00])
        tag = (group, (slot << 8) | low)
        if tag in used:
            continue
        used.add(tag)
        vr = rng.choice(['LO', 'CS', 'OB', 'UN', 'DS', 'IS', 'US', 'FD', 'SH'])
        val = _elem_value(rng, vr)
        out.append({'tag': list(tag), 'vr': vr, 'val': val})
    return out, group, slot


PRIV_NAMES = ['Modality', 'modality', 'foo bar', 'Foo  Bar', 'fooBar', '3d thing', "it's", 'Rows', 'image type', 'a', 'A',
              'Patient ID', 'tab\tsep', ' padded ', 'x-y/z', '[inner]', 'UPPER lower', 'Study  Date']


def _rules_cfg(rng):
    r = rng.random()
    if r < 0.45:
        return None
    if r < 0.6:
        return []
    if r < 0.75:
        return [x for x in RULE_NAMES if x != 'ignore_private']
    rs = [x for x in RULE_NAMES if rng.random() < 0.6]
    rng.shuffle(rs)
    return rs


def _convs_cfg(rng):
    r = rng.random()
    if r < 0.7:
        return None
    if r < 0.8:
        return [list(x) for x in DEFAULT_CONVS] + rng.choice([[['US', 'float']], [['LO', 'unicode_str']], [['SS', 'float'], ['SH', 'str']],
                                                             [['UL', 'int']], [['FD', 'str']], [['US', 'str']]])
    # drop some entries that do not endanger JSON output, or all of them
    if r < 0.92:
        drop = set(rng.sample(['DS', 'IS', 'UI', 'AT'], rng.choice([1, 2, 3])))
        return [list(x) for x in DEFAULT_CONVS if x[0] not in drop]
    return rng.choice([[], [['DS', 'float']], [['IS', 'int'], ['OB', 'get_text']]])


def _f12_case(rng=None, extra=None):
    elems = [
        {'tag': [0x0008, 0x0060], 'vr': 'CS', 'val': 'MR'},
        {'tag': [0x0029, 0x0010], 'vr': 'LO', 'val': 'VERIF A'},
        {'tag': [0x0029, 0x0011], 'vr': 'LO', 'val': 'VERIF A'},
        {'tag': [0x0029, 0x1001], 'vr': 'LO', 'val': 'first'},
        {'tag': [0x0029, 0x1101], 'vr': 'LO', 'val': 'second'},
    ] + (extra or [])
    return {'kind': 'f12-translator-bound-twice', 'priv_dict': [],
            'cfg': {'rules': None, 'trans': [{'name': 'T1', 'tag': [0x0029, 0x1001], 'creator': 'VERIF A', 'kind': 0}], 'convs': None, 'warn': True},
            'elems': elems}


def gen_cases(rng, tier):
    n = 900 if tier == 'quick' else 8000
    out = [_f12_case()]
    while len(out) < n:
        r = rng.random()
        used = set()
        priv_dict = []
        cfg = {'rules': None, 'trans': None, 'convs': None, 'warn': True}
        if r < 0.22:
            kind = 'standard'
            elems = _std_elems(rng, rng.choice([3, 6, 10, 16]), used)
            cfg['rules'] = _rules_cfg(rng)
            cfg['convs'] = _convs_cfg(rng)
        elif r < 0.50:
            kind = 'private-translators'
            elems = _std_elems(rng, rng.choice([1, 3, 5]), used)
            trans = []
            tnames = ['T1', 'Acme', 'Csa2', 'X9']
            rng.shuffle(tnames)
            creators = list(TEST_CREATORS)
            rng.shuffle(creators)
            nblocks = rng.choice([1, 2, 3])
            bound = set()
            for b in range(nblocks):
                creator = creators[b % len(creators)]
                blk, g, s = _private_block(rng, used, creator, multi_creator=rng.random() < 0.06)
                elems += blk
                # translators for some of the elements of this block (each translator name used once: F12 is a separate stream)
                for e in blk[1:]:
                    if rng.random() < 0.5 and tnames and (creator, e['tag'][1] & 0xff) not in bound:
                        bound.add((creator, e['tag'][1] & 0xff))
                        trans.append({'name': tnames.pop(), 'tag': [g, 0x1000 | (e['tag'][1] & 0xff)], 'creator': creator,
                                      'kind': rng.choice([0, 0, 0, 4, 5, 1, 2, 3])})
            # a translator for an absent creator / absent element
            if rng.random() < 0.3 and tnames:
                trans.append({'name': tnames.pop(), 'tag': [0x0029, 0x1042], 'creator': rng.choice(['NOBODY', creators[0]]), 'kind': 0})
            # keep (creator, low byte) unique: two translators for one slot is the malformed stream
            seen, t2 = set(), []
            for t in trans:
                if (t['creator'], t['tag'][1] & 0xff) not in seen:
                    seen.add((t['creator'], t['tag'][1] & 0xff))
                    t2.append(t)
            # a creator reserving two blocks would bind its translators twice (F12): drop the translators of such creators
            ccount = {}
            for e in elems:
                if e['tag'][0] % 2 == 1 and 0x10 <= e['tag'][1] <= 0xff and isinstance(e['val'], str):
                    ccount[(e['val'])] = ccount.get(e['val'], 0) + 1
            t2 = [t for t in t2 if ccount.get(t['creator'], 0) <= 1]
            cfg['trans'] = t2
            cfg['rules'] = rng.choice([None, None, [], [x for x in RULE_NAMES if x != 'ignore_private']])
            if rng.random() < 0.3:
                priv_dict = [[c, (g0 << 16) | 0x1000 | low, 'LO', rng.choice(PRIV_NAMES)] for c in TEST_CREATORS for g0 in (0x0019, 0x0029)
                             for low in (1, 2, 3) if rng.random() < 0.4]
        elif r < 0.62:
            kind = 'default-csa-translators'
            elems = _std_elems(rng, rng.choice([1, 3]), used)
            g = 0x0029
            slot = rng.choice([0x10, 0x11, 0xe0])
            used.add((g, slot))
            elems.append({'tag': [g, slot], 'vr': 'LO', 'val': 'SIEMENS CSA HEADER'})
            for low, vr in ((0x08, 'CS'), (0x09, 'LO'), (0x10, 'OB'), (0x18, 'CS'), (0x20, 'OB'), (0x60, 'LO')):
                if rng.random() < 0.7:
                    val = {'b': rng.choice([[103, 97, 114, 98, 97, 103, 101], [83, 86, 49, 48], [0, 0, 0, 0], [120]])} if vr == 'OB' else rng.choice(['IMAGE NUM 4', 'MR', '20200101'])
                    elems.append({'tag': [g, (slot << 8) | low], 'vr': vr, 'val': val})
            if rng.random() < 0.4:
                blk, _, _ = _private_block(rng, used, 'SIEMENS MEDCOM HEADER', group=0x0029)
                elems += blk
            cfg['rules'] = rng.choice([None, None, [], ['ignore_pixel_data', 'ignore_private']])
        elif r < 0.80:
            kind = 'name-clash'
            elems = _std_elems(rng, rng.choice([2, 4]), used)
            for t, vr, v in (((0x0008, 0x0060), 'CS', 'MR'), ((0x0028, 0x0010), 'US', 4), ((0x0008, 0x0008), 'CS', ['A', 'B']),
                             ((0x0010, 0x0020), 'LO', 'id'), ((0x0008, 0x0020), 'DA', '20200101')):
                if t not in used and rng.random() < 0.6:
                    used.add(t)
                    elems.append({'tag': list(t), 'vr': vr, 'val': v})
            # unknown tags all have the name '' and clash with each other
            for t in UNKNOWN_TAGS[:4]:
                if t not in used and rng.random() < 0.3:
                    used.add(t)
                    elems.append({'tag': list(t), 'vr': 'LO', 'val': 'unk'})
            creators = list(TEST_CREATORS)
            for b in range(rng.choice([1, 2, 3])):
                creator = rng.choice(creators)
                blk, g, s = _private_block(rng, used, creator, group=rng.choice([0x0019, 0x0029]), n=rng.choice([2, 3, 4]))
                elems += blk
            priv_dict = [[c, (g0 << 16) | 0x1000 | low, 'LO', rng.choice(PRIV_NAMES)] for c in TEST_CREATORS for g0 in (0x0019, 0x0029)
                         for low in (1, 2, 3, 8, 0x10, 0x20, 0xff, 0) if rng.random() < 0.6]
            cfg['rules'] = rng.choice([[], [], [x for x in RULE_NAMES if x != 'ignore_private'], None])
            cfg['trans'] = []
        elif r < 0.92:
            kind = 'never-extract'
            elems = _std_elems(rng, rng.choice([1, 3, 5]), used) + _never_elems(rng, rng.choice([2, 4, 6]), used)
            cfg['rules'] = rng.choice([None, None, None, ['ignore_pixel_data', 'ignore_overlay_data', 'ignore_color_lut_data'], _rules_cfg(rng)])
            if rng.random() < 0.3:
                blk, _, _ = _private_block(rng, used, rng.choice(TEST_CREATORS), group=rng.choice([0x6001, 0x7fe1, 0x0029]))
                elems += blk
            cfg['trans'] = rng.choice([None, []])
        elif r < 0.95:
            # the known finding, varied
            extra = _std_elems(rng, rng.choice([0, 2]), set([(0x0008, 0x0060)]))
            c = _f12_case(extra=extra)
            c['cfg']['rules'] = rng.choice([None, []])
            c['cfg']['trans'][0]['kind'] = rng.choice([0, 5])
            out.append(c)
            continue
        else:
            kind = 'malformed'
            elems = _std_elems(rng, rng.choice([1, 2]), used)
            m = rng.randrange(3)
            if m == 0:
                t = rng.choice([(0x0028, 0x0010), (0x0028, 0x0100)])
                elems = [e for e in elems if tuple(e['tag']) != t]
                elems.append({'tag': list(t), 'vr': rng.choice(['US', 'SS', 'UL', 'SL', 'FL', 'FD', 'US or SS']), 'val': rng.choice(['ab', 'abcd', '12'])})
            elif m == 1:
                elems += [{'tag': [0x0029, 0x0010], 'vr': 'LO', 'val': 'VERIF A'}, {'tag': [0x0029, 0x1001], 'vr': 'LO', 'val': 'v'}]
                cfg['trans'] = [{'name': 'T1', 'tag': [0x0029, 0x1001], 'creator': 'VERIF A', 'kind': 0},
                                {'name': 'T2', 'tag': [0x0029, rng.choice([0x1101, 0x2001, 0x1001])], 'creator': 'VERIF A', 'kind': 0}]
            else:
                elems += [{'tag': [0x0029, 0x0010], 'vr': 'LO', 'val': 'VERIF A'}, {'tag': [0x0029, 0x1001], 'vr': 'LO', 'val': 'v'}]
                cfg['trans'] = [{'name': 'T1', 'tag': [0x0029, 0x1001], 'creator': 'VERIF A', 'kind': 3}]
                cfg['warn'] = False
        out.append({'kind': kind, 'priv_dict': priv_dict, 'cfg': cfg, 'elems': elems})
    return out


CORR_REQUIRE = "From Coq Require Import QArith.\nFrom DV Require Import Common.Str Common.PyNum Extract.Model Extract.Corr."
CORR_CASE_TYPE = "Corr.case"
CORR_CHECK = "Corr.check"
CORR_SHOW = "Corr.show"
NAME = "main"
SHARD = 30
IMPL_TIMEOUT = 20
