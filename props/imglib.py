"""Image level of NiftiWrapper (from_sequence / split): generators, implementation runner, Coq printers,
property oracles and the reusable plugin parts  ImgMergePart, ImgSplitPart, ImgRoundTripPart.
Model: coq/Wrapper/Model.v, glue: coq/Wrapper/Corr.v.

JSON forms
    image   I = {"shape": [..], "data": [ints, C order], "aff": [[float]*4]*4, "slice": int|None, "dtype": "int16"|"int32"}
    wrapper W = {"img": I, "ext": E|None}        E = extlib JSON extension; None = NiftiWrapper(nii, make_empty=True)
    observed wrapper O = {"shape","data","aff","slice","ext": E}
Affine entries are dyadic floats that are exact in float32 as well (nibabel stores sform/qform as float32 and
from_sequence / split read them back); vectors that the code normalises have RATIONAL norms (axis aligned or
integer Pythagorean triples times a dyadic scale), so that the model's exact square roots apply.

The oracles are written from the property statements (C03/C04/C05/C07 image halves + C13 "inputs untouched") with
numpy-free exact arithmetic on the observations; they never consult the Coq model."""
import os, re, copy, math, itertools
from fractions import Fraction as Fr

from vlib.coqlit import cnat, cz, cbool, clist, copt, cpair, cq
from props import extlib

# the image-level theorem files and their theorems (for the COQ_PROPS / THEOREMS of the property plugins)
COQ_PROPS = ['Props/C03img.v', 'Props/C04img.v', 'Props/C05img.v', 'Props/C07img.v']
THEOREMS = {'Props/C03img.v': ['C03img_data', 'C03img_affine', 'C03img_slice', 'C03img_refuse', 'C03img_refuse_exists', 'C03img_never_crashes',
                               'C03img_dim_argument', 'C03img_step_test', 'C03w_lookup'],
            'Props/C04img.v': ['C04img_pieces', 'C04img_default_dim', 'C04img_ext_shape', 'C04w_lookup',
                               'C04img_split_models_agree', 'C04img_split_models_differ'],
            'Props/C05img.v': ['C05img_split_merge', 'C05img_merge_split', 'C05w_split_merge'],
            'Props/C07img.v': ['C07img_merge', 'C07img_merge_sdim_partial', 'C07img_merge_sdim_refuted', 'C07img_split']}
TRUSTED_BASE = ['coq/Wrapper/Model.v: hand model of NiftiWrapper.from_sequence / split / the final check_valid of __init__ '
                '(tied to the code by the imgmerge / imgsplit / imgrt correspondence parts)',
                'the two sqrt normalisations of NiftiWrapper.from_sequence are a function parameter `unitv` of the model; theorems '
                'quantify over it; the correspondence instantiates it with exact rational square roots (Wrapper.Corr.unit_exact, '
                'proved to satisfy the per-vector hypothesis unit_ok on rational-norm vectors)',
                'tolerance literals 5e-4 / 1e-6 / numpy defaults of NiftiWrapper.from_sequence are written in Wrapper/Model.v '
                '(no table translator); both sides of each threshold are exercised by the imgmerge error stream']
ASSUMPTIONS = ['nibabel header book-keeping is not modelled: qform/sform codes and their float32 storage, intent, slice_duration, '
               'slice_times, xyzt_units, freq/phase dim_info, dtype promotion; an image is (shape, C-order data, best affine, slice dim)',
               'correspondence domain: images built in memory with nb.Nifti1Image(data, affine), affine entries dyadic and exact in '
               'float32, every vector the code normalises has a rational norm (axis aligned / integer Pythagorean), comparisons not '
               'within float rounding of a tolerance (error stream keeps a 2% margin); negative dim arguments only for from_sequence',
               'float arithmetic is modelled exactly in Q; on the domain above every float operation of the implementation is exact '
               'except the normalisations, whose rounding (1 ulp) is far inside the margins']

ERRMAP = dict(extlib.ERRMAP, MissingExtensionError='EMissingExt', HeaderDataError='EHeaderData')

# signatures of the known image-level findings (see known-findings.txt / DESIGN.md section 7)
SIG_N8 = 'imgmerge/ext-sdim-kept-when-header-slice-erased'      # open: property=C07

# ------------------------------------------------------------------------------------------ implementation side


def build_w(W):
    np, dcmmeta = extlib._imports()
    import nibabel as nb
    I = W['img']
    data = np.array(I['data'], dtype=I.get('dtype', 'int32')).reshape(tuple(I['shape']))
    nii = nb.Nifti1Image(data, np.array(I['aff'], dtype=float))
    if I.get('codes'):                    # [qform_code, sform_code]; default of nb.Nifti1Image(data, affine) is [0, 2]
        q, sc = I['codes']
        nii.set_qform(np.array(I['aff'], dtype=float), code=q)
        nii.set_sform(np.array(I['aff'], dtype=float), code=sc)
    nii.header.set_dim_info(None, None, I['slice'])
    if W.get('ext') is None:
        return dcmmeta.NiftiWrapper(nii, make_empty=True)
    nii.header.extensions.append(extlib.build_ext(W['ext']))
    return dcmmeta.NiftiWrapper(nii)


def observe(w):
    np, _ = extlib._imports()
    nii = w.nii_img
    return {'shape': [int(x) for x in nii.shape],
            'data': [int(x) for x in np.asanyarray(nii.dataobj).ravel()],
            'aff': [[float(x) for x in row] for row in nii.affine],
            'best': [[float(x) for x in row] for row in nii.header.get_best_affine()],
            'slice': (lambda s: None if s is None else int(s))(nii.header.get_dim_info()[2]),
            'ext': extlib.ext_to_json(w.meta_ext)}


def snapshot(w):
    """Everything of an input that a call must leave alone."""
    np, _ = extlib._imports()
    nii = w.nii_img
    return (np.asanyarray(nii.dataobj).tobytes(), tuple(nii.shape), nii.affine.tobytes(),
            nii.header.get_best_affine().tobytes(), repr(nii.header.get_dim_info()),
            repr(extlib.ext_to_json(w.meta_ext)))


def _err(e):
    """exception -> observation.  The class is mapped through its MRO (a subclass of ValueError is a ValueError); the
    missing key of a KeyError is kept ('exc_key': the extension-level finding signatures look at it, never at message text)."""
    if isinstance(e, getattr(extlib, 'AbstractionError', ())) or (isinstance(e, ValueError) and str(e).startswith('abs:')):
        return {'err': 'ECrash', 'exc': 'Abstraction', 'msg': str(e)}
    enum = 'ECrash'
    for cls in type(e).__mro__:
        if cls.__name__ in ERRMAP:
            enum = ERRMAP[cls.__name__]
            break
    key = e.args[0] if isinstance(e, KeyError) and e.args and isinstance(e.args[0], str) else None
    return {'err': enum, 'exc': type(e).__name__, 'exc_key': key, 'msg': str(e)[:200]}


def run_merge(case):
    np, dcmmeta = extlib._imports()
    ws = [build_w(W) for W in case['ws']]
    before = [snapshot(w) for w in ws]
    out = {'in_exts': [extlib.ext_to_json(w.meta_ext) for w in ws]}
    try:
        r = dcmmeta.NiftiWrapper.from_sequence(ws, case['dim'])
        out['res'] = observe(r)
    except Exception as e:        # noqa: BLE001  (every exception class is an observation)
        out.update(_err(e))
    out['untouched'] = [snapshot(w) for w in ws] == before
    return out


def run_split(case):
    np, dcmmeta = extlib._imports()
    w = build_w(case['w'])
    before = snapshot(w)
    out = {'in_exts': [extlib.ext_to_json(w.meta_ext)]}
    try:
        out['pieces'] = [observe(p) for p in w.split(case['dim'])]
    except Exception as e:        # noqa: BLE001
        out.update(_err(e))
    out['untouched'] = snapshot(w) == before
    return out


def run_rt(case):
    np, dcmmeta = extlib._imports()
    NW = dcmmeta.NiftiWrapper
    dim = case['dim']
    if case['mode'] == 'sm':
        w = build_w(case['w'])
        before = snapshot(w)
        out = {'in_exts': [extlib.ext_to_json(w.meta_ext)]}
        try:
            pieces = list(w.split(dim))
            out['res'] = observe(NW.from_sequence(pieces, dim))
        except Exception as e:    # noqa: BLE001
            out.update(_err(e))
        out['untouched'] = snapshot(w) == before
        return out
    ws = [build_w(W) for W in case['ws']]
    before = [snapshot(w) for w in ws]
    out = {'in_exts': [extlib.ext_to_json(w.meta_ext) for w in ws]}
    try:
        out['pieces'] = [observe(p) for p in NW.from_sequence(ws, dim).split(dim)]
    except Exception as e:        # noqa: BLE001
        out.update(_err(e))
    out['untouched'] = [snapshot(w) for w in ws] == before
    return out


# ------------------------------------------------------------------------------------------ Coq printers

def img_to_coq(I):
    return '(Wrapper.Model.mk_img %s %s %s %s)' % (clist(cnat(x) for x in I['shape']), clist(cz(int(v)) for v in I['data']),
                                                  extlib.caff(I['aff']), copt(I['slice'], cnat))


def w_to_coq(W, E):
    return cpair(img_to_coq(W['img']), extlib.ext_to_coq(E))


def wobs_to_coq(o):
    return '(WOk %s %s %s %s %s)' % (clist(cnat(x) for x in o['shape']), clist(cz(v) for v in o['data']), extlib.caff(o['aff']),
                                     copt(o['slice'], cnat), extlib.ext_to_coq(o['ext']))


def res_to_coq(obs):
    if 'res' in obs:
        return wobs_to_coq(obs['res'])
    return '(WErr %s)' % obs.get('err', 'ECrash')


def lres_to_coq(obs):
    if 'pieces' in obs:
        return '(LOk %s)' % clist(wobs_to_coq(p) for p in obs['pieces'])
    return '(LErr %s)' % obs.get('err', 'ECrash')


def _need(obs):
    if 'crash' in obs or 'in_exts' not in obs:
        raise ValueError('no observation')


def merge_case_to_coq(case, obs):
    _need(obs)
    ws = clist(w_to_coq(W, E) for W, E in zip(case['ws'], obs['in_exts']))
    return '(Wrapper.Corr.mk_merge_case %s %s %s %s)' % (ws, copt(case['dim'], cz), res_to_coq(obs), cbool(bool(obs['untouched'])))


def split_case_to_coq(case, obs):
    _need(obs)
    return '(Wrapper.Corr.mk_split_case %s %s %s %s)' % (w_to_coq(case['w'], obs['in_exts'][0]), copt(case['dim'], cnat),
                                                         lres_to_coq(obs), cbool(bool(obs['untouched'])))


def rt_case_to_coq(case, obs):
    _need(obs)
    if case['mode'] == 'sm':
        return '(RtSM (mk_sm_case %s %s %s %s))' % (w_to_coq(case['w'], obs['in_exts'][0]), cnat(case['dim']), res_to_coq(obs),
                                                    cbool(bool(obs['untouched'])))
    ws = clist(w_to_coq(W, E) for W, E in zip(case['ws'], obs['in_exts']))
    return '(RtMS (mk_ms_case %s %s %s %s))' % (ws, cnat(case['dim']), lres_to_coq(obs), cbool(bool(obs['untouched'])))


# ------------------------------------------------------------------------------------------ generators

SCALES = [0.5, 1.0, 1.5, 2.0, 3.0, 0.75, 2.5, 0.25]
# mutually orthogonal integer vectors of equal (integer) length
TRIADS = [[(3, 4, 0), (-4, 3, 0), (0, 0, 5)], [(2, 3, 6), (3, -6, 2), (6, 2, -3)], [(1, 2, 2), (2, 1, -2), (2, -2, 1)],
          [(5, 12, 0), (-12, 5, 0), (0, 0, 13)], [(0, 3, 4), (0, -4, 3), (5, 0, 0)], [(4, 0, 3), (-3, 0, 4), (0, 5, 0)],
          [(2, 6, 9), (6, 7, -6), (9, -6, 2)]]
TRANS = [0.0, -8.0, 10.5, 3.0, 0.25, -100.5, 64.0, 7.75]


def det3(m):
    return (m[0][0] * (m[1][1] * m[2][2] - m[1][2] * m[2][1]) - m[0][1] * (m[1][0] * m[2][2] - m[1][2] * m[2][0])
            + m[0][2] * (m[1][0] * m[2][1] - m[1][1] * m[2][0]))


def gen_img_affine(rng, kind=None, keep=None):
    """4x4 affine, entries dyadic and float32-exact.  kinds: diag (axis aligned, anisotropic), perm (axes permuted /
    flipped: sagittal, coronal...), oblique (integer Pythagorean triad, columns shuffled, flipped and scaled
    independently -> NON-symmetric 3x3), shear (like oblique/diag but the columns other than `keep` are arbitrary:
    only column `keep` is guaranteed a rational norm)."""
    kind = kind or rng.choice(['diag', 'perm', 'oblique', 'oblique', 'shear'])
    cols = None
    if kind == 'diag':
        cols = [[0.0] * 3 for _ in range(3)]
        for j in range(3):
            cols[j][j] = rng.choice(SCALES) * rng.choice([1, 1, -1])
    elif kind == 'perm':
        p = rng.choice([q for q in itertools.permutations(range(3)) if q != (0, 1, 2)])
        cols = [[0.0] * 3 for _ in range(3)]
        for j in range(3):
            cols[j][p[j]] = rng.choice(SCALES) * rng.choice([1, -1])
    else:
        tri = [list(v) for v in rng.choice(TRIADS)]
        rng.shuffle(tri)
        cols = [[x * s for x in v] for v, s in ((v, rng.choice(SCALES) * rng.choice([1, -1])) for v in tri)]
        if kind == 'shear':
            k = keep if keep is not None else rng.randrange(3)
            while True:
                c2 = [cols[j] if j == k else [rng.choice([0.0, 0.5, 1.0, -1.0, 2.0, -0.5, 0.25, 3.0]) for _ in range(3)] for j in range(3)]
                m = [[c2[j][i] for j in range(3)] for i in range(3)]
                if det3(m) != 0:
                    cols = c2
                    break
    tr = [rng.choice(TRANS) for _ in range(3)]
    return [[cols[0][i], cols[1][i], cols[2][i], tr[i]] for i in range(3)] + [[0.0, 0.0, 0.0, 1.0]]


def col(A, j):
    return [A[i][j] for i in range(3)]


def with_col(A, j, v):
    B = [list(r) for r in A]
    for i in range(3):
        B[i][j] = v[i]
    return B


def shifted(A, v):
    return with_col(A, 3, [A[i][3] + v[i] for i in range(3)])


_HI = [3]          # largest extent of an axis: 3 in the quick tier; 5 (4 for 5-D shapes) in the thorough tier (set by gen_cases)


def set_tier(tier):
    _HI[0] = 3 if tier == 'quick' else 5


def gen_img_shape(rng, ndim=None, singular=None, trailing=None):
    """3-5-D, extents 1.._HI; singular = axis forced to 1; trailing=True forces (X,Y,Z,1) / (X,Y,Z,1,V) style shapes."""
    ndim = ndim or rng.choice([3, 3, 4, 4, 5, 5])
    hi = min(_HI[0], 4) if ndim == 5 else _HI[0]
    sh = [rng.randint(1, hi) for _ in range(ndim)]
    if trailing and ndim >= 4:
        sh[3] = 1
    if singular is not None and singular < ndim:
        sh[singular] = 1
    return sh


_counter = [0]


def gen_data(rng, shape, base=None):
    n = 1
    for s in shape:
        n *= s
    base = rng.randrange(0, 20) * 1000 if base is None else base
    vals = list(range(base, base + n))
    return vals


def mk_I(rng, shape, aff, sl, base):
    return {'shape': list(shape), 'data': gen_data(rng, shape, base), 'aff': aff, 'slice': sl, 'dtype': rng.choice(['int16', 'int32'])}


def gen_ext_for(rng, shape, sl, aff, keys=True):
    """None (make_empty: slice_dim := header's), or an explicit empty extension whose slice_dim / affine may differ
    from the image's, or a key-carrying one (only outside the regions of the open extension-level findings)."""
    r = rng.random()
    if r < 0.5:
        return None
    trailing = len(shape) > 3 and shape[-1] == 1
    if r < 0.75 or trailing or not keys:
        sd = rng.choice([0, 1, 2, None, sl, sl])
        return extlib.mk_E(shape, sd, aff if rng.random() < 0.7 else extlib.gen_affine(rng), {})
    sd = sl if (sl is not None and rng.random() < 0.7) else rng.choice([0, 1, 2])
    return extlib.gen_ext(rng, 'quick', shape=list(shape), sdim=sd, aff=aff if rng.random() < 0.7 else None, nkeys=rng.randint(1, 3))


def pick_merge_shape(rng, dim):
    if dim < 3:
        nd = rng.choice([3, 3, 4, 5])
        return gen_img_shape(rng, nd, singular=dim, trailing=rng.random() < 0.25)
    if dim == 3:
        nd = rng.choice([3, 3, 4, 5])
        return gen_img_shape(rng, nd, singular=3, trailing=False)
    nd = rng.choice([3, 4, 4, 5])
    sh = gen_img_shape(rng, nd, singular=4)
    if nd == 4 and sh[3] == 1 and rng.random() < 0.9:       # (X,Y,Z,1) along dim 4 is the open finding N1: keep it rare
        sh[3] = rng.randint(2, 3)
    return sh


def gen_merge_ok(rng, dim=None, n=None, with_keys=False):
    """A sequence the property says must merge."""
    dim = rng.randrange(5) if dim is None else dim
    n = n or rng.randint(2, 4 if _HI[0] == 3 else 7)
    sh = pick_merge_shape(rng, dim)
    A = gen_img_affine(rng, keep=dim if dim < 3 else None)
    sl = rng.choice([0, 1, 2, 2, None])
    affs = []
    if dim < 3:
        u = col(A, dim)
        pos = 0.0
        for i in range(n):
            Ai = shifted(A, [pos * x for x in u])
            if rng.random() < 0.25:       # the merge axis may be scaled differently in every input
                f = rng.choice([0.5, 2.0, 1.5, 4.0])
                Ai = with_col(Ai, dim, [f * x for x in col(Ai, dim)])
            affs.append(Ai)
            pos += rng.choice([1.0, 1.0, 0.5, 2.0, 1.5])
    else:
        for i in range(n):
            Ai = A
            if rng.random() < 0.15:       # translations are not compared for non-spatial merges
                Ai = shifted(A, [rng.choice([1.0, -2.0, 0.5]) for _ in range(3)])
            affs.append(Ai)
    exts = [None] * n
    kind = 'merge/ok/dim%d/%dD' % (dim, len(sh))
    if with_keys and not (len(sh) > 3 and sh[-1] == 1):
        ec = extlib.gen_merge_case(rng, 'quick', dim=dim, ndim_in=len(sh))
        sh = list(ec['exts'][0]['shape'])
        n = len(ec['exts'])
        while len(affs) < n:
            affs.append(affs[-1] if dim >= 3 else shifted(affs[-1], col(A, dim)))
        affs = affs[:n]
        exts = ec['exts']
        sl = ec['exts'][0]['sdim'] if rng.random() < 0.8 else sl
        kind += '/keys'
    else:
        # (key-carrying extensions only as consistent sets from extlib.gen_merge_case: a lone one next to empty extensions
        #  is the region of the open extension-level findings N3 / N4)
        exts = [gen_ext_for(rng, sh, sl, affs[i], keys=False) if rng.random() < 0.5 else None for i in range(n)]
    ws = [{'img': mk_I(rng, sh, affs[i], sl, 1100 * i), 'ext': exts[i]} for i in range(n)]
    if rng.random() < 0.3:
        mixed_dtypes(rng, ws)
        kind += '/dtypes'
    return {'kind': kind, 'ws': ws, 'dim': dim}


DTYPE_CHAINS = [['uint8', 'int16', 'int32', 'float64'], ['uint8', 'int16', 'float32', 'float64']]   # each safely castable to the next


def mixed_dtypes(rng, ws):
    """Inputs stored with DIFFERENT dtypes, the narrowest first, every later input holding (integer) values that the first
    input's type cannot represent (negative / beyond its range): the merged array must be able to hold them all."""
    chain = rng.choice(DTYPE_CHAINS)
    first = rng.randrange(0, 3)
    dts = [chain[first]] + [chain[rng.randrange(first + 1, 4)] for _ in ws[1:]]
    for i, (W, dt) in enumerate(zip(ws, dts)):
        n = len(W['img']['data'])
        if dt == 'uint8':
            vals = [(7 * k + 13 * i) % 256 for k in range(n)]
        elif dt == 'int16':
            vals = [((37 * k + 1000 * i) % 65536) - 32768 if k % 2 else 300 + (k + 100 * i) % 30000 for k in range(n)]
        elif dt == 'int32':
            vals = [(-1) ** k * (100000 + 1000003 * i + k) for k in range(n)]
        elif dt == 'float32':
            vals = [(-1) ** k * (70000 + 4099 * i + k) for k in range(n)]           # integers below 2**24: exact in float32
        else:
            vals = [(-1) ** k * (2 ** 40 + 1000003 * i + k) for k in range(n)]       # exact in float64, beyond int32 / float32
        W['img']['data'] = vals
        W['img']['dtype'] = dt


def near_axis_step(n):
    """integer vector (0, 2n+1, 2n^2+2n) of integer length 2n^2+2n+1: cosine with e_z = 1 - 1/(2n^2+2n+1)"""
    return (0, 2 * n + 1, 2 * n * n + 2 * n), 2 * n * n + 2 * n + 1


def gen_merge_err(rng):
    """Sequences around the refusal conditions (both sides of every threshold) and the argument errors."""
    what = rng.choice(['orient-below', 'orient-above', 'orient-far', 'tilt-below', 'tilt-above', 'zero-step', 'neg-step', 'swap', 'dup',
                       'offaxis-below', 'offaxis-above', 'offaxis-far', 'nonsingular', 'dim-range', 'slices-differ', 'default-dim',
                       'single', 'shape-mismatch', 'n1-region', 'joined-tilt-own', 'joined-tilt-own', 'joined-tilt-old', 'inplane-rot'])
    c = gen_merge_ok(rng, n=rng.randint(3, 4) if what in ('swap', 'dup') else None,
                     dim=rng.randrange(3) if what in ('zero-step', 'neg-step', 'swap', 'dup') else None)
    dim, ws = c['dim'], c['ws']
    n = len(ws)
    c['kind'] = 'merge/' + what
    A0 = ws[0]['img']['aff']
    if what.startswith('orient'):
        # one entry of a non-merge axis of one later input moved by tol*(1 -/+ 1%) or far
        i = rng.randrange(1, n)
        j = rng.choice([a for a in range(3) if a != dim])
        k = rng.randrange(3)
        A = [list(r) for r in ws[i]['img']['aff']]
        tol = 5e-4 + 1e-5 * abs(A0[k][j])
        f = {'orient-below': 0.98, 'orient-above': 1.02, 'orient-far': rng.choice([3.0, 40.0, 1000.0])}[what]
        A[k][j] = A[k][j] + rng.choice([1, -1]) * tol * f
        ws[i]['img']['aff'] = A
        for w in ws:
            w['ext'] = None
    elif what.startswith('tilt'):
        # merge axis e_z-like direction tilted by a Pythagorean vector: normalised difference 1/n-ish around 5e-4
        dim = rng.randrange(3)
        sh = pick_merge_shape(rng, dim)
        nn = {'tilt-below': 2001, 'tilt-above': 1999}[what]
        (a, b, cc), m = near_axis_step(nn)
        o = [x for x in range(3) if x != dim]
        base = [[0.0] * 4 for _ in range(3)] + [[0.0, 0.0, 0.0, 1.0]]
        base[o[0]][o[0]] = 2.0
        base[o[1]][o[1]] = 1.5
        base[dim][dim] = 1.0
        for r in range(3):
            base[r][3] = rng.choice(TRANS)
        tilt = [0.0, 0.0, 0.0]
        tilt[o[1]] = float(b)
        tilt[dim] = float(cc)
        ws = []
        for i in range(rng.randint(2, 3)):
            Ai = shifted(base, [float(i) * x for x in col(base, dim)])
            if i >= 1:
                Ai = with_col(Ai, dim, [x / 1048576.0 for x in tilt])
            ws.append({'img': mk_I(rng, sh, Ai, 2, 1100 * i), 'ext': None})
        c.update(ws=ws, dim=dim)
    elif what in ('zero-step', 'dup'):
        i = rng.randrange(1, n)
        ws[i]['img']['aff'] = with_col(ws[i]['img']['aff'], 3, col(ws[i - 1]['img']['aff'], 3))
    elif what == 'neg-step':
        c['ws'] = ws[::-1]
    elif what == 'swap':
        order = rng.choice([p for p in itertools.permutations(range(n)) if list(p) != list(range(n)) and list(p) != list(range(n))[::-1]])
        c['ws'] = [ws[k] for k in order]
        c['order'] = list(order)
    elif what.startswith('offaxis'):
        dim = rng.randrange(3)
        sh = pick_merge_shape(rng, dim)
        nn = {'offaxis-below': 213, 'offaxis-above': 212, 'offaxis-far': rng.choice([1, 2, 3, 20])}[what]
        (a, b, cc), m = near_axis_step(nn)
        o = [x for x in range(3) if x != dim]
        base = [[0.0] * 4 for _ in range(3)] + [[0.0, 0.0, 0.0, 1.0]]
        base[o[0]][o[0]] = 2.0
        base[o[1]][o[1]] = -1.5
        base[dim][dim] = rng.choice([1.0, 2.0, 0.5])
        step = [0.0, 0.0, 0.0]
        step[o[0]] = float(b) * 0.25
        step[dim] = float(cc) * 0.25
        ws = []
        for i in range(rng.randint(2, 3)):
            ws.append({'img': mk_I(rng, sh, shifted(base, [float(i) * x for x in step]), dim, 1100 * i), 'ext': None})
        c.update(ws=ws, dim=dim)
    elif what == 'nonsingular':
        sh = ws[0]['img']['shape']
        bad = [d for d in range(len(sh)) if sh[d] != 1]
        if bad:
            c['dim'] = rng.choice(bad)
        else:
            c['kind'] = c['kind'].replace('nonsingular', 'ok/all-singular')
    elif what == 'dim-range':
        c['dim'] = rng.choice([5, 6, 7, -1, -2])
    elif what == 'slices-differ':
        sls = [rng.choice([0, 1, 2, None]) for _ in ws]
        for w, s in zip(ws, sls):
            w['img']['slice'] = s
            if w['ext'] is not None and rng.random() < 0.5:
                w['ext'] = None
    elif what == 'default-dim':
        nd = rng.choice([3, 3, 3, 4, 5])
        sh = gen_img_shape(rng, nd)
        if nd == 3 and rng.random() < 0.7:
            for a in rng.sample(range(3), rng.randint(1, 2)):
                sh[a] = 1
        A = gen_img_affine(rng, 'oblique')
        ones = [a for a in range(3) if sh[a] == 1]
        d = (ones[-1] if ones else 3) if nd == 3 else 4
        ws = []
        for i in range(rng.randint(2, 3)):
            Ai = shifted(A, [float(i) * x for x in col(A, d)]) if d < 3 else A
            ws.append({'img': mk_I(rng, sh, Ai, rng.choice([2, None]), 1100 * i), 'ext': None})
        c.update(ws=ws, dim=None)
    elif what == 'single':
        c['ws'] = ws[:1]
    elif what == 'shape-mismatch':
        i = rng.randrange(n)
        sh = list(ws[i]['img']['shape'])
        mode = rng.choice(['suffix', 'scalar', 'other'])
        if mode == 'scalar':
            sh2 = [1] * len(sh)
        elif mode == 'suffix':
            sh2 = list(sh)
            nz = [a for a in range(len(sh)) if sh[a] != 1]
            if nz:
                sh2[nz[0]] = 1
        else:
            sh2 = [rng.randint(1, 3) for _ in sh]
            if dim < len(sh2):
                sh2[dim] = 1
        ws[i]['img'] = mk_I(rng, sh2, ws[i]['img']['aff'], ws[i]['img']['slice'], 7000)
        ws[i]['ext'] = None
    elif what in ('joined-tilt-own', 'joined-tilt-old', 'inplane-rot'):
        # orientation of the JOINED (spatial) axis: some later input has a clearly different joined-axis column
        # (all other columns equal) and sits (own) on its own tilted axis -- geometrically self-consistent, so only the
        # comparison with the first input can refuse it -- or (old) along the first input's direction; (inplane-rot) the
        # joined column is kept and the two other axes are rotated in their plane.  All vectors: integer, length 5, x 1/4.
        dim = rng.randrange(3)
        sh = pick_merge_shape(rng, dim)
        V5 = [(5, 0, 0), (0, 5, 0), (0, 0, 5), (3, 4, 0), (4, 3, 0), (0, 3, 4), (0, 4, 3), (3, 0, 4), (4, 0, 3), (-4, 3, 0), (0, -4, 3),
              (-3, 0, 4), (-5, 0, 0), (0, 0, -5)]
        tri = [list(v) for v in rng.choice([[(5, 0, 0), (0, 5, 0), (0, 0, 5)], [(3, 4, 0), (-4, 3, 0), (0, 0, 5)],
                                             [(0, 3, 4), (0, -4, 3), (5, 0, 0)], [(4, 0, 3), (-3, 0, 4), (0, 5, 0)]])]
        rng.shuffle(tri)
        q = 0.25 * rng.choice([1, 2, 4])
        base = [[q * tri[j][i] for j in range(3)] + [rng.choice(TRANS)] for i in range(3)] + [[0.0, 0.0, 0.0, 1.0]]
        n = rng.randint(2, 4)
        u0 = col(base, dim)
        others = [a for a in range(3) if a != dim]
        if what == 'inplane-rot':
            # (o0, o1) -> (3 o0 + 4 o1, -4 o0 + 3 o1) / 5 : a rotation by atan(4/3) in the plane of the two other axes
            o0, o1 = col(base, others[0]), col(base, others[1])
            rot = with_col(with_col(base, others[0], [(3 * x + 4 * y) / 5.0 for x, y in zip(o0, o1)]),
                           others[1], [(-4 * x + 3 * y) / 5.0 for x, y in zip(o0, o1)])
            if any(Fr(v).denominator > 64 for r in rot for v in r):      # keep every entry dyadic
                rot = with_col(with_col(base, others[0], o1), others[1], [-x for x in o0])   # quarter turn instead
        cands = [v for v in V5 if abs(sum(a * b for a, b in zip(v, u0))) < 0.95 * 5 * math.sqrt(sum(b * b for b in u0))]
        tilt = [q * x for x in rng.choice(cands)]
        tilted = set(rng.sample(range(1, n), rng.randint(1, n - 1)))
        ws, A_prev = [], None
        for i in range(n):
            Ai = base
            if i in tilted:
                Ai = rot if what == 'inplane-rot' else with_col(base, dim, tilt)
            step = col(Ai, dim) if what == 'joined-tilt-own' else u0
            k = rng.choice([1.0, 1.0, 2.0, 0.5])
            pos = col(base, 3) if A_prev is None else [p + k * x for p, x in zip(col(A_prev, 3), step)]
            Ai = with_col(Ai, 3, pos)
            A_prev = Ai
            ws.append({'img': mk_I(rng, sh, Ai, rng.choice([dim, dim, others[0], None]) if i == 0 else ws[0]['img']['slice'], 1100 * i), 'ext': None})
        c.update(ws=ws, dim=dim)
    elif what == 'n1-region':
        # open finding N1: 4-D inputs with T = 1 merged along dim 4 (KeyError 'time' from the extension merge)
        sh = gen_img_shape(rng, 4, singular=3)
        A = gen_img_affine(rng)
        c.update(ws=[{'img': mk_I(rng, sh, A, 2, 1100 * i), 'ext': None} for i in range(2)], dim=4)
    return c


def gen_split_case(rng, err=False):
    nd = rng.choice([3, 3, 4, 4, 5, 5])
    sh = gen_img_shape(rng, nd, trailing=rng.random() < 0.3)
    if nd >= 4 and rng.random() < 0.15:
        sh[-1] = 1
    A = gen_img_affine(rng, rng.choice(['diag', 'perm', 'oblique', 'shear', 'shear']))
    sl = rng.choice([0, 1, 2, 2, None])
    ext = gen_ext_for(rng, sh, sl, A)
    if ext is not None and ext['entries'] and (ext['sdim'] is None):
        ext = None
    dim = rng.choice(list(range(nd)) + [None])
    kind = 'split/dim%s/%dD%s' % (dim, nd, '/trailing1' if (nd > 3 and sh[-1] == 1) else ('/T1' if nd == 5 and sh[3] == 1 else ''))
    if err:
        w = rng.choice(['dim-range', 'no-slice-3d', 'ext-no-sdim'])
        kind = 'split/err/' + w
        if w == 'dim-range':
            dim = rng.choice([nd, nd + 1, 5, 6])
        elif w == 'no-slice-3d':
            nd, sh, sl, dim = 3, gen_img_shape(rng, 3), None, None
            ext = None
        else:
            sl = rng.choice([0, 1, 2])
            dim = sl
            ext = extlib.mk_E(sh, None, A, {})
    I = mk_I(rng, sh, A, sl, 0)
    r = rng.random()
    if not err and r < 0.45:
        # header codes: nb.Nifti1Image(data, affine) alone gives qform 0 / sform 2.  both coded (any affine: the best affine is
        # the sform); sform only with another code; qform only (the qform stores rotation x zooms only: axis-aligned,
        # positive in-plane scales, so that it holds the affine exactly)
        if r < 0.25:
            I['codes'] = [rng.randint(1, 4), rng.randint(1, 4)]
            kind += '/q+s'
        elif r < 0.33:
            I['codes'] = [0, rng.choice([1, 3, 4])]
            kind += '/s-only'
        else:
            D = [[0.0] * 4 for _ in range(3)] + [[0.0, 0.0, 0.0, 1.0]]
            for j in range(3):
                D[j][j] = rng.choice(SCALES) * (rng.choice([1, -1]) if j == 2 else 1)
                D[j][3] = rng.choice(TRANS)
            I['aff'] = D
            I['codes'] = [rng.randint(1, 4), 0]
            kind += '/q-only'
            if ext is not None:
                ext = gen_ext_for(rng, sh, sl, D, keys=False)
    return {'kind': kind, 'w': {'img': I, 'ext': ext}, 'dim': dim}


def gen_rt_case(rng):
    if rng.random() < 0.5:
        nd = rng.choice([3, 4, 5])
        sh = gen_img_shape(rng, nd, trailing=rng.random() < 0.2)
        dim = rng.randrange(nd)
        if sh[dim] < 2:
            sh[dim] = rng.randint(2, 3)
        if nd > 3 and sh[-1] == 1 and rng.random() < 0.7:
            sh[-1] = 2
        A = gen_img_affine(rng, keep=dim if dim < 3 else None)
        sl = rng.choice([0, 1, 2, 2, None])
        ext = None
        if not (nd > 3 and sh[-1] == 1) and rng.random() < 0.4:
            sd = sl if sl is not None else 2
            ext = extlib.gen_ext(rng, 'quick', shape=list(sh), sdim=sd, aff=A, nkeys=rng.randint(1, 3), widen=0.0)
        return {'kind': 'rt/split-merge/dim%d/%dD' % (dim, nd), 'mode': 'sm', 'w': {'img': mk_I(rng, sh, A, sl, 0), 'ext': ext}, 'dim': dim}
    c = gen_merge_ok(rng, with_keys=rng.random() < 0.3)
    return {'kind': c['kind'].replace('merge/ok', 'rt/merge-split'), 'mode': 'ms', 'ws': c['ws'], 'dim': c['dim']}


# ------------------------------------------------------------------------------------------ exact helpers for the oracles

def F(x):
    return Fr(x)


def fmat(A):
    return [[Fr(x) for x in r] for r in A]


def fcol(A, j):
    return [Fr(A[i][j]) for i in range(3)]


def norm(v):
    return math.sqrt(float(sum(x * x for x in v)))


def offset(shape, idx):
    o = 0
    for s, i in zip(shape, idx):
        o = o * s + i
    return o


def indices(shape):
    return itertools.product(*[range(s) for s in shape])


def merged_shape(sh, dim, n):
    out = list(sh)
    while len(out) <= dim:
        out.append(1)
    out[dim] = n
    return out


def default_merge_dim(sh):
    if len(sh) == 3:
        ones = [a for a in range(3) if sh[a] == 1]
        return ones[-1] if ones else 3
    if len(sh) == 4:
        return 4
    return None


def classify_merge(ws, dim):
    """'accept' / 'refuse' / None (too close to a tolerance to call without the code's own arithmetic).
    Written from the property: same orientation (within the code's tolerances, with a factor-2 dead zone) and, for a
    spatial merge axis, every consecutive translation step non-zero and pointing along the merge axis."""
    A0 = ws[0]['img']['aff']
    verdict = 'accept'
    for W in ws:
        A = W['img']['aff']
        for j in range(3):
            a, b = fcol(A, j), fcol(A0, j)
            if j == dim:
                na, nb_ = norm(a), norm(b)
                if na == 0 or nb_ == 0:
                    return None
                a, b = [float(x) / na for x in a], [float(x) / nb_ for x in b]
            for x, y in zip(a, b):
                d, tol = abs(float(x) - float(y)), 5e-4 + 1e-5 * abs(float(y))
                if d > 2 * tol:
                    verdict = 'refuse'
                elif d > tol / 2 and verdict == 'accept':
                    verdict = None
    if dim < 3:
        for Wp, W in zip(ws, ws[1:]):
            td = [x - y for x, y in zip(fcol(W['img']['aff'], 3), fcol(Wp['img']['aff'], 3))]
            if all(x == 0 for x in td):
                verdict = 'refuse'
                continue
            if all(abs(x) <= Fr(1, 1000000) for x in td):
                return None
            ax = fcol(W['img']['aff'], dim)
            cosv = float(sum(x * y for x, y in zip(td, ax))) / (norm(td) * norm(ax))
            if abs(cosv - 1) > 2 * 1.1e-5:
                verdict = 'refuse'
            elif abs(cosv - 1) > 1.1e-5 / 2 and verdict == 'accept':
                verdict = None
    return verdict


def truth_ext(W):
    """Header of the extension a generated wrapper carries, FROM THE CASE (never read back from the library):
    the explicit extension, or for make_empty=True wrappers an empty one with the image's shape / slice dim / affine."""
    E = W.get('ext')
    if E is not None:
        return E
    I = W['img']
    n = len(I['shape'])
    return {'shape': list(I['shape']), 'sdim': I['slice'], 'aff': I['aff'],
            'ht': n == 4 or (n > 4 and I['shape'][3] != 1), 'hv': n > 4, 'entries': []}


def consistent(W, E=None):
    """generated wrapper whose extension records its image's shape and slice dim (the C07 invariant on inputs);
    judged on the case alone (the second argument is accepted for callers of the former signature and ignored)"""
    T = truth_ext(W)
    return T['shape'] == W['img']['shape'] and T['sdim'] == W['img']['slice']


def close_mat(A, B, rtol=Fr(1, 100000), atol=Fr(1, 100000000)):
    """np.allclose(A, B) with numpy's default tolerances, exactly (what the properties ask of affines)"""
    A, B = fmat(A), fmat(B)
    return len(A) == len(B) and all(len(r) == len(s) and all(abs(x - y) <= atol + rtol * abs(y) for x, y in zip(r, s))
                                    for r, s in zip(A, B))


def check_rules_E(E):
    """The format rules of the C07 text on an abstracted extension, independent of check_valid: 3-5-D shape, slice dim
    0..2 or none, 4x4 affine, base dictionaries present for every class the shape admits, each key once (ext_to_json
    already refuses a key in two classes or in a class the shape does not admit), each varying key with exactly the
    number of values its class and the shape dictate (classes of multiplicity 1 have no defined count: open finding N10)."""
    sh = E['shape']
    if not (3 <= len(sh) <= 5):
        return 'shape %r is not 3..5-D' % (sh,)
    if E['sdim'] is not None and not (0 <= E['sdim'] < 3):
        return 'slice dim %r out of range' % (E['sdim'],)
    if len(E['aff']) != 4 or any(len(r) != 4 for r in E['aff']):
        return 'affine is not 4x4'
    if any(extlib.class_ok(sh, c) for c in ('TSamples', 'TSlices')) and not E['ht']:
        return "the 'time' dictionaries are missing"
    if any(extlib.class_ok(sh, c) for c in ('VSamples', 'VSlices')) and not E['hv']:
        return "the 'vector' dictionaries are missing"
    d = extlib.dims(E)
    seen = set()
    for k, c, vs in E['entries']:
        if k in seen:
            return 'key %r is classified twice' % (k,)
        seen.add(k)
        if not extlib.class_ok(sh, c):
            return 'key %r sits in %s, which shape %r does not admit' % (k, c, sh)
        if c == 'GConst':
            continue
        if extlib.PYCLS[c][1] == 'slices' and E['sdim'] is None:
            return 'key %r is per-slice but there is no slice dimension' % (k,)
        m = extlib.mult(d, c)
        if m > 1 and len(vs) != m:
            return 'key %r in %s holds %d values, %d required' % (k, c, len(vs), m)
    return None


def M(tags, clause, text):
    """oracle message: '<property ids>: [<clause id>] text'; the clause id is what signatures are built from"""
    return '%s: [%s] %s' % (tags, clause, text)


def clause_of(msg):
    m = re.match(r'[A-Z0-9,]+: \[([^\]]+)\]', msg or '')
    return m.group(1) if m else None


_KNOWN = [None]


def known_sigs():
    """signatures of all `open:` lines (any property), read once"""
    if _KNOWN[0] is None:
        out = set()
        p = os.path.join(os.path.dirname(os.path.dirname(os.path.abspath(__file__))), 'known-findings.txt')
        try:
            for line in open(p):
                m = re.match(r'open:\s+property=\S+\s+sig=(\S+)', line.strip())
                if m:
                    out.add(m.group(1))
        except OSError:
            pass
        _KNOWN[0] = out
    return _KNOWN[0]


def prefer_unknown(msgs, sigf, case, obs, pid=None):
    """rule: evaluate every clause; among the messages (of property `pid` when given) return one that is NOT an open
    finding if there is one, else the first"""
    if pid is not None:
        msgs = [m for m in msgs if m.startswith('harness:') or pid in m.split(':', 1)[0].split(',')]
    for m in msgs:
        if m.startswith('harness:') or sigf(case, obs, m) not in known_sigs():
            return m
    return msgs[0] if msgs else None


def matches_image(tags, who, X, shape, slice_dim, aff, lin_only=False):
    """C07 clauses 'the extension records the shape / slice dim / affine of the image it is attached to', against
    values derived from the CASE (expected image shape, expected header slice dim, expected affine)"""
    out = []
    r = check_rules_E(X)
    if r:
        out.append(M(tags, 'ext-rules', '%s: extension breaks the format rules: %s' % (who, r)))
    if X['shape'] != shape:
        out.append(M(tags if not lin_only else 'C04,C07', 'ext-shape', '%s: extension shape %r, image shape %r' % (who, X['shape'], shape)))
    if X['sdim'] != slice_dim:
        out.append(M(tags, 'ext-sdim', '%s: extension slice_dim %r, header slice dim %r' % (who, X['sdim'], slice_dim)))
    if lin_only:
        if not close_mat([r_[:3] for r_ in X['aff'][:3]], [r_[:3] for r_ in aff[:3]]):
            out.append(M(tags, 'ext-linear', '%s: extension 3x3 part differs from the image\'s' % who))
    elif not close_mat(X['aff'], aff):
        out.append(M(tags, 'ext-affine', '%s: extension affine differs from the image affine' % who))
    return out


def inputs_as_generated(ws, in_exts):
    """rule 6: what the harness fed the model (the real input extensions) must be what the generator meant"""
    out = []
    for i, (W, X) in enumerate(zip(ws, in_exts)):
        T = truth_ext(W)
        if X['shape'] != T['shape'] or X['sdim'] != T['sdim'] or not close_mat(X['aff'], T['aff']) or \
                sorted(map(repr, X['entries'])) != sorted(map(repr, T['entries'])) or X['ht'] != T['ht'] or X['hv'] != T['hv']:
            if W.get('ext') is None:
                out.append(M('C07', 'make-empty', 'input %d: NiftiWrapper(make_empty=True) built an extension that does not '
                             'record the image (shape %r sdim %r)' % (i, X['shape'], X['sdim'])))
            else:
                out.append('harness: input %d: the extension built from the case is not the generated one' % i)
    return out


def merge_msgs(case, obs):
    """every failing clause of C03 (data stacked in input order, affine extended, refusals), C07 (the result extension is
    valid and records the result image) and C13 (inputs untouched) at the image level"""
    if 'crash' in obs:
        return ['harness: %s %s' % (obs.get('crash'), obs.get('msg'))]
    out = []
    if obs.get('untouched') is False:
        out.append(M('C13', 'input-modified', 'from_sequence modified an input image / extension'))
    ws, dim = case['ws'], case['dim']
    n = len(ws)
    sh = ws[0]['img']['shape']
    out += inputs_as_generated(ws, obs.get('in_exts', []))
    if n < 2 or any(W['img']['shape'] != sh for W in ws):
        return out                                    # outside the property's quantifier
    if dim is None:
        dim = default_merge_dim(sh)
        if dim is None:
            return out
    elif not (0 <= dim < 5) or (dim < len(sh) and sh[dim] != 1):
        if obs.get('err') != 'EValue':
            out.append(M('C03', 'bad-dim', 'dim argument %r: expected ValueError, got %r' % (dim, obs.get('exc') or 'a result')))
        return out
    verdict = classify_merge(ws, dim)
    if verdict is None:
        return out
    if verdict == 'refuse':
        if obs.get('err') != 'EValue':
            out.append(M('C03', 'not-refused', 'orientation differs / positions not increasing along the merge axis: expected '
                         'ValueError, got %r' % (obs.get('exc') or 'a result')))
        return out
    allcons = all(consistent(W) for W in ws)
    if 'err' in obs:
        if not allcons:                               # an extension that contradicts its image may legitimately fail to merge
            pass
        elif obs.get('exc') == 'MissingExtensionError':
            # the final NiftiWrapper(result) found no extension passing check_valid: the merge PRODUCED an invalid one
            out.append(M('C03,C07', 'result-invalid', 'from_sequence(dim=%r) produced an extension that '
                         'check_valid rejects (MissingExtensionError)' % (case['dim'],)))
        else:
            out.append(M('C03', 'raised', 'mergeable sequence: from_sequence(dim=%r) raised %s: %s' % (case['dim'], obs.get('exc'), obs.get('msg'))))
        return out
    R = obs['res']
    rsh = merged_shape(sh, dim, n)
    if R['shape'] != rsh:
        out.append(M('C03', 'shape', 'result shape %r, expected %r' % (R['shape'], rsh)))
    else:
        for idx in indices(rsh):
            src = list(idx)
            i = src[dim]
            src[dim] = 0
            src = src[:len(sh)]
            if R['data'][offset(rsh, idx)] != ws[i]['img']['data'][offset(sh, src)]:
                out.append(M('C03', 'voxel', 'voxel %r of the result is not voxel %r of input %d' % (idx, tuple(src), i)))
                break
    A0 = ws[0]['img']['aff']
    exp = fmat(A0)
    if dim < 3:
        t0, t1 = fcol(A0, 3), fcol(ws[1]['img']['aff'], 3)
        for r in range(3):
            exp[r][dim] = t1[r] - t0[r]
    if not close_mat(R['aff'], exp):
        out.append(M('C03', 'affine', 'result affine %r, expected %r' % (R['aff'], [[float(x) for x in r] for r in exp])))
    sls = [W['img']['slice'] for W in ws]
    esl = sls[0] if all(s == sls[0] for s in sls) else None
    if R['slice'] != esl:
        out.append(M('C03', 'slice', 'result header slice dim %r, expected %r' % (R['slice'], esl)))
    if truth_ext(ws[0])['shape'] == sh:               # (an input extension of another shape cannot record the result's)
        out += matches_image('C07', 'result', R['ext'], rsh, esl, exp)
    return out


def oracle_merge(case, obs):
    return prefer_unknown(merge_msgs(case, obs), sig_merge, case, obs)


def merge_call(ws, dim):
    """the DcmMetaExtension.from_sequence call that NiftiWrapper.from_sequence makes, from the CASE: the generated
    extensions, the resolved dim, the merged affine and the merged header slice dim as arguments"""
    sls = [W['img']['slice'] for W in ws]
    esl = sls[0] if all(x == sls[0] for x in sls) else None
    A = [list(r) for r in ws[0]['img']['aff']]
    if dim is not None and 0 <= dim < 3 and len(ws) > 1:
        for r in range(3):
            A[r][dim] = ws[1]['img']['aff'][r][3] - ws[0]['img']['aff'][r][3]
    return {'exts': [truth_ext(W) for W in ws], 'dim': -1 if dim is None else dim, 'aff': A, 'sdim_arg': esl}


def sig_merge(case, obs, msg):
    """open findings are recognised by their MECHANISM, everything else by the failing clause (+ exception class)"""
    cl = clause_of(msg) or 'other'
    ws = case['ws']
    if cl == 'ext-sdim' and 'res' in obs:
        # N8: the merged header has no slice dim (inputs disagree / none has one) and the result extension kept the FIRST
        # input extension's slice_dim
        sls = [W['img']['slice'] for W in ws]
        esl = sls[0] if all(s == sls[0] for s in sls) else None
        first = truth_ext(ws[0])['sdim']
        if esl is None and first is not None and obs['res']['ext']['sdim'] == first and obs['res']['slice'] is None:
            return SIG_N8
    if cl == 'raised':
        dim = case['dim'] if case['dim'] is not None else default_merge_dim(ws[0]['img']['shape'])
        s = extlib.finding_sig_merge(merge_call(ws, dim), obs)      # N1 / N3 / N4 by mechanism (extlib)
        if s:
            return s
    return 'imgmerge/%s%s' % (cl, '/' + str(obs.get('exc')) if 'err' in obs else '')


def piece_shape(sh, dim):
    out = list(sh)
    out[dim] = 1
    while len(out) > 3 and out[-1] == 1:
        out = out[:-1]
    return out


def split_msgs(case, obs):
    """every failing clause of C04 (as many pieces as the axis is long, in order, piece i = hyperplane i, translation
    moved by i columns, rest of the affine and slice dim unchanged), C07 (each piece's extension is valid and records the
    piece's shape, slice dim and 3x3 part) and C13 (input untouched)"""
    if 'crash' in obs:
        return ['harness: %s %s' % (obs.get('crash'), obs.get('msg'))]
    out = []
    if obs.get('untouched') is False:
        out.append(M('C13', 'input-modified', 'split modified its input image / extension'))
    I, dim = case['w']['img'], case['dim']
    sh = I['shape']
    out += inputs_as_generated([case['w']], obs.get('in_exts', []))
    if dim is None:
        dim = len(sh) - 1
        if dim == 2:
            if I['slice'] is None:
                if 'err' not in obs:
                    out.append(M('C04', 'no-slice-dim', 'slice dim unknown: split() must refuse'))
                return out
            dim = I['slice']
    if dim >= len(sh):
        if 'err' not in obs:
            out.append(M('C04', 'missing-axis', 'split along a missing axis returned pieces'))
        return out
    if not consistent(case['w']):
        return out                                    # the image half below is checked through the correspondence only
    if 'err' in obs:
        out.append(M('C04', 'raised', 'split(dim=%r) raised %s: %s' % (case['dim'], obs.get('exc'), obs.get('msg'))))
        return out
    P = obs['pieces']
    if len(P) != sh[dim]:
        out.append(M('C04', 'count', '%d pieces for an axis of length %d' % (len(P), sh[dim])))
        return out
    psh = piece_shape(sh, dim)
    A = fmat(I['aff'])
    T = truth_ext(case['w'])
    for i, p in enumerate(P):
        if p['shape'] != psh:
            out.append(M('C04', 'shape', 'piece %d has shape %r, expected %r' % (i, p['shape'], psh)))
        else:
            for idx in indices(psh):
                src = list(idx) + [0] * (len(sh) - len(idx))
                src[dim] = i
                if p['data'][offset(psh, idx)] != I['data'][offset(sh, src)]:
                    out.append(M('C04', 'voxel', 'voxel %r of piece %d is not voxel %r of the parent' % (idx, i, tuple(src))))
                    break
        exp = [list(r) for r in A]
        if dim < 3:
            for r in range(3):
                exp[r][3] = A[r][3] + i * A[r][dim]
        if not close_mat(p['aff'], exp):
            out.append(M('C04', 'affine', 'piece %d affine %r, expected %r' % (i, p['aff'], [[float(x) for x in r] for r in exp])))
        if p['slice'] != I['slice']:
            out.append(M('C04', 'slice', 'piece %d header slice dim %r, parent %r' % (i, p['slice'], I['slice'])))
        out += matches_image('C07', 'piece %d' % i, p['ext'], psh, I['slice'], T['aff'], lin_only=True)
        if len(out) > 6:
            break
    return out


def oracle_split(case, obs):
    return prefer_unknown(split_msgs(case, obs), sig_split, case, obs)


def sig_split(case, obs, msg):
    cl = clause_of(msg) or 'other'
    if cl == 'raised' and case['dim'] is not None:
        T = truth_ext(case['w'])
        md = T['sdim'] if case['dim'] == case['w']['img']['slice'] else case['dim']
        if md is not None:
            s = extlib.finding_sig_subset({'ext': T, 'dim': md}, obs)   # N2 by mechanism (a key in the vanishing base)
            if s:
                return s
    return 'imgsplit/%s%s' % (cl, '/' + str(obs.get('exc')) if 'err' in obs else '')


def rt_msgs(case, obs):
    """every failing clause of C05 (split then merge reproduces shape, data, affine, slice dim; merge then split returns the
    inputs' voxels), C07 (every produced extension is valid and records its image) and C13"""
    if 'crash' in obs:
        return ['harness: %s %s' % (obs.get('crash'), obs.get('msg'))]
    out = []
    if obs.get('untouched') is False:
        out.append(M('C13', 'input-modified', 'the round trip modified an input image / extension'))
    dim = case['dim']
    if case['mode'] == 'sm':
        I = case['w']['img']
        sh = I['shape']
        out += inputs_as_generated([case['w']], obs.get('in_exts', []))
        if sh[dim] < 2 or not consistent(case['w']):
            return out
        if 'err' in obs:
            if obs.get('exc') == 'MissingExtensionError':
                out.append(M('C05,C07', 'result-invalid', 'split then merge along %d produced an extension that check_valid rejects' % dim))
            else:
                out.append(M('C05', 'raised', 'split then merge along %d raised %s: %s' % (dim, obs.get('exc'), obs.get('msg'))))
            return out
        R = obs['res']
        trimmed = list(sh)
        while len(trimmed) > 3 and trimmed[-1] == 1 and len(trimmed) - 1 > dim:
            trimmed = trimmed[:-1]
        if R['shape'] != trimmed:
            out.append(M('C05', 'shape', 'split then merge: shape %r, expected %r' % (R['shape'], trimmed)))
        if R['data'] != I['data']:
            out.append(M('C05', 'voxel', 'split then merge: voxel data differ'))
        if not close_mat(R['aff'], I['aff']):
            out.append(M('C05', 'affine', 'split then merge: affine %r, original %r' % (R['aff'], I['aff'])))
        if R['slice'] != I['slice']:
            out.append(M('C05', 'slice', 'split then merge: header slice dim %r, original %r' % (R['slice'], I['slice'])))
        out += matches_image('C07', 'merged pieces', R['ext'], trimmed, I['slice'], I['aff'])
        return out
    ws = case['ws']
    sh = ws[0]['img']['shape']
    out += inputs_as_generated(ws, obs.get('in_exts', []))
    if len(ws) < 2 or any(W['img']['shape'] != sh for W in ws) or classify_merge(ws, dim) != 'accept':
        return out
    if not all(consistent(W) for W in ws) or len(set(W['img']['slice'] for W in ws)) > 1:
        return out
    if 'err' in obs:
        if obs.get('exc') == 'MissingExtensionError':
            out.append(M('C05,C07', 'result-invalid', 'merge then split along %d produced an extension that check_valid rejects' % dim))
        else:
            out.append(M('C05', 'raised', 'merge then split along %d raised %s: %s' % (dim, obs.get('exc'), obs.get('msg'))))
        return out
    P = obs['pieces']
    if len(P) != len(ws):
        out.append(M('C05', 'count', 'merge then split: %d pieces from %d inputs' % (len(P), len(ws))))
        return out
    psh = piece_shape(merged_shape(sh, dim, len(ws)), dim)
    A0 = [list(r) for r in fmat(ws[0]['img']['aff'])]
    if dim < 3:                                       # the merged affine: column dim = second translation - first
        for r in range(3):
            A0[r][dim] = Fr(ws[1]['img']['aff'][r][3]) - Fr(ws[0]['img']['aff'][r][3])
    for i, (p, W) in enumerate(zip(P, ws)):
        if p['data'] != W['img']['data']:
            out.append(M('C05', 'voxel', 'merge then split: piece %d does not carry input %d\'s voxels' % (i, i)))
        if p['shape'] != psh:
            out.append(M('C05', 'shape', 'merge then split: piece %d shape %r' % (i, p['shape'])))
        out += matches_image('C07', 'piece %d of the merged image' % i, p['ext'], psh, W['img']['slice'], A0, lin_only=True)
    return out


def oracle_rt(case, obs):
    return prefer_unknown(rt_msgs(case, obs), sig_rt, case, obs)


def sig_rt(case, obs, msg):
    cl = clause_of(msg) or 'other'
    if cl == 'raised':
        if case['mode'] == 'ms':
            s = extlib.finding_sig_merge(merge_call(case['ws'], case['dim']), obs)
        else:       # only the split stage has a reference here; an exception of the merge stage keeps its own signature
            T = truth_ext(case['w'])
            md = T['sdim'] if case['dim'] == case['w']['img']['slice'] else case['dim']
            s = extlib.finding_sig_subset({'ext': T, 'dim': md}, obs) if md is not None else None
        if s:
            return s
    return 'imgrt/%s/%s%s' % (case['mode'], cl, '/' + str(obs.get('exc')) if 'err' in obs else '')


# ------------------------------------------------------------------------------------------ parts

def for_property(part, pid):
    """The same part with its oracle restricted to the statements of ONE property.  Every oracle message starts with the ids
    of the properties it belongs to ('C03: [clause] ...', 'C04,C07: ...', 'C13: ...'); 'harness: ...' always passes.  ALL
    failing clauses of the case are evaluated; among those of `pid` one that is not an open finding is preferred.  Use
        PARTS = [imglib.for_property(imglib.ImgMergePart, 'C03'), ...]
    so that e.g. the open C07 finding N8 does not show up as a C03 failure."""
    class P(part):
        @staticmethod
        def oracle(case, obs):
            return prefer_unknown(part.messages(case, obs), part.signature, case, obs, pid)
    P.__name__ = '%s_%s' % (part.__name__, pid)
    return P


CORR_REQ = 'From DV Require Import Common.Jv Ext.Types Ext.Model Ext.Corr Orient.Model Wrapper.Model Wrapper.Corr.'


def _shrink_ws(case):
    ws = case['ws']
    if len(ws) > 2:
        for i in range(len(ws)):
            c = copy.deepcopy(case)
            del c['ws'][i]
            c.pop('order', None)
            yield c
    for i, W in enumerate(ws):
        if W.get('ext') is not None:
            c = copy.deepcopy(case)
            c['ws'][i]['ext'] = None
            yield c


class ImgMergePart:
    """NiftiWrapper.from_sequence: correspondence with Wrapper.Model.from_sequence_w + C03/C07/C13 image oracles."""
    NAME = 'imgmerge'
    CORR_REQUIRE = CORR_REQ
    CORR_CASE_TYPE = 'Wrapper.Corr.merge_case'
    CORR_CHECK = 'Wrapper.Corr.check_merge'
    CORR_SHOW = 'Wrapper.Corr.show_merge'
    SHARD = 60
    IMPL_TIMEOUT = 30
    RULE = ('2..4 (thorough: 2..7) in-memory Nifti images (3-5 D, extents 1..3, thorough 1..5 (5-D: 1..4), incl. (X,Y,Z,1) and (X,Y,Z,1,V), unique voxel values, int16/int32) with '
            'axis-aligned anisotropic, axis-permuted and integer-Pythagorean oblique affines (non-symmetric 3x3, sheared variants), '
            'any header slice dim, extensions empty / with a slice_dim or affine different from the image / carrying keys, merged along '
            'dims 0..4 and the default dim; error stream on both sides of every threshold: orientation entries off by 0.98/1.02/3+ '
            'tolerances, merge axis tilted by Pythagorean angles around 5e-4, zero / negative / swapped / duplicated steps (orders like '
            '(0,2,1)), off-axis steps with cosine 1-1/91165 vs 1-1/90313, non-singular axis, dim out of range, differing header slice '
            'dims, single input, broadcastable / non-broadcastable shape mismatches; non-trivial = more than one voxel or an error')

    @staticmethod
    def gen_cases(rng, tier):
        set_tier(tier)
        n_ok, n_err = (260, 260) if tier == 'quick' else (1800, 1800)
        cases = [gen_merge_ok(rng, with_keys=(i % 4 == 0)) for i in range(n_ok)]
        cases += [gen_merge_err(rng) for _ in range(n_err)]
        return cases

    run_impl = staticmethod(run_merge)
    coq_case = staticmethod(merge_case_to_coq)
    oracle = staticmethod(oracle_merge)
    messages = staticmethod(merge_msgs)
    signature = staticmethod(sig_merge)

    @staticmethod
    def nontrivial(case, obs):
        return 'err' in obs or len(case['ws'][0]['img']['data']) > 1

    shrink = staticmethod(_shrink_ws)


class ImgSplitPart:
    """NiftiWrapper.split: correspondence with Wrapper.Model.split_w + C04/C07/C13 image oracles."""
    NAME = 'imgsplit'
    CORR_REQUIRE = CORR_REQ
    CORR_CASE_TYPE = 'Wrapper.Corr.split_case'
    CORR_CHECK = 'Wrapper.Corr.check_split'
    CORR_SHOW = 'Wrapper.Corr.show_split'
    SHARD = 60
    IMPL_TIMEOUT = 30
    RULE = ('one image per case (3-5 D, extents 1..3, thorough 1..5 (5-D: 1..4), incl. trailing singleton dims and (X,Y,Z,1,V)), the affines of the merge part '
            '(sheared non-symmetric ones dominate), header slice dim 0/1/2/None, extension empty / slice_dim differing from the header / '
            'with keys; every dim incl. the default; errors: dim beyond the shape, 3-D default without slice dim, extension without '
            'slice_dim split along the header slice dim; non-trivial = at least two pieces or an error')

    @staticmethod
    def gen_cases(rng, tier):
        set_tier(tier)
        n, ne = (420, 40) if tier == 'quick' else (3000, 250)
        return [gen_split_case(rng) for _ in range(n)] + [gen_split_case(rng, err=True) for _ in range(ne)]

    run_impl = staticmethod(run_split)
    coq_case = staticmethod(split_case_to_coq)
    oracle = staticmethod(oracle_split)
    messages = staticmethod(split_msgs)
    signature = staticmethod(sig_split)

    @staticmethod
    def nontrivial(case, obs):
        return 'err' in obs or len(obs.get('pieces', [])) >= 2

    @staticmethod
    def shrink(case):
        if case['w'].get('ext') is not None:
            c = copy.deepcopy(case)
            c['w']['ext'] = None
            yield c


class ImgRoundTripPart:
    """split then merge / merge then split through the real wrappers: correspondence with the composed model + C05 oracle."""
    NAME = 'imgrt'
    CORR_REQUIRE = CORR_REQ
    CORR_CASE_TYPE = 'Wrapper.Corr.rt_case'
    CORR_CHECK = 'Wrapper.Corr.check_rt'
    CORR_SHOW = 'Wrapper.Corr.show_rt'
    SHARD = 40
    IMPL_TIMEOUT = 40
    RULE = ('split-merge: an image with at least two positions on the chosen axis (every dim 0..ndim-1) is split and the pieces are '
            'merged back along the same dim; merge-split: a mergeable sequence (as in imgmerge) is merged and split again; extensions '
            'empty or canonical with keys; non-trivial = at least two positions on the axis and more than one voxel, or an error')

    @staticmethod
    def gen_cases(rng, tier):
        set_tier(tier)
        return [gen_rt_case(rng) for _ in range(240 if tier == 'quick' else 1800)]

    run_impl = staticmethod(run_rt)
    coq_case = staticmethod(rt_case_to_coq)
    oracle = staticmethod(oracle_rt)
    messages = staticmethod(rt_msgs)
    signature = staticmethod(sig_rt)

    @staticmethod
    def nontrivial(case, obs):
        if 'err' in obs:
            return True
        I = case['w']['img'] if case['mode'] == 'sm' else case['ws'][0]['img']
        npos = I['shape'][case['dim']] if case['mode'] == 'sm' else len(case['ws'])
        return npos >= 2 and len(I['data']) > 1

    @staticmethod
    def shrink(case):
        if case['mode'] == 'ms':
            yield from _shrink_ws(case)
        elif case['w'].get('ext') is not None:
            c = copy.deepcopy(case)
            c['w']['ext'] = None
            yield c
