"""Image level of NiftiWrapper (from_sequence / split): generators, implementation runner, Coq printers,
property oracles and the reusable plugin parts  ImgMergePart, ImgSplitPart, ImgRoundTripPart.
Model: coq/Wrapper/Model.v, glue: coq/Wrapper/Corr.v.

JSON forms
    image   I = {"shape": [..], "data": [ints, C order], "aff": [[float]*4]*4, "slice": int|None, "dtype": "int16"|"int32"}
    wrapper W = {"img": I, "ext": E|None}        E = extlib JSON extension; None = NiftiWrapper(nii, make_empty=True)
    observed wrapper O = {"shape","data","aff","slice","ext": E}
Affine entries are dyadic floats that are exact in float32 as well (nibabel stores sform/qform as float32 and
from_sequence / split read them back); vectors that the code normalises have RATIONAL norms (axis aligned or
integer Pythagorean triples times a dyadic scale), so that the model's exact square roots apply.

The oracles are written from the property statements (C03/C04/C05/C07 image halves + C13 "inputs untouched") with
numpy-free exact arithmetic on the observations; they never consult the Coq model."""
import copy, math, itertools
from fractions import Fraction as Fr

from vlib.coqlit import cnat, cz, cbool, clist, copt, cpair, cq
from props import extlib

# the image-level theorem files and their theorems (for the COQ_PROPS / THEOREMS of the property plugins)
COQ_PROPS = ['Props/C03img.v', 'Props/C04img.v', 'Props/C05img.v', 'Props/C07img.v']
THEOREMS = {'Props/C03img.v': ['C03img_data', 'C03img_affine', 'C03img_slice', 'C03img_refuse', 'C03img_refuse_exists', 'C03img_never_crashes',
                               'C03img_dim_argument', 'C03img_step_test', 'C03w_lookup'],
            'Props/C04img.v': ['C04img_pieces', 'C04img_default_dim', 'C04img_ext_shape', 'C04w_lookup',
                               'C04img_split_models_agree', 'C04img_split_models_differ'],
            'Props/C05img.v': ['C05img_split_merge', 'C05img_merge_split', 'C05w_split_merge'],
            'Props/C07img.v': ['C07img_merge', 'C07img_merge_sdim_partial', 'C07img_merge_sdim_refuted', 'C07img_split']}
TRUSTED_BASE = ['coq/Wrapper/Model.v: hand model of NiftiWrapper.from_sequence / split / the final check_valid of __init__ '
                '(tied to the code by the imgmerge / imgsplit / imgrt correspondence parts)',
                'the two sqrt normalisations of NiftiWrapper.from_sequence are a function parameter `unitv` of the model; theorems '
                'quantify over it; the correspondence instantiates it with exact rational square roots (Wrapper.Corr.unit_exact, '
                'proved to satisfy the per-vector hypothesis unit_ok on rational-norm vectors)',
                'tolerance literals 5e-4 / 1e-6 / numpy defaults of NiftiWrapper.from_sequence are written in Wrapper/Model.v '
                '(no table translator); both sides of each threshold are exercised by the imgmerge error stream']
ASSUMPTIONS = ['nibabel header book-keeping is not modelled: qform/sform codes and their float32 storage, intent, slice_duration, '
               'slice_times, xyzt_units, freq/phase dim_info, dtype promotion; an image is (shape, C-order data, best affine, slice dim)',
               'correspondence domain: images built in memory with nb.Nifti1Image(data, affine), affine entries dyadic and exact in '
               'float32, every vector the code normalises has a rational norm (axis aligned / integer Pythagorean), comparisons not '
               'within float rounding of a tolerance (error stream keeps a 2% margin); negative dim arguments only for from_sequence',
               'float arithmetic is modelled exactly in Q; on the domain above every float operation of the implementation is exact '
               'except the normalisations, whose rounding (1 ulp) is far inside the margins']

ERRMAP = dict(extlib.ERRMAP, MissingExtensionError='EMissingExt', HeaderDataError='EHeaderData')

# signatures of the known image-level findings (see known-findings.txt / DESIGN.md section 7)
SIG_N8 = 'imgmerge/ext-sdim-kept-when-header-slice-erased'      # open: property=C07

# ------------------------------------------------------------------------------------------ implementation side


def build_w(W):
    np, dcmmeta = extlib._imports()
    import nibabel as nb
    I = W['img']
    data = np.array(I['data'], dtype=I.get('dtype', 'int32')).reshape(tuple(I['shape']))
    nii = nb.Nifti1Image(data, np.array(I['aff'], dtype=float))
    nii.header.set_dim_info(None, None, I['slice'])
    if W.get('ext') is None:
        return dcmmeta.NiftiWrapper(nii, make_empty=True)
    nii.header.extensions.append(extlib.build_ext(W['ext']))
    return dcmmeta.NiftiWrapper(nii)


def observe(w):
    np, _ = extlib._imports()
    nii = w.nii_img
    return {'shape': [int(x) for x in nii.shape],
            'data': [int(x) for x in np.asanyarray(nii.dataobj).ravel()],
            'aff': [[float(x) for x in row] for row in nii.affine],
            'best': [[float(x) for x in row] for row in nii.header.get_best_affine()],
            'slice': (lambda s: None if s is None else int(s))(nii.header.get_dim_info()[2]),
            'ext': extlib.ext_to_json(w.meta_ext)}


def snapshot(w):
    """Everything of an input that a call must leave alone."""
    np, _ = extlib._imports()
    nii = w.nii_img
    return (np.asanyarray(nii.dataobj).tobytes(), tuple(nii.shape), nii.affine.tobytes(),
            nii.header.get_best_affine().tobytes(), repr(nii.header.get_dim_info()),
            repr(extlib.ext_to_json(w.meta_ext)))


def _err(e):
    name = type(e).__name__
    if name == 'ValueError' and str(e).startswith('abs:'):
        return {'err': 'ECrash', 'exc': 'Abstraction', 'msg': str(e)}
    return {'err': ERRMAP.get(name, 'ECrash'), 'exc': name, 'msg': str(e)[:200]}


def run_merge(case):
    np, dcmmeta = extlib._imports()
    ws = [build_w(W) for W in case['ws']]
    before = [snapshot(w) for w in ws]
    out = {'in_exts': [extlib.ext_to_json(w.meta_ext) for w in ws]}
    try:
        r = dcmmeta.NiftiWrapper.from_sequence(ws, case['dim'])
        out['res'] = observe(r)
    except Exception as e:        # noqa: BLE001  (every exception class is an observation)
        out.update(_err(e))
    out['untouched'] = [snapshot(w) for w in ws] == before
    return out


def run_split(case):
    np, dcmmeta = extlib._imports()
    w = build_w(case['w'])
    before = snapshot(w)
    out = {'in_exts': [extlib.ext_to_json(w.meta_ext)]}
    try:
        out['pieces'] = [observe(p) for p in w.split(case['dim'])]
    except Exception as e:        # noqa: BLE001
        out.update(_err(e))
    out['untouched'] = snapshot(w) == before
    return out


def run_rt(case):
    np, dcmmeta = extlib._imports()
    NW = dcmmeta.NiftiWrapper
    dim = case['dim']
    if case['mode'] == 'sm':
        w = build_w(case['w'])
        before = snapshot(w)
        out = {'in_exts': [extlib.ext_to_json(w.meta_ext)]}
        try:
            pieces = list(w.split(dim))
            out['res'] = observe(NW.from_sequence(pieces, dim))
        except Exception as e:    # noqa: BLE001
            out.update(_err(e))
        out['untouched'] = snapshot(w) == before
        return out
    ws = [build_w(W) for W in case['ws']]
    before = [snapshot(w) for w in ws]
    out = {'in_exts': [extlib.ext_to_json(w.meta_ext) for w in ws]}
    try:
        out['pieces'] = [observe(p) for p in NW.from_sequence(ws, dim).split(dim)]
    except Exception as e:        # noqa: BLE001
        out.update(_err(e))
    out['untouched'] = [snapshot(w) for w in ws] == before
    return out


# ------------------------------------------------------------------------------------------ Coq printers

def img_to_coq(I):
    return '(Wrapper.Model.mk_img %s %s %s %s)' % (clist(cnat(x) for x in I['shape']), clist(cz(int(v)) for v in I['data']),
                                                  extlib.caff(I['aff']), copt(I['slice'], cnat))


def w_to_coq(W, E):
    return cpair(img_to_coq(W['img']), extlib.ext_to_coq(E))


def wobs_to_coq(o):
    return '(WOk %s %s %s %s %s)' % (clist(cnat(x) for x in o['shape']), clist(cz(v) for v in o['data']), extlib.caff(o['aff']),
                                     copt(o['slice'], cnat), extlib.ext_to_coq(o['ext']))


def res_to_coq(obs):
    if 'res' in obs:
        return wobs_to_coq(obs['res'])
    return '(WErr %s)' % obs.get('err', 'ECrash')


def lres_to_coq(obs):
    if 'pieces' in obs:
        return '(LOk %s)' % clist(wobs_to_coq(p) for p in obs['pieces'])
    return '(LErr %s)' % obs.get('err', 'ECrash')


def _need(obs):
    if 'crash' in obs or 'in_exts' not in obs:
        raise ValueError('no observation')


def merge_case_to_coq(case, obs):
    _need(obs)
    ws = clist(w_to_coq(W, E) for W, E in zip(case['ws'], obs['in_exts']))
    return '(Wrapper.Corr.mk_merge_case %s %s %s %s)' % (ws, copt(case['dim'], cz), res_to_coq(obs), cbool(bool(obs['untouched'])))


def split_case_to_coq(case, obs):
    _need(obs)
    return '(Wrapper.Corr.mk_split_case %s %s %s %s)' % (w_to_coq(case['w'], obs['in_exts'][0]), copt(case['dim'], cnat),
                                                         lres_to_coq(obs), cbool(bool(obs['untouched'])))


def rt_case_to_coq(case, obs):
    _need(obs)
    if case['mode'] == 'sm':
        return '(RtSM (mk_sm_case %s %s %s %s))' % (w_to_coq(case['w'], obs['in_exts'][0]), cnat(case['dim']), res_to_coq(obs),
                                                    cbool(bool(obs['untouched'])))
    ws = clist(w_to_coq(W, E) for W, E in zip(case['ws'], obs['in_exts']))
    return '(RtMS (mk_ms_case %s %s %s %s))' % (ws, cnat(case['dim']), lres_to_coq(obs), cbool(bool(obs['untouched'])))


# ------------------------------------------------------------------------------------------ generators

SCALES = [0.5, 1.0, 1.5, 2.0, 3.0, 0.75, 2.5, 0.25]
# mutually orthogonal integer vectors of equal (integer) length
TRIADS = [[(3, 4, 0), (-4, 3, 0), (0, 0, 5)], [(2, 3, 6), (3, -6, 2), (6, 2, -3)], [(1, 2, 2), (2, 1, -2), (2, -2, 1)],
          [(5, 12, 0), (-12, 5, 0), (0, 0, 13)], [(0, 3, 4), (0, -4, 3), (5, 0, 0)], [(4, 0, 3), (-3, 0, 4), (0, 5, 0)],
          [(2, 6, 9), (6, 7, -6), (9, -6, 2)]]
TRANS = [0.0, -8.0, 10.5, 3.0, 0.25, -100.5, 64.0, 7.75]


def det3(m):
    return (m[0][0] * (m[1][1] * m[2][2] - m[1][2] * m[2][1]) - m[0][1] * (m[1][0] * m[2][2] - m[1][2] * m[2][0])
            + m[0][2] * (m[1][0] * m[2][1] - m[1][1] * m[2][0]))


def gen_img_affine(rng, kind=None, keep=None):
    """4x4 affine, entries dyadic and float32-exact.  kinds: diag (axis aligned, anisotropic), perm (axes permuted /
    flipped: sagittal, coronal...), oblique (integer Pythagorean triad, columns shuffled, flipped and scaled
    independently -> NON-symmetric 3x3), shear (like oblique/diag but the columns other than `keep` are arbitrary:
    only column `keep` is guaranteed a rational norm)."""
    kind = kind or rng.choice(['diag', 'perm', 'oblique', 'oblique', 'shear'])
    cols = None
    if kind == 'diag':
        cols = [[0.0] * 3 for _ in range(3)]
        for j in range(3):
            cols[j][j] = rng.choice(SCALES) * rng.choice([1, 1, -1])
    elif kind == 'perm':
        p = rng.choice([q for q in itertools.permutations(range(3)) if q != (0, 1, 2)])
        cols = [[0.0] * 3 for _ in range(3)]
        for j in range(3):
            cols[j][p[j]] = rng.choice(SCALES) * rng.choice([1, -1])
    else:
        tri = [list(v) for v in rng.choice(TRIADS)]
        rng.shuffle(tri)
        cols = [[x * s for x in v] for v, s in ((v, rng.choice(SCALES) * rng.choice([1, -1])) for v in tri)]
        if kind == 'shear':
            k = keep if keep is not None else rng.randrange(3)
            while True:
                c2 = [cols[j] if j == k else [rng.choice([0.0, 0.5, 1.0, -1.0, 2.0, -0.5, 0.25, 3.0]) for _ in range(3)] for j in range(3)]
                m = [[c2[j][i] for j in range(3)] for i in range(3)]
                if det3(m) != 0:
                    cols = c2
                    break
    tr = [rng.choice(TRANS) for _ in range(3)]
    return [[cols[0][i], cols[1][i], cols[2][i], tr[i]] for i in range(3)] + [[0.0, 0.0, 0.0, 1.0]]


def col(A, j):
    return [A[i][j] for i in range(3)]


def with_col(A, j, v):
    B = [list(r) for r in A]
    for i in range(3):
        B[i][j] = v[i]
    return B


def shifted(A, v):
    return with_col(A, 3, [A[i][3] + v[i] for i in range(3)])


def gen_img_shape(rng, ndim=None, singular=None, trailing=None):
    """3-5-D, extents 1..3; singular = axis forced to 1; trailing=True forces (X,Y,Z,1) / (X,Y,Z,1,V) style shapes."""
    ndim = ndim or rng.choice([3, 3, 4, 4, 5, 5])
    sh = [rng.randint(1, 3) for _ in range(ndim)]
    if trailing and ndim >= 4:
        sh[3] = 1
    if singular is not None and singular < ndim:
        sh[singular] = 1
    return sh


_counter = [0]


def gen_data(rng, shape, base=None):
    n = 1
    for s in shape:
        n *= s
    base = rng.randrange(0, 20) * 1000 if base is None else base
    vals = list(range(base, base + n))
    return vals


def mk_I(rng, shape, aff, sl, base):
    return {'shape': list(shape), 'data': gen_data(rng, shape, base), 'aff': aff, 'slice': sl, 'dtype': rng.choice(['int16', 'int32'])}


def gen_ext_for(rng, shape, sl, aff, keys=True):
    """None (make_empty: slice_dim := header's), or an explicit empty extension whose slice_dim / affine may differ
    from the image's, or a key-carrying one (only outside the regions of the open extension-level findings)."""
    r = rng.random()
    if r < 0.5:
        return None
    trailing = len(shape) > 3 and shape[-1] == 1
    if r < 0.75 or trailing or not keys:
        sd = rng.choice([0, 1, 2, None, sl, sl])
        return extlib.mk_E(shape, sd, aff if rng.random() < 0.7 else extlib.gen_affine(rng), {})
    sd = sl if (sl is not None and rng.random() < 0.7) else rng.choice([0, 1, 2])
    return extlib.gen_ext(rng, 'quick', shape=list(shape), sdim=sd, aff=aff if rng.random() < 0.7 else None, nkeys=rng.randint(1, 3))


def pick_merge_shape(rng, dim):
    if dim < 3:
        nd = rng.choice([3, 3, 4, 5])
        return gen_img_shape(rng, nd, singular=dim, trailing=rng.random() < 0.25)
    if dim == 3:
        nd = rng.choice([3, 3, 4, 5])
        return gen_img_shape(rng, nd, singular=3, trailing=False)
    nd = rng.choice([3, 4, 4, 5])
    sh = gen_img_shape(rng, nd, singular=4)
    if nd == 4 and sh[3] == 1 and rng.random() < 0.9:       # (X,Y,Z,1) along dim 4 is the open finding N1: keep it rare
        sh[3] = rng.randint(2, 3)
    return sh


def gen_merge_ok(rng, dim=None, n=None, with_keys=False):
    """A sequence the property says must merge."""
    dim = rng.randrange(5) if dim is None else dim
    n = n or rng.randint(2, 4)
    sh = pick_merge_shape(rng, dim)
    A = gen_img_affine(rng, keep=dim if dim < 3 else None)
    sl = rng.choice([0, 1, 2, 2, None])
    affs = []
    if dim < 3:
        u = col(A, dim)
        pos = 0.0
        for i in range(n):
            Ai = shifted(A, [pos * x for x in u])
            if rng.random() < 0.25:       # the merge axis may be scaled differently in every input
                f = rng.choice([0.5, 2.0, 1.5, 4.0])
                Ai = with_col(Ai, dim, [f * x for x in col(Ai, dim)])
            affs.append(Ai)
            pos += rng.choice([1.0, 1.0, 0.5, 2.0, 1.5])
    else:
        for i in range(n):
            Ai = A
            if rng.random() < 0.15:       # translations are not compared for non-spatial merges
                Ai = shifted(A, [rng.choice([1.0, -2.0, 0.5]) for _ in range(3)])
            affs.append(Ai)
    exts = [None] * n
    kind = 'merge/ok/dim%d/%dD' % (dim, len(sh))
    if with_keys and not (len(sh) > 3 and sh[-1] == 1):
        ec = extlib.gen_merge_case(rng, 'quick', dim=dim, ndim_in=len(sh))
        sh = list(ec['exts'][0]['shape'])
        n = len(ec['exts'])
        while len(affs) < n:
            affs.append(affs[-1] if dim >= 3 else shifted(affs[-1], col(A, dim)))
        affs = affs[:n]
        exts = ec['exts']
        sl = ec['exts'][0]['sdim'] if rng.random() < 0.8 else sl
        kind += '/keys'
    else:
        # (key-carrying extensions only as consistent sets from extlib.gen_merge_case: a lone one next to empty extensions
        #  is the region of the open extension-level findings N3 / N4)
        exts = [gen_ext_for(rng, sh, sl, affs[i], keys=False) if rng.random() < 0.5 else None for i in range(n)]
    ws = [{'img': mk_I(rng, sh, affs[i], sl, 1000 * i), 'ext': exts[i]} for i in range(n)]
    return {'kind': kind, 'ws': ws, 'dim': dim}


def near_axis_step(n):
    """integer vector (0, 2n+1, 2n^2+2n) of integer length 2n^2+2n+1: cosine with e_z = 1 - 1/(2n^2+2n+1)"""
    return (0, 2 * n + 1, 2 * n * n + 2 * n), 2 * n * n + 2 * n + 1


def gen_merge_err(rng):
    """Sequences around the refusal conditions (both sides of every threshold) and the argument errors."""
    what = rng.choice(['orient-below', 'orient-above', 'orient-far', 'tilt-below', 'tilt-above', 'zero-step', 'neg-step', 'swap', 'dup',
                       'offaxis-below', 'offaxis-above', 'offaxis-far', 'nonsingular', 'dim-range', 'slices-differ', 'default-dim',
                       'single', 'shape-mismatch', 'n1-region'])
    c = gen_merge_ok(rng, n=rng.randint(3, 4) if what in ('swap', 'dup') else None,
                     dim=rng.randrange(3) if what in ('zero-step', 'neg-step', 'swap', 'dup') else None)
    dim, ws = c['dim'], c['ws']
    n = len(ws)
    c['kind'] = 'merge/' + what
    A0 = ws[0]['img']['aff']
    if what.startswith('orient'):
        # one entry of a non-merge axis of one later input moved by tol*(1 -/+ 1%) or far
        i = rng.randrange(1, n)
        j = rng.choice([a for a in range(3) if a != dim])
        k = rng.randrange(3)
        A = [list(r) for r in ws[i]['img']['aff']]
        tol = 5e-4 + 1e-5 * abs(A0[k][j])
        f = {'orient-below': 0.98, 'orient-above': 1.02, 'orient-far': rng.choice([3.0, 40.0, 1000.0])}[what]
        A[k][j] = A[k][j] + rng.choice([1, -1]) * tol * f
        ws[i]['img']['aff'] = A
        for w in ws:
            w['ext'] = None
    elif what.startswith('tilt'):
        # merge axis e_z-like direction tilted by a Pythagorean vector: normalised difference 1/n-ish around 5e-4
        dim = rng.randrange(3)
        sh = pick_merge_shape(rng, dim)
        nn = {'tilt-below': 2001, 'tilt-above': 1999}[what]
        (a, b, cc), m = near_axis_step(nn)
        o = [x for x in range(3) if x != dim]
        base = [[0.0] * 4 for _ in range(3)] + [[0.0, 0.0, 0.0, 1.0]]
        base[o[0]][o[0]] = 2.0
        base[o[1]][o[1]] = 1.5
        base[dim][dim] = 1.0
        for r in range(3):
            base[r][3] = rng.choice(TRANS)
        tilt = [0.0, 0.0, 0.0]
        tilt[o[1]] = float(b)
        tilt[dim] = float(cc)
        ws = []
        for i in range(rng.randint(2, 3)):
            Ai = shifted(base, [float(i) * x for x in col(base, dim)])
            if i >= 1:
                Ai = with_col(Ai, dim, [x / 1048576.0 for x in tilt])
            ws.append({'img': mk_I(rng, sh, Ai, 2, 1000 * i), 'ext': None})
        c.update(ws=ws, dim=dim)
    elif what in ('zero-step', 'dup'):
        i = rng.randrange(1, n)
        ws[i]['img']['aff'] = with_col(ws[i]['img']['aff'], 3, col(ws[i - 1]['img']['aff'], 3))
    elif what == 'neg-step':
        c['ws'] = ws[::-1]
    elif what == 'swap':
        order = rng.choice([p for p in itertools.permutations(range(n)) if list(p) != list(range(n)) and list(p) != list(range(n))[::-1]])
        c['ws'] = [ws[k] for k in order]
        c['order'] = list(order)
    elif what.startswith('offaxis'):
        dim = rng.randrange(3)
        sh = pick_merge_shape(rng, dim)
        nn = {'offaxis-below': 213, 'offaxis-above': 212, 'offaxis-far': rng.choice([1, 2, 3, 20])}[what]
        (a, b, cc), m = near_axis_step(nn)
        o = [x for x in range(3) if x != dim]
        base = [[0.0] * 4 for _ in range(3)] + [[0.0, 0.0, 0.0, 1.0]]
        base[o[0]][o[0]] = 2.0
        base[o[1]][o[1]] = -1.5
        base[dim][dim] = rng.choice([1.0, 2.0, 0.5])
        step = [0.0, 0.0, 0.0]
        step[o[0]] = float(b) * 0.25
        step[dim] = float(cc) * 0.25
        ws = []
        for i in range(rng.randint(2, 3)):
            ws.append({'img': mk_I(rng, sh, shifted(base, [float(i) * x for x in step]), dim, 1000 * i), 'ext': None})
        c.update(ws=ws, dim=dim)
    elif what == 'nonsingular':
        sh = ws[0]['img']['shape']
        bad = [d for d in range(len(sh)) if sh[d] != 1]
        if bad:
            c['dim'] = rng.choice(bad)
        else:
            c['kind'] = c['kind'].replace('nonsingular', 'ok/all-singular')
    elif what == 'dim-range':
        c['dim'] = rng.choice([5, 6, 7, -1, -2])
    elif what == 'slices-differ':
        sls = [rng.choice([0, 1, 2, None]) for _ in ws]
        for w, s in zip(ws, sls):
            w['img']['slice'] = s
            if w['ext'] is not None and rng.random() < 0.5:
                w['ext'] = None
    elif what == 'default-dim':
        nd = rng.choice([3, 3, 3, 4, 5])
        sh = gen_img_shape(rng, nd)
        if nd == 3 and rng.random() < 0.7:
            for a in rng.sample(range(3), rng.randint(1, 2)):
                sh[a] = 1
        A = gen_img_affine(rng, 'oblique')
        ones = [a for a in range(3) if sh[a] == 1]
        d = (ones[-1] if ones else 3) if nd == 3 else 4
        ws = []
        for i in range(rng.randint(2, 3)):
            Ai = shifted(A, [float(i) * x for x in col(A, d)]) if d < 3 else A
            ws.append({'img': mk_I(rng, sh, Ai, rng.choice([2, None]), 1000 * i), 'ext': None})
        c.update(ws=ws, dim=None)
    elif what == 'single':
        c['ws'] = ws[:1]
    elif what == 'shape-mismatch':
        i = rng.randrange(n)
        sh = list(ws[i]['img']['shape'])
        mode = rng.choice(['suffix', 'scalar', 'other'])
        if mode == 'scalar':
            sh2 = [1] * len(sh)
        elif mode == 'suffix':
            sh2 = list(sh)
            nz = [a for a in range(len(sh)) if sh[a] != 1]
            if nz:
                sh2[nz[0]] = 1
        else:
            sh2 = [rng.randint(1, 3) for _ in sh]
            if dim < len(sh2):
                sh2[dim] = 1
        ws[i]['img'] = mk_I(rng, sh2, ws[i]['img']['aff'], ws[i]['img']['slice'], 7000)
        ws[i]['ext'] = None
    elif what == 'n1-region':
        # open finding N1: 4-D inputs with T = 1 merged along dim 4 (KeyError 'time' from the extension merge)
        sh = gen_img_shape(rng, 4, singular=3)
        A = gen_img_affine(rng)
        c.update(ws=[{'img': mk_I(rng, sh, A, 2, 1000 * i), 'ext': None} for i in range(2)], dim=4)
    return c


def gen_split_case(rng, err=False):
    nd = rng.choice([3, 3, 4, 4, 5, 5])
    sh = gen_img_shape(rng, nd, trailing=rng.random() < 0.3)
    if nd >= 4 and rng.random() < 0.15:
        sh[-1] = 1
    A = gen_img_affine(rng, rng.choice(['diag', 'perm', 'oblique', 'shear', 'shear']))
    sl = rng.choice([0, 1, 2, 2, None])
    ext = gen_ext_for(rng, sh, sl, A)
    if ext is not None and ext['entries'] and (ext['sdim'] is None):
        ext = None
    dim = rng.choice(list(range(nd)) + [None])
    kind = 'split/dim%s/%dD%s' % (dim, nd, '/trailing1' if (nd > 3 and sh[-1] == 1) else ('/T1' if nd == 5 and sh[3] == 1 else ''))
    if err:
        w = rng.choice(['dim-range', 'no-slice-3d', 'ext-no-sdim'])
        kind = 'split/err/' + w
        if w == 'dim-range':
            dim = rng.choice([nd, nd + 1, 5, 6])
        elif w == 'no-slice-3d':
            nd, sh, sl, dim = 3, gen_img_shape(rng, 3), None, None
            ext = None
        else:
            sl = rng.choice([0, 1, 2])
            dim = sl
            ext = extlib.mk_E(sh, None, A, {})
    return {'kind': kind, 'w': {'img': mk_I(rng, sh, A, sl, 0), 'ext': ext}, 'dim': dim}


def gen_rt_case(rng):
    if rng.random() < 0.5:
        nd = rng.choice([3, 4, 5])
        sh = gen_img_shape(rng, nd, trailing=rng.random() < 0.2)
        dim = rng.randrange(nd)
        if sh[dim] < 2:
            sh[dim] = rng.randint(2, 3)
        if nd > 3 and sh[-1] == 1 and rng.random() < 0.7:
            sh[-1] = 2
        A = gen_img_affine(rng, keep=dim if dim < 3 else None)
        sl = rng.choice([0, 1, 2, 2, None])
        ext = None
        if not (nd > 3 and sh[-1] == 1) and rng.random() < 0.4:
            sd = sl if sl is not None else 2
            ext = extlib.gen_ext(rng, 'quick', shape=list(sh), sdim=sd, aff=A, nkeys=rng.randint(1, 3), widen=0.0)
        return {'kind': 'rt/split-merge/dim%d/%dD' % (dim, nd), 'mode': 'sm', 'w': {'img': mk_I(rng, sh, A, sl, 0), 'ext': ext}, 'dim': dim}
    c = gen_merge_ok(rng, with_keys=rng.random() < 0.3)
    return {'kind': c['kind'].replace('merge/ok', 'rt/merge-split'), 'mode': 'ms', 'ws': c['ws'], 'dim': c['dim']}


# ------------------------------------------------------------------------------------------ exact helpers for the oracles

def F(x):
    return Fr(x)


def fmat(A):
    return [[Fr(x) for x in r] for r in A]


def fcol(A, j):
    return [Fr(A[i][j]) for i in range(3)]


def norm(v):
    return math.sqrt(float(sum(x * x for x in v)))


def offset(shape, idx):
    o = 0
    for s, i in zip(shape, idx):
        o = o * s + i
    return o


def indices(shape):
    return itertools.product(*[range(s) for s in shape])


def merged_shape(sh, dim, n):
    out = list(sh)
    while len(out) <= dim:
        out.append(1)
    out[dim] = n
    return out


def default_merge_dim(sh):
    if len(sh) == 3:
        ones = [a for a in range(3) if sh[a] == 1]
        return ones[-1] if ones else 3
    if len(sh) == 4:
        return 4
    return None


def classify_merge(ws, dim):
    """'accept' / 'refuse' / None (too close to a tolerance to call without the code's own arithmetic).
    Written from the property: same orientation (within the code's tolerances, with a factor-2 dead zone) and, for a
    spatial merge axis, every consecutive translation step non-zero and pointing along the merge axis."""
    A0 = ws[0]['img']['aff']
    verdict = 'accept'
    for W in ws:
        A = W['img']['aff']
        for j in range(3):
            a, b = fcol(A, j), fcol(A0, j)
            if j == dim:
                na, nb_ = norm(a), norm(b)
                if na == 0 or nb_ == 0:
                    return None
                a, b = [float(x) / na for x in a], [float(x) / nb_ for x in b]
            for x, y in zip(a, b):
                d, tol = abs(float(x) - float(y)), 5e-4 + 1e-5 * abs(float(y))
                if d > 2 * tol:
                    verdict = 'refuse'
                elif d > tol / 2 and verdict == 'accept':
                    verdict = None
    if dim < 3:
        for Wp, W in zip(ws, ws[1:]):
            td = [x - y for x, y in zip(fcol(W['img']['aff'], 3), fcol(Wp['img']['aff'], 3))]
            if all(x == 0 for x in td):
                verdict = 'refuse'
                continue
            if all(abs(x) <= Fr(1, 1000000) for x in td):
                return None
            ax = fcol(W['img']['aff'], dim)
            cosv = float(sum(x * y for x, y in zip(td, ax))) / (norm(td) * norm(ax))
            if abs(cosv - 1) > 2 * 1.1e-5:
                verdict = 'refuse'
            elif abs(cosv - 1) > 1.1e-5 / 2 and verdict == 'accept':
                verdict = None
    return verdict


def consistent(W, E):
    """input wrapper whose extension agrees with its image (the C07 invariant)"""
    return E['shape'] == W['img']['shape'] and E['sdim'] == W['img']['slice']


def oracle_merge(case, obs):
    """C03 (data stacked in input order, affine extended, refusals), C07 (result extension matches the result image),
    C13 (inputs untouched) at the image level."""
    if 'crash' in obs:
        return 'harness: %s %s' % (obs.get('crash'), obs.get('msg'))
    if obs.get('untouched') is False:
        return 'C13: from_sequence modified an input image / extension'
    ws, dim = case['ws'], case['dim']
    n = len(ws)
    sh = ws[0]['img']['shape']
    if n < 2 or any(W['img']['shape'] != sh for W in ws):
        return None                                   # outside the property's quantifier
    if dim is None:
        dim = default_merge_dim(sh)
        if dim is None:
            return None
    elif not (0 <= dim < 5) or (dim < len(sh) and sh[dim] != 1):
        return None if obs.get('err') == 'EValue' else 'C03: bad dim argument %r: expected ValueError, got %r' % (dim, obs.get('exc') or 'a result')
    verdict = classify_merge(ws, dim)
    if verdict is None:
        return None
    if verdict == 'refuse':
        return None if obs.get('err') == 'EValue' else \
            'C03: orientation differs / positions not increasing along the merge axis: expected ValueError, got %r' % (obs.get('exc') or 'a result')
    if 'err' in obs:
        if not all(consistent(W, X) for W, X in zip(ws, obs['in_exts'])):
            return None                               # an extension that contradicts its image may legitimately fail to merge
        return 'C03: mergeable sequence: from_sequence(dim=%r) raised %s: %s' % (case['dim'], obs.get('exc'), obs.get('msg'))
    R = obs['res']
    rsh = merged_shape(sh, dim, n)
    if R['shape'] != rsh:
        return 'C03: result shape %r, expected %r' % (R['shape'], rsh)
    for idx in indices(rsh):
        src = list(idx)
        i = src[dim]
        src[dim] = 0
        src = src[:len(sh)]
        if R['data'][offset(rsh, idx)] != ws[i]['img']['data'][offset(sh, src)]:
            return 'C03: voxel %r of the result is not voxel %r of input %d' % (idx, tuple(src), i)
    A0 = ws[0]['img']['aff']
    exp = fmat(A0)
    if dim < 3:
        t0, t1 = fcol(A0, 3), fcol(ws[1]['img']['aff'], 3)
        for r in range(3):
            exp[r][dim] = t1[r] - t0[r]
    if fmat(R['aff']) != exp:
        return 'C03: result affine %r, expected %r' % (R['aff'], [[float(x) for x in r] for r in exp])
    if R['best'] != R['aff']:
        return 'C03: result header best affine differs from the image affine'
    sls = [W['img']['slice'] for W in ws]
    esl = sls[0] if all(s == sls[0] for s in sls) else None
    if R['slice'] != esl:
        return 'C03: result header slice dim %r, expected %r' % (R['slice'], esl)
    E = R['ext']
    if E['shape'] != R['shape'] and obs['in_exts'][0]['shape'] == sh:
        return 'C07: extension shape %r differs from image shape %r' % (E['shape'], R['shape'])
    if fmat(E['aff']) != fmat(R['aff']):
        return 'C07: extension affine differs from the image affine'
    if E['sdim'] != R['slice'] and all(consistent(W, X) for W, X in zip(ws, obs['in_exts'])):
        return 'C07: extension slice_dim %r differs from the header slice dim %r' % (E['sdim'], R['slice'])
    return None


def sig_merge(case, obs, msg):
    ws = case['ws']
    if msg and msg.startswith('C07: extension slice_dim') and obs['res']['slice'] is None and obs['in_exts'][0]['sdim'] is not None:
        return SIG_N8
    if 'err' in obs and 'in_exts' in obs:
        dim = case['dim'] if case['dim'] is not None else default_merge_dim(ws[0]['img']['shape'])
        s = extlib.finding_sig_merge({'exts': obs['in_exts'], 'dim': -1 if dim is None else dim, 'sdim_arg': None}, obs)
        if s:
            return s
    return 'imgmerge/%s/%s' % (case.get('kind', '?').split('/')[1] if '/' in case.get('kind', '') else '?',
                               obs.get('exc') if 'err' in obs else 'wrong-result')


def piece_shape(sh, dim):
    out = list(sh)
    out[dim] = 1
    while len(out) > 3 and out[-1] == 1:
        out = out[:-1]
    return out


def oracle_split(case, obs):
    """C04 (as many pieces as the axis is long, in order, piece i = hyperplane i, translation moved by i columns, linear
    part unchanged), C07 (piece extension shape = piece image shape, slice dim, 3x3 part), C13 (input untouched)."""
    if 'crash' in obs:
        return 'harness: %s %s' % (obs.get('crash'), obs.get('msg'))
    if obs.get('untouched') is False:
        return 'C13: split modified its input image / extension'
    I, dim = case['w']['img'], case['dim']
    sh = I['shape']
    E0 = obs['in_exts'][0]
    if dim is None:
        dim = len(sh) - 1
        if dim == 2:
            if I['slice'] is None:
                return None if obs.get('err') == 'EValue' else 'C04: slice dim unknown: expected ValueError'
            dim = I['slice']
    if dim >= len(sh):
        return None if 'err' in obs else 'C04: split along a missing axis returned pieces'
    if not consistent(case['w'], E0):
        return None                                   # the image half below is checked through the correspondence only
    if 'err' in obs:
        return 'C04: split(dim=%r) raised %s: %s' % (case['dim'], obs.get('exc'), obs.get('msg'))
    P = obs['pieces']
    if len(P) != sh[dim]:
        return 'C04: %d pieces for an axis of length %d' % (len(P), sh[dim])
    psh = piece_shape(sh, dim)
    A = fmat(I['aff'])
    for i, p in enumerate(P):
        if p['shape'] != psh:
            return 'C04: piece %d has shape %r, expected %r' % (i, p['shape'], psh)
        for idx in indices(psh):
            src = list(idx) + [0] * (len(sh) - len(idx))
            src[dim] = i
            if p['data'][offset(psh, idx)] != I['data'][offset(sh, src)]:
                return 'C04: voxel %r of piece %d is not voxel %r of the parent' % (idx, i, tuple(src))
        exp = [list(r) for r in A]
        if dim < 3:
            for r in range(3):
                exp[r][3] = A[r][3] + i * A[r][dim]
        if fmat(p['aff']) != exp:
            return 'C04: piece %d affine %r, expected %r' % (i, p['aff'], [[float(x) for x in r] for r in exp])
        if p['best'] != p['aff']:
            return 'C04: piece %d: header best affine differs from the image affine' % i
        if p['slice'] != I['slice']:
            return 'C04: piece %d header slice dim %r, parent %r' % (i, p['slice'], I['slice'])
        X = p['ext']
        if X['shape'] != p['shape']:
            return 'C04,C07: (F5) piece %d extension shape %r differs from its image shape %r' % (i, X['shape'], p['shape'])
        if X['sdim'] != p['slice']:
            return 'C07: piece %d extension slice_dim %r, header %r' % (i, X['sdim'], p['slice'])
        if [r[:3] for r in fmat(X['aff'])[:3]] != [r[:3] for r in fmat(E0['aff'])[:3]]:
            return 'C07: piece %d extension 3x3 part changed' % i
    return None


def sig_split(case, obs, msg):
    if 'err' in obs and 'in_exts' in obs and case['dim'] is not None:
        s = extlib.finding_sig_subset({'ext': obs['in_exts'][0], 'dim': case['dim']}, obs)
        if s:
            return s
    return 'imgsplit/%s' % (obs.get('exc') if 'err' in obs else 'wrong-result')


def oracle_rt(case, obs):
    """C05 image half: split then merge in order reproduces shape, data and affine; merge then split returns the inputs' data."""
    if 'crash' in obs:
        return 'harness: %s %s' % (obs.get('crash'), obs.get('msg'))
    if obs.get('untouched') is False:
        return 'C13: the round trip modified an input image / extension'
    dim = case['dim']
    if case['mode'] == 'sm':
        I = case['w']['img']
        sh = I['shape']
        if sh[dim] < 2 or not consistent(case['w'], obs['in_exts'][0]):
            return None
        if 'err' in obs:
            return 'C05: split then merge along %d raised %s: %s' % (dim, obs.get('exc'), obs.get('msg'))
        R = obs['res']
        trimmed = list(sh)
        while len(trimmed) > 3 and trimmed[-1] == 1 and len(trimmed) - 1 > dim:
            trimmed = trimmed[:-1]
        if R['shape'] != trimmed:
            return 'C05: split then merge: shape %r, expected %r' % (R['shape'], trimmed)
        if R['data'] != I['data']:
            return 'C05: split then merge: voxel data differ'
        if fmat(R['aff']) != fmat(I['aff']):
            return 'C05: split then merge: affine %r, original %r' % (R['aff'], I['aff'])
        if R['slice'] != I['slice']:
            return 'C05: split then merge: header slice dim %r, original %r' % (R['slice'], I['slice'])
        return None
    ws = case['ws']
    sh = ws[0]['img']['shape']
    if len(ws) < 2 or any(W['img']['shape'] != sh for W in ws) or classify_merge(ws, dim) != 'accept':
        return None
    if not all(consistent(W, X) for W, X in zip(ws, obs['in_exts'])) or len(set(W['img']['slice'] for W in ws)) > 1:
        return None
    if 'err' in obs:
        return 'C05: merge then split along %d raised %s: %s' % (dim, obs.get('exc'), obs.get('msg'))
    P = obs['pieces']
    if len(P) != len(ws):
        return 'C05: merge then split: %d pieces from %d inputs' % (len(P), len(ws))
    for i, (p, W) in enumerate(zip(P, ws)):
        if p['data'] != W['img']['data']:
            return 'C05: merge then split: piece %d does not carry input %d\'s voxels' % (i, i)
        if p['shape'] != piece_shape(merged_shape(sh, dim, len(ws)), dim):
            return 'C05: merge then split: piece %d shape %r' % (i, p['shape'])
    return None


def sig_rt(case, obs, msg):
    if 'err' in obs and 'in_exts' in obs:
        if case['mode'] == 'ms':
            s = extlib.finding_sig_merge({'exts': obs['in_exts'], 'dim': case['dim'], 'sdim_arg': None}, obs)
        else:
            s = extlib.finding_sig_subset({'ext': obs['in_exts'][0], 'dim': case['dim']}, obs) or \
                extlib.finding_sig_merge({'exts': [dict(obs['in_exts'][0], shape=piece_shape(obs['in_exts'][0]['shape'], case['dim']))] * 2,
                                          'dim': case['dim'], 'sdim_arg': None}, obs)
        if s:
            return s
    return 'imgrt/%s/%s' % (case['mode'], obs.get('exc') if 'err' in obs else 'wrong-result')


# ------------------------------------------------------------------------------------------ parts

def for_property(part, pid):
    """The same part with its oracle restricted to the statements of ONE property.  Every oracle message starts with the ids
    of the properties it belongs to ('C03: ...', 'C04,C07: ...', 'C13: ...'); 'harness: ...' always passes.  Use
        PARTS = [imglib.for_property(imglib.ImgMergePart, 'C03'), ...]
    so that e.g. the open C07 finding N8 does not show up as a C03 failure."""
    class P(part):
        @staticmethod
        def oracle(case, obs):
            m = part.oracle(case, obs)
            if not m or m.startswith('harness:'):
                return m
            tags = m.split(':', 1)[0].split(',')
            return m if pid in tags else None
    P.__name__ = '%s_%s' % (part.__name__, pid)
    return P


CORR_REQ = 'From DV Require Import Common.Jv Ext.Types Ext.Model Ext.Corr Orient.Model Wrapper.Model Wrapper.Corr.'


def _shrink_ws(case):
    ws = case['ws']
    if len(ws) > 2:
        for i in range(len(ws)):
            c = copy.deepcopy(case)
            del c['ws'][i]
            c.pop('order', None)
            yield c
    for i, W in enumerate(ws):
        if W.get('ext') is not None:
            c = copy.deepcopy(case)
            c['ws'][i]['ext'] = None
            yield c


class ImgMergePart:
    """NiftiWrapper.from_sequence: correspondence with Wrapper.Model.from_sequence_w + C03/C07/C13 image oracles."""
    NAME = 'imgmerge'
    CORR_REQUIRE = CORR_REQ
    CORR_CASE_TYPE = 'Wrapper.Corr.merge_case'
    CORR_CHECK = 'Wrapper.Corr.check_merge'
    CORR_SHOW = 'Wrapper.Corr.show_merge'
    SHARD = 60
    IMPL_TIMEOUT = 30
    RULE = ('2..4 in-memory Nifti images (3-5 D, extents 1..3 incl. (X,Y,Z,1) and (X,Y,Z,1,V), unique voxel values, int16/int32) with '
            'axis-aligned anisotropic, axis-permuted and integer-Pythagorean oblique affines (non-symmetric 3x3, sheared variants), '
            'any header slice dim, extensions empty / with a slice_dim or affine different from the image / carrying keys, merged along '
            'dims 0..4 and the default dim; error stream on both sides of every threshold: orientation entries off by 0.98/1.02/3+ '
            'tolerances, merge axis tilted by Pythagorean angles around 5e-4, zero / negative / swapped / duplicated steps (orders like '
            '(0,2,1)), off-axis steps with cosine 1-1/91165 vs 1-1/90313, non-singular axis, dim out of range, differing header slice '
            'dims, single input, broadcastable / non-broadcastable shape mismatches; non-trivial = more than one voxel or an error')

    @staticmethod
    def gen_cases(rng, tier):
        n_ok, n_err = (260, 260) if tier == 'quick' else (2500, 2500)
        cases = [gen_merge_ok(rng, with_keys=(i % 4 == 0)) for i in range(n_ok)]
        cases += [gen_merge_err(rng) for _ in range(n_err)]
        return cases

    run_impl = staticmethod(run_merge)
    coq_case = staticmethod(merge_case_to_coq)
    oracle = staticmethod(oracle_merge)
    signature = staticmethod(sig_merge)

    @staticmethod
    def nontrivial(case, obs):
        return 'err' in obs or len(case['ws'][0]['img']['data']) > 1

    shrink = staticmethod(_shrink_ws)


class ImgSplitPart:
    """NiftiWrapper.split: correspondence with Wrapper.Model.split_w + C04/C07/C13 image oracles."""
    NAME = 'imgsplit'
    CORR_REQUIRE = CORR_REQ
    CORR_CASE_TYPE = 'Wrapper.Corr.split_case'
    CORR_CHECK = 'Wrapper.Corr.check_split'
    CORR_SHOW = 'Wrapper.Corr.show_split'
    SHARD = 60
    IMPL_TIMEOUT = 30
    RULE = ('one image per case (3-5 D, extents 1..3 incl. trailing singleton dims and (X,Y,Z,1,V)), the affines of the merge part '
            '(sheared non-symmetric ones dominate), header slice dim 0/1/2/None, extension empty / slice_dim differing from the header / '
            'with keys; every dim incl. the default; errors: dim beyond the shape, 3-D default without slice dim, extension without '
            'slice_dim split along the header slice dim; non-trivial = at least two pieces or an error')

    @staticmethod
    def gen_cases(rng, tier):
        n, ne = (420, 40) if tier == 'quick' else (4000, 300)
        return [gen_split_case(rng) for _ in range(n)] + [gen_split_case(rng, err=True) for _ in range(ne)]

    run_impl = staticmethod(run_split)
    coq_case = staticmethod(split_case_to_coq)
    oracle = staticmethod(oracle_split)
    signature = staticmethod(sig_split)

    @staticmethod
    def nontrivial(case, obs):
        return 'err' in obs or len(obs.get('pieces', [])) >= 2

    @staticmethod
    def shrink(case):
        if case['w'].get('ext') is not None:
            c = copy.deepcopy(case)
            c['w']['ext'] = None
            yield c


class ImgRoundTripPart:
    """split then merge / merge then split through the real wrappers: correspondence with the composed model + C05 oracle."""
    NAME = 'imgrt'
    CORR_REQUIRE = CORR_REQ
    CORR_CASE_TYPE = 'Wrapper.Corr.rt_case'
    CORR_CHECK = 'Wrapper.Corr.check_rt'
    CORR_SHOW = 'Wrapper.Corr.show_rt'
    SHARD = 40
    IMPL_TIMEOUT = 40
    RULE = ('split-merge: an image with at least two positions on the chosen axis (every dim 0..ndim-1) is split and the pieces are '
            'merged back along the same dim; merge-split: a mergeable sequence (as in imgmerge) is merged and split again; extensions '
            'empty or canonical with keys; non-trivial = always')

    @staticmethod
    def gen_cases(rng, tier):
        return [gen_rt_case(rng) for _ in range(240 if tier == 'quick' else 2500)]

    run_impl = staticmethod(run_rt)
    coq_case = staticmethod(rt_case_to_coq)
    oracle = staticmethod(oracle_rt)
    signature = staticmethod(sig_rt)

    @staticmethod
    def nontrivial(case, obs):
        return True

    @staticmethod
    def shrink(case):
        if case['mode'] == 'ms':
            yield from _shrink_ws(case)
        elif case['w'].get('ext') is not None:
            c = copy.deepcopy(case)
            c['w']['ext'] = None
            yield c
