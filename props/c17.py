"""C17 -- dcmstack.reorder_voxels returns the same image in the requested orientation.

One part.  A case is {kind, shape, data, dtype, layout, aff, code}:
  vox_array = np.array(data, dtype).reshape(shape) (laid out per `layout`), affine = np.array(aff), voxel_order = code.
Valid stream: 48 codes (random letter case) x {48 axis-aligned, oblique} column-orthogonal affines with integer/dyadic
entries (every float operation of the implementation is exact) x 3-5 D shapes with sizes 1..4, unique voxel values.
Error stream: all strings of length 0-4 over LRAPSIlrapsi (quick: length <= 2 + a sample), junk characters, arrays
under 3-D, non-4x4 affines, an affine with a zero column.
"""
import os, itertools, math
from fractions import Fraction
from vlib.coqlit import *

ID = "C17"
COQ_PROPS = "Props/C17.v"
COQ_EXTRA_TARGETS = ["Orient/Corr.vo"]      # the correspondence glue is not a dependency of the theorems
THEOREMS = ["C17_data", "C17_affine", "C17_codes", "C17_axis_aligned", "C17_errors"]
ALLOWED_AXIOMS = []
RULE = ("valid: requested code (48, random letter case, incl. the non-ASCII characters that str.upper maps into LRAPSI) x input affine "
        "P*R*diag(zooms)+translation with P one of the 48 signed permutations, R a product of <= 2 rational (Pythagorean) rotations, "
        "zooms = common denominator x power of two (all entries integers/dyadic) x 3-5 D shape with sizes 1..4, unique voxel values, "
        "several dtypes and memory layouts; error: strings of length 0-4 over LRAPSIlrapsi, junk, <3-D arrays, non-4x4 affines. "
        "non-trivial = the transform is not the identity, or an error branch is taken")
TRUSTED_BASE = [
    "Orient/Model.v is a hand transliteration of dcmstack.reorder_voxels / ornt_transform / axcodes2ornt and of nibabel 5.4.2 "
    "io_orientation / apply_orientation / inv_ornt_aff / ornt2axcodes (tied by this correspondence)",
    "numpy flip/transpose views are modelled as index maps (tabulate); numpy itself is not modelled",
    "io_orientation: the SVD/polar-factor step is replaced by R := column-normalised matrix (exact for mutually orthogonal columns); "
    "comparisons are made on squares in Q",
    "str.upper is modelled exactly only on the characters whose upper-casing lies inside LRAPSI (a-z, U+00DF, U+0131, U+017F; "
    "the harness re-checks this table against the running CPython over all code points)",
]
ASSUMPTIONS = [
    "well-formed arrays: len(data) = prod(shape) (hypothesis wf_arr of C17_data)",
    "correspondence domain of io_orientation: the 3x3 part of the affine has mutually orthogonal columns (rotation x zooms x signed "
    "permutation, or a zero column) and no comparison made by the greedy argmax is within floating-point noise of a tie; shear is outside",
    "C17_codes is stated for `unambiguous` affines (each column has a strictly dominant row, rows distinct); for other affines only "
    "C17_data / C17_affine / C17_errors apply",
    "affine entries and voxel sizes are integers or dyadic rationals of moderate size, so numpy's float arithmetic is exact",
    "inputs-not-modified and view/aliasing behaviour are observed by the harness only (structural in the functional model)",
    "a valid code on a >=3-D array with a 4x4 affine can still raise ValueError when the affine has no complete orientation "
    "(zero column): the property is silent there, the model agrees with the code",
]

NAME = "main"
CORR_REQUIRE = "From DV Require Import Orient.Model Orient.Corr."
CORR_CASE_TYPE = "Corr.case"
CORR_CHECK = "Corr.check"
CORR_SHOW = "Corr.show"
SHARD = 120
IMPL_TIMEOUT = 20

LETTERS = "LRAPSI"
AXIS = {'L': 0, 'R': 0, 'A': 1, 'P': 1, 'S': 2, 'I': 2}
CODES48 = [''.join(t) for t in itertools.product(LETTERS, repeat=3) if sorted(AXIS[c] for c in t) == [0, 1, 2]]
LOWER_ALT = {'L': ['l'], 'R': ['r'], 'A': ['a'], 'P': ['p'], 'S': ['s', 'ſ'], 'I': ['i', 'ı']}
PERMS = list(itertools.permutations(range(3)))
SIGNS = list(itertools.product([1, -1], repeat=3))
PYTH = [(3, 4, 5), (4, 3, 5), (5, 12, 13), (12, 5, 13), (40, 9, 41), (24, 7, 25), (60, 11, 61), (21, 20, 29), (20, 21, 29),
        (84, 13, 85), (15, 8, 17), (119, 120, 169), (120, 119, 169), (4, 3, 5), (21, 20, 29)]
DTYPES = ['int64', 'int32', 'int16', 'uint8', 'float32', 'float64']
LAYOUTS = ['C', 'F', 'neg', 'sub']

# -------------------------------------------------------------------------------------------- exact helpers


def code_valid(code):
    u = code.upper()
    return len(u) == 3 and all(c in AXIS for c in u) and sorted(AXIS[c] for c in u) == [0, 1, 2]


def fr(x):
    return Fraction(x)


def mat_fr(m):
    return [[Fraction(x) for x in row] for row in m]


def mmul(a, b):
    return [[sum(a[i][k] * b[k][j] for k in range(len(b))) for j in range(len(b[0]))] for i in range(len(a))]


def signed_perm(perm, signs):
    """3x3 matrix with entry signs[j] at (perm[j], j)."""
    return [[signs[j] if perm[j] == i else 0 for j in range(3)] for i in range(3)]


def rot(axis, c, s, d):
    """integer matrix d * rotation about `axis` with cos = c/d, sin = s/d"""
    i, j = [(1, 2), (0, 2), (0, 1)][axis]
    m = [[d if r == q else 0 for q in range(3)] for r in range(3)]
    m[i][i], m[i][j], m[j][i], m[j][j] = c, -s, s, c
    return m


def dominant_rows(a3, margin=Fraction(1, 10 ** 6)):
    """rows strictly dominating each column (relative margin), or None"""
    rows = []
    for j in range(3):
        sq = [a3[i][j] ** 2 for i in range(3)]
        d = max(range(3), key=lambda i: sq[i])
        if sq[d] == 0 or any(i != d and sq[i] * (1 + margin) >= sq[d] for i in range(3)):
            return None
        rows.append(d)
    return rows


def is_unambiguous(a3):
    r = dominant_rows(a3)
    return r is not None and len(set(r)) == 3


def greedy_robust(a3, margin=Fraction(1, 10 ** 6)):
    """nibabel's greedy io_orientation in exact arithmetic; None when a comparison is closer than `margin` (relative)"""
    n = [sum(a3[i][j] ** 2 for i in range(3)) for j in range(3)]
    if any(x == 0 for x in n):
        return None
    r2 = [[a3[i][j] ** 2 / n[j] for j in range(3)] for i in range(3)]
    strength = [max(r2[i][j] for i in range(3)) for j in range(3)]
    for j in range(3):
        for k in range(j + 1, 3):
            if abs(strength[j] - strength[k]) <= margin:
                return None
    order = sorted(range(3), key=lambda j: -strength[j])
    zeroed, out = set(), [None] * 3
    for j in order:
        col = [Fraction(0) if i in zeroed else r2[i][j] for i in range(3)]
        d = max(range(3), key=lambda i: col[i])
        if col[d] <= Fraction(1, 10 ** 6):
            return None
        if any(i != d and col[i] * (1 + margin) >= col[d] for i in range(3)):
            return None
        out[j] = d
        zeroed.add(d)
    return out


def in_model_domain(a3):
    return is_unambiguous(a3) or greedy_robust(a3) is not None


# ------------------------------------------------------------------------------------------------ generators

def _shape(rng, tier, small=False):
    nd = rng.choice([3, 3, 3, 4, 4, 5])
    while True:
        sh = [rng.choice([1, 2, 2, 3, 3, 4]) for _ in range(nd)]
        if small:
            sh = [min(x, 3) for x in sh]
        n = math.prod(sh)
        if n <= (96 if small else 400):
            return sh


def _data(rng, n, dtype):
    hi = {'uint8': 255, 'int16': 30000}.get(dtype, 10 ** 6)
    if n > hi:
        raise ValueError
    base = rng.randrange(0, hi - n + 1) if dtype == 'uint8' else rng.randrange(-hi // 2, hi // 2 - n)
    vals = list(range(base, base + n))
    rng.shuffle(vals)
    return vals


def _case_letters(rng, code):
    r = rng.random()
    if r < 0.4:
        return code
    if r < 0.6:
        return code.lower()
    return ''.join(rng.choice(LOWER_ALT[c] + [c, c.lower()]) if rng.random() < 0.6 else c for c in code)


def _affine(rng, perm, signs, nrot):
    """P * R * diag(zooms) + translation, all entries integers or dyadic; returns (4x4 list of floats, kind)"""
    for _ in range(20):
        m = [[1 if i == j else 0 for j in range(3)] for i in range(3)]
        den = 1
        for _k in range(nrot):
            c, s, d = rng.choice(PYTH)
            if rng.random() < 0.5:
                s = -s
            if rng.random() < 0.2:
                c = -c
            m = mmul(m, rot(rng.randrange(3), c, s, d))
            den *= d
        m = mmul(signed_perm(perm, signs), m)
        zooms = [Fraction(2) ** rng.choice([-2, -1, 0, 0, 1, 2]) * rng.choice([1, 1, 3, 5]) for _ in range(3)]
        a3 = [[Fraction(m[i][j]) * zooms[j] for j in range(3)] for i in range(3)]
        if in_model_domain(a3):
            break
        nrot = max(0, nrot - 1)
    tr = [Fraction(rng.randrange(-400, 400), rng.choice([1, 2, 4, 8])) for _ in range(3)]
    aff = [[float(a3[i][j]) for j in range(3)] + [float(tr[i])] for i in range(3)] + [[0.0, 0.0, 0.0, 1.0]]
    for i in range(3):
        for j in range(3):
            assert Fraction(aff[i][j]) == a3[i][j]
    kind = 'axis-aligned' if nrot == 0 else ('oblique-unambiguous' if is_unambiguous(a3) else 'oblique-greedy')
    return aff, kind


def _valid_case(rng, tier, code, perm, signs, nrot):
    dtype = rng.choice(DTYPES)
    while True:
        sh = _shape(rng, tier)
        try:
            data = _data(rng, math.prod(sh), dtype)
            break
        except ValueError:
            continue
    aff, kind = _affine(rng, perm, signs, nrot)
    return {"kind": kind, "shape": sh, "data": data, "dtype": dtype, "layout": rng.choice(LAYOUTS),
            "aff": aff, "code": _case_letters(rng, code)}


def _err_base(rng):
    sh = [rng.choice([1, 2, 3]), rng.choice([1, 2]), rng.choice([1, 2, 3])]
    n = math.prod(sh)
    p, s = rng.choice(PERMS), rng.choice(SIGNS)
    aff, _ = _affine(rng, p, s, 0)
    return {"shape": sh, "data": list(range(1, n + 1)), "dtype": 'int64', "layout": 'C', "aff": aff}


def gen_cases(rng, tier):
    cases = []
    orients = [(p, s) for p in PERMS for s in SIGNS]          # the 48 axis-aligned orientations
    # --- valid stream
    if tier == 'thorough':
        pairs = [(c, o) for c in CODES48 for o in orients]
        n_obl = 3000
    else:
        pairs = []
        os_ = orients[:]
        rng.shuffle(os_)
        for i, c in enumerate(CODES48):                         # every code and every orientation at least 5 times
            for k in range(5):
                pairs.append((c, os_[(i * 5 + k * 11) % 48]))
        n_obl = 420
    for c, (p, s) in pairs:
        cases.append(_valid_case(rng, tier, c, p, s, 0))
    for _ in range(n_obl):
        p, s = rng.choice(orients)
        cases.append(_valid_case(rng, tier, rng.choice(CODES48), p, s, rng.choice([1, 1, 2])))
    # --- error stream (some of these strings are valid codes: they run as ordinary successes)
    alpha = "LRAPSIlrapsi"
    strings = [''.join(t) for n in range(0, 5) for t in itertools.product(alpha, repeat=n)]
    assert len(strings) == 22621
    if tier != 'thorough':
        short = [s for s in strings if len(s) <= 2]
        strings = (short + rng.sample([s for s in strings if len(s) == 3], 200)
                   + rng.sample([s for s in strings if len(s) == 4], 200))
    for s in strings:
        c = _err_base(rng)
        c.update(kind='string-%d' % len(s), code=s)
        cases.append(c)
    junk = ["RAX", "R A", " RAS", "RAS ", "RÄS", "12S", "ras\n", "ßa", "ßß", "Lß", "ıſl", "raſ", "LPı",
            "ＲＡＳ", "RÅS", "RA\u0000", "ﬁﬂ", "ŉL", "ǰLA", "lpi", "xyz", "r,a,s", "RASRAS", "rrr", "SSS", "LRA", "apa",
            "KAS", "RåS", "\U0001d411AS"]
    for s in junk:
        c = _err_base(rng)
        c.update(kind='junk', code=s)
        cases.append(c)
    for k in range(24 if tier != 'thorough' else 200):           # arrays under 3-D
        c = _err_base(rng)
        c["shape"] = c["shape"][:rng.choice([1, 2, 2])]
        c["data"] = list(range(math.prod(c["shape"])))
        c.update(kind='low-dim', code=_case_letters(rng, rng.choice(CODES48)) if rng.random() < 0.8 else rng.choice(["RA", "LLA", ""]))
        cases.append(c)
    for k in range(24 if tier != 'thorough' else 200):           # affines that are not 4x4
        c = _err_base(rng)
        r, cc = rng.choice([(3, 3), (4, 3), (3, 4), (5, 5), (4, 5), (1, 4), (2, 2), (5, 4)])
        c["aff"] = [[float((i == j) * 2 + (j == cc - 1) * i) for j in range(cc)] for i in range(r)]
        c.update(kind='bad-affine', code=_case_letters(rng, rng.choice(CODES48)) if rng.random() < 0.8 else rng.choice(["RAQ", "SS", "lrap"]))
        cases.append(c)
    for k in range(6):                                           # zero column: no complete orientation
        c = _err_base(rng)
        j = k % 3
        for i in range(3):
            c["aff"][i][j] = 0.0
        c.update(kind='degenerate-affine', code=rng.choice(CODES48))
        cases.append(c)
    return cases


# --------------------------------------------------------------------------------------------- implementation

_UPPER_TABLE_OK = None


def _upper_table_ok():
    """the model's str.upper table: exactly these characters upper-case into LRAPSI"""
    global _UPPER_TABLE_OK
    if _UPPER_TABLE_OK is None:
        want = {ord(c): c.upper() for c in 'lrapsiLRAPSI'}
        want.update({0xdf: 'SS', 0x131: 'I', 0x17f: 'S'})
        got = {}
        for cp in range(0x110000):
            u = chr(cp).upper()
            if all(x in 'LRAPSI' for x in u):
                got[cp] = u
        _UPPER_TABLE_OK = (got == want)
    return _UPPER_TABLE_OK


def _build(case):
    import numpy as np
    sh = tuple(case["shape"])
    base = np.array(case["data"], dtype=case["dtype"]).reshape(sh)
    lay = case.get("layout", 'C')
    if lay == 'F':
        arr = np.asfortranarray(base)
    elif lay == 'neg' and len(sh) >= 1:
        arr = np.ascontiguousarray(base[::-1])[::-1]
    elif lay == 'sub':
        big = np.zeros(tuple(2 * n + 1 for n in sh), dtype=case["dtype"])
        sl = tuple(slice(1, 2 * n + 1, 2) for n in sh)
        big[sl] = base
        arr = big[sl]
    else:
        arr = base
    assert arr.shape == sh and (arr == base).all()
    return arr, np.array(case["aff"], dtype=np.float64)


def _frac(x):
    f = Fraction(float(x))
    return [f.numerator, f.denominator]


def run_impl(case):
    import numpy as np
    import dcmstack
    if not _upper_table_ok():
        return {"crash": "UpperTable", "msg": "str.upper maps a character into LRAPSI that the model's table does not list"}
    arr, aff = _build(case)
    arr0, aff0 = arr.copy(), aff.copy()
    try:
        out, oaff, trans, ornt = dcmstack.reorder_voxels(arr, aff, case["code"])
    except ValueError:
        unchanged = bool(arr.shape == arr0.shape and (arr == arr0).all() and aff.shape == aff0.shape and (aff == aff0).all())
        return {"err": "EValue", "unchanged": unchanged}
    out = np.asarray(out)
    oaff, trans, ornt = np.asarray(oaff, dtype=np.float64), np.asarray(trans, dtype=np.float64), np.asarray(ornt, dtype=np.float64)
    if not (np.isfinite(oaff).all() and np.isfinite(trans).all() and np.isfinite(ornt).all()):
        return {"crash": "NonFinite", "msg": "non-finite value in the returned affine / transform / orientation"}
    if ornt.ndim != 2 or ornt.shape[1] != 2 or not (ornt == np.round(ornt)).all():
        return {"crash": "BadOrnt", "msg": "orientation transform is not an (n,2) integer-valued array: %r" % (ornt.tolist(),)}
    flat = out.ravel()
    if not (flat == np.round(flat)).all():
        return {"crash": "NonIntegerData", "msg": "output voxel values are not the input's integers"}
    unchanged = bool(arr.shape == arr0.shape and arr.dtype == arr0.dtype and (arr == arr0).all()
                     and aff.shape == aff0.shape and (aff == aff0).all())
    return {"shape": [int(x) for x in out.shape], "data": [int(x) for x in flat], "dtype_same": bool(out.dtype == arr0.dtype),
            "aff": [[_frac(x) for x in row] for row in oaff.tolist()] if oaff.ndim == 2 else None,
            "trans": [[_frac(x) for x in row] for row in trans.tolist()] if trans.ndim == 2 else None,
            "ornt": [[int(r[0]), int(r[1])] for r in ornt.tolist()], "unchanged": unchanged}


# ------------------------------------------------------------------------------------------------- Coq literal

def _cnats(l):
    return '[' + '; '.join(str(int(x)) for x in l) + ']%nat' if l else '(@nil nat)'


def _czs(l):
    return '[' + '; '.join(str(int(x)) for x in l) + ']%Z' if l else '(@nil Z)'


def _cmat_f(m):
    return clist(clist(cq(x) for x in row) for row in m) if m else '(@nil (list Q))'


def _cmat_q(m):
    return clist(clist(cq(Fraction(n, d)) for n, d in row) for row in m)


def coq_case(case, obs):
    if 'err' in obs:
        o = 'ObsErr %s' % obs['err'] if obs.get('unchanged', True) else 'ObsErr ECrash'
    elif 'crash' in obs or obs.get('aff') is None or obs.get('trans') is None:
        o = 'ObsErr ECrash'
    else:
        o = 'ObsOk %s %s %s %s %s %s' % (_cnats(obs['shape']), _czs(obs['data']), _cmat_q(obs['aff']), _cmat_q(obs['trans']),
                                        clist('(%d, %d)%%Z' % (r[0], r[1]) for r in obs['ornt']) if obs['ornt'] else '(@nil (Z * Z))',
                                        cbool(obs['unchanged']))
    return 'Corr.Build_case %s %s %s %s (%s)' % (_cnats(case['shape']), _czs(case['data']), _cmat_f(case['aff']), cstr(case['code']), o)


# ------------------------------------------------------------------------------------------------------ oracle

def expected_error(case):
    """True: the property demands ValueError; False: it demands success; None: the property is silent"""
    if not code_valid(case['code']):
        return True
    if len(case['shape']) < 3:
        return True
    aff = case['aff']
    if len(aff) != 4 or any(len(r) != 4 for r in aff):
        return True
    a3 = [[Fraction(aff[i][j]) for j in range(3)] for i in range(3)]
    if any(all(a3[i][j] == 0 for i in range(3)) for j in range(3)):
        return None
    return False


def oracle(case, obs):
    import numpy as np
    exp = expected_error(case)
    if 'crash' in obs:
        return 'raised %s instead of %s: %s' % (obs['crash'], 'ValueError' if exp else 'returning a result', str(obs.get('msg'))[:200])
    if obs.get('unchanged') is False:
        return 'the input array or affine was modified by the call'
    if 'err' in obs:
        if exp is False:
            return 'ValueError raised for a valid request (code %r, shape %r)' % (case['code'], case['shape'])
        return None
    if exp is True:
        return 'no ValueError for an invalid request (code %r, shape %r, affine %dx%s)' % (
            case['code'], case['shape'], len(case['aff']), len(case['aff'][0]) if case['aff'] else 0)
    # ---- success: same image
    sh_in, sh_out = tuple(case['shape']), tuple(obs['shape'])
    if obs.get('aff') is None or obs.get('trans') is None:
        return 'returned affine / transform is not a matrix'
    T = [[Fraction(n, d) for n, d in row] for row in obs['trans']]
    A2 = [[Fraction(n, d) for n, d in row] for row in obs['aff']]
    A = mat_fr(case['aff'])
    if len(T) != 4 or any(len(r) != 4 for r in T):
        return 'the returned transform is not 4x4'
    if mmul(A, T) != A2:
        return 'output affine differs from input affine . transform'
    if any(x.denominator != 1 for row in T for x in row) or T[3] != [0, 0, 0, 1]:
        return 'the returned transform does not map voxel indices to voxel indices'
    if len(sh_out) != len(sh_in) or sh_out[3:] != sh_in[3:] or math.prod(sh_out) != math.prod(sh_in):
        return 'output shape %r is not a reordering of the first three axes of %r' % (sh_out, sh_in)
    n = math.prod(sh_out)
    if len(obs['data']) != n:
        return 'output data size differs from its shape'
    if n:
        Tn = np.array([[int(x) for x in row] for row in T], dtype=np.int64)
        idx = np.indices(sh_out).reshape(len(sh_out), -1)
        src3 = Tn[:3, :3] @ idx[:3] + Tn[:3, 3:4]
        src = np.concatenate([src3, idx[3:]], axis=0)
        lim = np.array(sh_in, dtype=np.int64).reshape(-1, 1)
        if (src < 0).any() or (src >= lim).any():
            return 'the transform maps an output index outside the input array'
        flat_src = np.ravel_multi_index(tuple(src), sh_in)
        if len(np.unique(flat_src)) != n:
            return 'the transform is not a bijection of the index spaces'
        din = np.array(case['data'], dtype=np.int64)
        dout = np.array(obs['data'], dtype=np.int64)
        if not (dout == din[flat_src]).all():
            k = int(np.nonzero(dout != din[flat_src])[0][0])
            return 'output voxel %r = %d but the transform maps it to input voxel %r = %d' % (
                tuple(int(x) for x in idx[:, k]), int(dout[k]), tuple(int(x) for x in src[:, k]), int(din[flat_src[k]]))
    # ---- orientation codes (unambiguous inputs only)
    a3 = [[A[i][j] for j in range(3)] for i in range(3)]
    if is_unambiguous(a3):
        import nibabel as nb
        got = nb.aff2axcodes(np.array([[float(x) for x in row] for row in A2]))
        want = tuple(case['code'].upper())
        if tuple(got) != want:
            return 'output axes are oriented %s, requested %s' % (''.join(str(g) for g in got), ''.join(want))
    return None


def signature(case, obs, msg):
    for key, sig in [('instead of', 'wrong-exception'), ('modified', 'inputs-modified'), ('ValueError raised', 'valid-rejected'),
                     ('no ValueError', 'invalid-accepted'), ('output affine differs', 'affine'), ('oriented', 'codes'),
                     ('output voxel', 'data'), ('bijection', 'data'), ('outside the input', 'data'), ('shape', 'shape')]:
        if key in msg:
            return sig
    return 'other'


def nontrivial(case, obs):
    if 'err' in obs or 'crash' in obs:
        return True
    return obs.get('ornt') != [[0, 1], [1, 1], [2, 1]]


def shrink(case):
    sh = case['shape']
    for i in range(len(sh)):
        if sh[i] > 1:
            c = dict(case)
            c['shape'] = sh[:i] + [sh[i] - 1] + sh[i + 1:]
            c['data'] = list(range(1, math.prod(c['shape']) + 1))
            c['dtype'], c['layout'] = 'int64', 'C'
            yield c
    if len(sh) > 3:
        c = dict(case)
        c['shape'] = sh[:-1]
        c['data'] = list(range(1, math.prod(c['shape']) + 1))
        c['dtype'], c['layout'] = 'int64', 'C'
        yield c
    if case.get('dtype') != 'int64' or case.get('layout') != 'C':
        c = dict(case)
        c['dtype'], c['layout'] = 'int64', 'C'
        c['data'] = list(range(1, math.prod(sh) + 1))
        yield c
    aff = case['aff']
    if len(aff) == 4 and all(len(r) == 4 for r in aff) and any(aff[i][3] != 0 for i in range(3)):
        c = dict(case)
        c['aff'] = [[aff[i][j] if j < 3 or i == 3 else 0.0 for j in range(4)] for i in range(4)]
        yield c
    if case['code'] != case['code'].upper() and len(case['code'].upper()) == len(case['code']):
        c = dict(case)
        c['code'] = case['code'].upper()
        yield c
