"""C17 -- dcmstack.reorder_voxels returns the same image in the requested orientation.

One part.  A case is {kind, shape, data, dtype, layout, aff, code}:
  vox_array = np.array(data, dtype).reshape(shape) (laid out per `layout`), affine = np.array(aff), voxel_order = code.
Valid stream: ALL 48 codes x ALL 48 axis-aligned orientations (every tier), plus codes (random ASCII letter case) x oblique
column-orthogonal affines with integer/dyadic entries (every float operation of the implementation is exact) x 3-5 D
shapes with extents 1..33, unique voxel values.
Error stream: all strings of length 0-4 over LRAPSIlrapsi (quick: length <= 2 + a sample), junk characters, arrays
under 3-D, non-4x4 affines.

What is judged is what the property text states and nothing else (audit 2):
  * the code alphabet is the six letters l r a p s i in either ASCII case.  Non-ASCII characters that some Unicode case
    mapping sends into the alphabet (U+017F, U+0131, U+00DF ...) are neither generated nor judged;
  * the fourth return value (ornt_trans) and the dtype of the output are not mentioned by the property: not observed;
  * "closest anatomical directions of the output axes" is computed by the oracle itself, exactly, from the generator's
    affine and the returned transform (never through nibabel's io_orientation, which is what the code under test uses);
    affines are generated only where every reasonable reading of "closest" agrees (see `closest_axes`);
  * a 4x4 affine with a zero column is not generated: the property is silent about it.
"""
import os, itertools, math
from fractions import Fraction
from vlib.coqlit import *

ID = "C17"
COQ_PROPS = "Props/C17.v"
COQ_EXTRA_TARGETS = ["Orient/Corr.vo"]      # the correspondence glue is not a dependency of the theorems
THEOREMS = ["C17_data", "C17_affine", "C17_codes", "C17_axis_aligned", "C17_errors"]
ALLOWED_AXIOMS = []
RULE = ("valid: all 48 codes x all 48 signed-permutation orientations (2304 pairs, every tier) + requested code (48, random ASCII letter case) "
        "x input affine P*R*diag(zooms)+translation with P one of the 48 signed permutations, R a product of <= 2 rational (Pythagorean) "
        "rotations, zooms = common denominator x power of two (all entries integers/dyadic) x 3-5 D shape with extents 1..33, unique voxel "
        "values, several dtypes and memory layouts; error: strings of length 0-4 over LRAPSIlrapsi, junk, <3-D arrays, non-4x4 affines. "
        "non-trivial = the returned transform is not the identity, or an error raised after the length test of the code "
        "(a wrong letter / repeated axis / bad array / bad affine)")
TRUSTED_BASE = [
    "Orient/Model.v is a hand transliteration of dcmstack.reorder_voxels / ornt_transform / axcodes2ornt and of nibabel 5.4.2 "
    "io_orientation / apply_orientation / inv_ornt_aff / ornt2axcodes (tied by this correspondence)",
    "numpy flip/transpose views are modelled as index maps (tabulate); numpy itself is not modelled",
    "io_orientation: the SVD/polar-factor step is replaced by R := column-normalised matrix (exact for mutually orthogonal columns); "
    "comparisons are made on squares in Q",
    "str.upper is modelled on a-z and on U+00DF, U+0131, U+017F; the correspondence only uses codes made of ASCII characters and of "
    "non-ASCII characters that no case mapping sends into LRAPSI (where any reading of 'case-insensitively' gives the same answer)",
]
ASSUMPTIONS = [
    "well-formed arrays: len(data) = prod(shape) (hypothesis wf_arr of C17_data)",
    "correspondence domain of io_orientation: the 3x3 part of the affine has mutually orthogonal columns (rotation x zooms x signed "
    "permutation, or a zero column) and no comparison made by the greedy argmax is within floating-point noise of a tie; shear is outside",
    "C17_codes is stated for `unambiguous` affines (each column has a strictly dominant row, rows distinct). The harness additionally "
    "judges the orientation of oblique affines whose dominant rows collide, when the greedy strongest-first assignment and the "
    "assignment maximising the sum of |cosines| agree with a margin (otherwise 'closest' is ambiguous and the affine is not generated)",
    "the code alphabet is l r a p s i in either ASCII case; codes containing a non-ASCII character that a Unicode case mapping sends "
    "into the alphabet are outside the judged domain; ornt_trans (4th return value) and the output dtype are not part of the property",
    "affine entries and voxel sizes are integers or dyadic rationals of moderate size, so numpy's float arithmetic is exact",
    "inputs-not-modified and view/aliasing behaviour are observed by the harness only (structural in the functional model)",
    "a valid code on a >=3-D array with a 4x4 affine can still raise ValueError when the affine has no complete orientation "
    "(zero column): the property is silent there; such affines are not generated and not judged",
]

NAME = "main"
CORR_REQUIRE = "From DV Require Import Orient.Model Orient.Corr."
CORR_CASE_TYPE = "Corr.case"
CORR_CHECK = "Corr.check"
CORR_SHOW = "Corr.show"
SHARD = 120
IMPL_TIMEOUT = 20

LETTERS = "LRAPSI"
AXIS = {'L': 0, 'R': 0, 'A': 1, 'P': 1, 'S': 2, 'I': 2}
CODES48 = [''.join(t) for t in itertools.product(LETTERS, repeat=3) if sorted(AXIS[c] for c in t) == [0, 1, 2]]
PERMS = list(itertools.permutations(range(3)))
SIGNS = list(itertools.product([1, -1], repeat=3))
PYTH = [(3, 4, 5), (4, 3, 5), (5, 12, 13), (12, 5, 13), (40, 9, 41), (24, 7, 25), (60, 11, 61), (21, 20, 29), (20, 21, 29),
        (84, 13, 85), (15, 8, 17), (119, 120, 169), (120, 119, 169), (4, 3, 5), (21, 20, 29)]
DTYPES = ['int64', 'int32', 'int16', 'uint8', 'float32', 'float64']
LAYOUTS = ['C', 'F', 'neg', 'sub']

# -------------------------------------------------------------------------------------------- exact helpers


def ascii_upper(code):
    """case folding of the code alphabet: ASCII only (the property's alphabet is l r a p s i in either case)"""
    return ''.join(chr(ord(c) - 32) if 'a' <= c <= 'z' else c for c in code)


def _maps_into_alphabet(c):
    return any(m and all(x in 'LRAPSIlrapsi' for x in m) for m in (c.upper(), c.lower(), c.casefold()))


def code_status(code):
    """True = valid, False = invalid, None = the property is silent (a non-ASCII character that some case mapping
    sends into the alphabet: 'case-insensitively' can be read either way)"""
    if any(ord(c) > 127 and _maps_into_alphabet(c) for c in code):
        return None
    u = ascii_upper(code)
    return len(u) == 3 and all(c in AXIS for c in u) and sorted(AXIS[c] for c in u) == [0, 1, 2]


def code_valid(code):
    return code_status(code) is True


def fr(x):
    return Fraction(x)


def mat_fr(m):
    return [[Fraction(x) for x in row] for row in m]


def mmul(a, b):
    return [[sum(a[i][k] * b[k][j] for k in range(len(b))) for j in range(len(b[0]))] for i in range(len(a))]


def signed_perm(perm, signs):
    """3x3 matrix with entry signs[j] at (perm[j], j)."""
    return [[signs[j] if perm[j] == i else 0 for j in range(3)] for i in range(3)]


def rot(axis, c, s, d):
    """integer matrix d * rotation about `axis` with cos = c/d, sin = s/d"""
    i, j = [(1, 2), (0, 2), (0, 1)][axis]
    m = [[d if r == q else 0 for q in range(3)] for r in range(3)]
    m[i][i], m[i][j], m[j][i], m[j][j] = c, -s, s, c
    return m


def dominant_rows(a3, margin=Fraction(1, 10 ** 6)):
    """rows strictly dominating each column (relative margin), or None"""
    rows = []
    for j in range(3):
        sq = [a3[i][j] ** 2 for i in range(3)]
        d = max(range(3), key=lambda i: sq[i])
        if sq[d] == 0 or any(i != d and sq[i] * (1 + margin) >= sq[d] for i in range(3)):
            return None
        rows.append(d)
    return rows


def is_unambiguous(a3):
    r = dominant_rows(a3)
    return r is not None and len(set(r)) == 3


def greedy_robust(a3, margin=Fraction(1, 10 ** 6)):
    """nibabel's greedy io_orientation in exact arithmetic; None when a comparison is closer than `margin` (relative)"""
    n = [sum(a3[i][j] ** 2 for i in range(3)) for j in range(3)]
    if any(x == 0 for x in n):
        return None
    r2 = [[a3[i][j] ** 2 / n[j] for j in range(3)] for i in range(3)]
    strength = [max(r2[i][j] for i in range(3)) for j in range(3)]
    for j in range(3):
        for k in range(j + 1, 3):
            if abs(strength[j] - strength[k]) <= margin:
                return None
    order = sorted(range(3), key=lambda j: -strength[j])
    zeroed, out = set(), [None] * 3
    for j in order:
        col = [Fraction(0) if i in zeroed else r2[i][j] for i in range(3)]
        d = max(range(3), key=lambda i: col[i])
        if col[d] <= Fraction(1, 10 ** 6):
            return None
        if any(i != d and col[i] * (1 + margin) >= col[d] for i in range(3)):
            return None
        out[j] = d
        zeroed.add(d)
    return out


def best_assignment(a3, margin=1e-6):
    """rows (per column) of the signed permutation closest to the column-normalised matrix: maximises the sum of
    |cosines|; None when the runner-up is within `margin`"""
    n = [math.sqrt(float(sum(a3[i][j] ** 2 for i in range(3)))) for j in range(3)]
    if any(x == 0 for x in n):
        return None
    cos = [[abs(float(a3[i][j])) / n[j] for j in range(3)] for i in range(3)]
    scored = sorted(((sum(cos[p[j]][j] for j in range(3)), p) for p in itertools.permutations(range(3))), reverse=True)
    if scored[0][0] - scored[1][0] <= margin:
        return None
    return list(scored[0][1])


POS_LETTER, NEG_LETTER = 'RAS', 'LPI'


def closest_axes(a3):
    """The closest anatomical direction of every voxel axis, as a 3-letter string, computed exactly from the 3x3 part;
    None when 'closest' is ambiguous.  Defined when each column has a strictly dominant row and the rows differ, or
    else when the strongest-first greedy assignment and the best global assignment agree (both with a margin)."""
    rows = dominant_rows(a3)
    if rows is None or len(set(rows)) != 3:
        g = greedy_robust(a3)
        if g is None or best_assignment(a3) != g:
            return None
        rows = g
    return ''.join((POS_LETTER if a3[rows[j]][j] > 0 else NEG_LETTER)[rows[j]] for j in range(3))


def in_model_domain(a3):
    return closest_axes(a3) is not None


# ------------------------------------------------------------------------------------------------ generators

def _shape(rng, tier, small=False):
    if small:                         # the exhaustive code x orientation table: small anisotropic volumes
        sh = list(rng.choice([(1, 2, 3), (2, 3, 4), (2, 2, 3), (1, 1, 2), (3, 5, 2), (2, 3, 1)]))
        rng.shuffle(sh)
        return sh + ([2] if rng.random() < 0.15 else [])
    nd = rng.choice([3, 3, 3, 4, 4, 5])
    while True:
        sh = [rng.choice([1, 2, 2, 3, 3, 4, 5, 6, 7, 9]) for _ in range(nd)]
        if rng.random() < 0.25:       # one long axis
            sh[rng.randrange(nd)] = rng.choice([8, 11, 16, 17, 32, 33])
        n = math.prod(sh)
        if n <= 640:
            return sh


def _data(rng, n, dtype):
    hi = {'uint8': 255, 'int16': 30000}.get(dtype, 10 ** 6)
    if n > hi:
        raise ValueError
    base = rng.randrange(0, hi - n + 1) if dtype == 'uint8' else rng.randrange(-hi // 2, hi // 2 - n)
    vals = list(range(base, base + n))
    rng.shuffle(vals)
    return vals


def _case_letters(rng, code):
    r = rng.random()
    if r < 0.4:
        return code
    if r < 0.6:
        return code.lower()
    return ''.join(c.lower() if rng.random() < 0.5 else c for c in code)


def _affine(rng, perm, signs, nrot):
    """P * R * diag(zooms) + translation, all entries integers or dyadic; returns (4x4 list of floats, kind)"""
    for _ in range(20):
        m = [[1 if i == j else 0 for j in range(3)] for i in range(3)]
        den = 1
        for _k in range(nrot):
            c, s, d = rng.choice(PYTH)
            if rng.random() < 0.5:
                s = -s
            if rng.random() < 0.2:
                c = -c
            m = mmul(m, rot(rng.randrange(3), c, s, d))
            den *= d
        m = mmul(signed_perm(perm, signs), m)
        zooms = [Fraction(2) ** rng.choice([-2, -1, 0, 0, 1, 2]) * rng.choice([1, 1, 3, 5]) for _ in range(3)]
        a3 = [[Fraction(m[i][j]) * zooms[j] for j in range(3)] for i in range(3)]
        if in_model_domain(a3):
            break
        nrot = max(0, nrot - 1)
    tr = [Fraction(rng.randrange(-400, 400), rng.choice([1, 2, 4, 8])) for _ in range(3)]
    aff = [[float(a3[i][j]) for j in range(3)] + [float(tr[i])] for i in range(3)] + [[0.0, 0.0, 0.0, 1.0]]
    for i in range(3):
        for j in range(3):
            assert Fraction(aff[i][j]) == a3[i][j]
    kind = 'axis-aligned' if nrot == 0 else ('oblique-unambiguous' if is_unambiguous(a3) else 'oblique-greedy')
    return aff, kind


def _valid_case(rng, tier, code, perm, signs, nrot, small=False):
    dtype = rng.choice(DTYPES)
    while True:
        sh = _shape(rng, tier, small)
        try:
            data = _data(rng, math.prod(sh), dtype)
            break
        except ValueError:
            continue
    aff, kind = _affine(rng, perm, signs, nrot)
    if small:
        kind = 'pair-table'
    return {"kind": kind, "shape": sh, "data": data, "dtype": dtype, "layout": rng.choice(LAYOUTS),
            "aff": aff, "code": _case_letters(rng, code)}


def _err_base(rng):
    sh = [rng.choice([1, 2, 3]), rng.choice([1, 2]), rng.choice([1, 2, 3])]
    n = math.prod(sh)
    p, s = rng.choice(PERMS), rng.choice(SIGNS)
    aff, _ = _affine(rng, p, s, 0)
    return {"shape": sh, "data": list(range(1, n + 1)), "dtype": 'int64', "layout": 'C', "aff": aff}


def gen_cases(rng, tier):
    cases = []
    orients = [(p, s) for p in PERMS for s in SIGNS]          # the 48 axis-aligned orientations
    # --- valid stream
    for c in CODES48:                                           # all 2304 code x orientation pairs, every tier
        for (p, s) in orients:
            cases.append(_valid_case(rng, tier, c, p, s, 0, small=True))
    pairs = []
    os_ = orients[:]
    rng.shuffle(os_)
    for i, c in enumerate(CODES48):                             # the same on larger anisotropic 3-5 D volumes
        for k in range(5 if tier != 'thorough' else 48):
            pairs.append((c, os_[(i * 5 + k * 11) % 48]))
    n_obl = 420 if tier != 'thorough' else 3000
    for c, (p, s) in pairs:
        cases.append(_valid_case(rng, tier, c, p, s, 0))
    for _ in range(n_obl):
        p, s = rng.choice(orients)
        cases.append(_valid_case(rng, tier, rng.choice(CODES48), p, s, rng.choice([1, 1, 2])))
    # --- error stream (some of these strings are valid codes: they run as ordinary successes)
    alpha = "LRAPSIlrapsi"
    strings = [''.join(t) for n in range(0, 5) for t in itertools.product(alpha, repeat=n)]
    assert len(strings) == 22621
    if tier != 'thorough':
        short = [s for s in strings if len(s) <= 2]
        strings = (short + rng.sample([s for s in strings if len(s) == 3], 200)
                   + rng.sample([s for s in strings if len(s) == 4], 200))
    for s in strings:
        c = _err_base(rng)
        c.update(kind='string-%d' % len(s), code=s)
        cases.append(c)
    junk = ["RAX", "R A", " RAS", "RAS ", "R\u00c4S", "12S", "ras\n", "RA\u030aS", "RA\u0000", "lpi", "xyz", "r,a,s", "RASRAS", "rrr",
            "SSS", "LRA", "apa", "KAS", "R\u00e5S", "R\u00e9S", "RA5", "ra-", "\tAS", "LP\u042f", "\u65e5AS", "R_S", "sal", "IPL", "LAZ", "raS"]
    assert all(code_status(j) is not None for j in junk)          # no character whose case mapping is debatable
    for s in junk:
        c = _err_base(rng)
        c.update(kind='junk', code=s)
        cases.append(c)
    for k in range(24 if tier != 'thorough' else 200):           # arrays under 3-D
        c = _err_base(rng)
        c["shape"] = c["shape"][:rng.choice([1, 2, 2])]
        c["data"] = list(range(math.prod(c["shape"])))
        c.update(kind='low-dim', code=_case_letters(rng, rng.choice(CODES48)) if rng.random() < 0.8 else rng.choice(["RA", "LLA", ""]))
        cases.append(c)
    for k in range(24 if tier != 'thorough' else 200):           # affines that are not 4x4
        c = _err_base(rng)
        r, cc = rng.choice([(3, 3), (4, 3), (3, 4), (5, 5), (4, 5), (1, 4), (2, 2), (5, 4)])
        c["aff"] = [[float((i == j) * 2 + (j == cc - 1) * i) for j in range(cc)] for i in range(r)]
        c.update(kind='bad-affine', code=_case_letters(rng, rng.choice(CODES48)) if rng.random() < 0.8 else rng.choice(["RAQ", "SS", "lrap"]))
        cases.append(c)
    # --- error conditions combined with a request that is a NO-OP (the code equals the orientation the affine already
    #     has) and with its mirror image: a short-cut for "nothing to do" must not skip the checks.  Systematic:
    #     every one of the 48 orientations x {0-, 1-, 2-D arrays, non-4x4 affines} x {upper, lower case}.
    for (p, sg) in orients:
        aff, _k = _affine(rng, p, sg, 0)
        same = closest_axes([[Fraction(aff[i][j]) for j in range(3)] for i in range(3)])
        assert same in CODES48
        for nd in (0, 1, 2):
            for code in (same, same.lower()):
                sh = [rng.choice([1, 2, 3]) for _ in range(nd)]
                cases.append({"kind": 'low-dim-noop-%dD' % nd, "shape": sh, "data": list(range(3, 3 + math.prod(sh))),
                              "dtype": rng.choice(['int64', 'float64', 'int16']), "layout": 'C', "aff": aff, "code": code})
        shapes = [(3, 3), (4, 3), (3, 4), (5, 5), (4, 5), (5, 4), (3, 5)]
        rng.shuffle(shapes)
        for (r, cc) in shapes[:3 if tier != 'thorough' else 7]:
            big = [[(aff[i][j] if i < 4 and j < 4 else float(i == j)) for j in range(5)] for i in range(5)]
            c = _err_base(rng)
            c["aff"] = [row[:cc] for row in big[:r]]
            c.update(kind='bad-affine-noop', code=same if rng.random() < 0.5 else same.lower())
            cases.append(c)
        # a 3-D array whose request is a no-op but whose code is spelled with a wrong / repeated letter
        for bad in (same[:2], same + same[0], same[0] + same[0] + same[2], same[:2] + 'X'):
            c = _err_base(rng)
            c["aff"] = aff
            c.update(kind='bad-code-near-noop', code=bad if rng.random() < 0.5 else bad.lower())
            cases.append(c)
    return cases


# --------------------------------------------------------------------------------------------- implementation

def _build(case):
    import numpy as np
    sh = tuple(case["shape"])
    base = np.array(case["data"], dtype=case["dtype"]).reshape(sh)
    lay = case.get("layout", 'C')
    if lay == 'F':
        arr = np.asfortranarray(base)
    elif lay == 'neg' and len(sh) >= 1:
        arr = np.ascontiguousarray(base[::-1])[::-1]
    elif lay == 'sub':
        big = np.zeros(tuple(2 * n + 1 for n in sh), dtype=case["dtype"])
        sl = tuple(slice(1, 2 * n + 1, 2) for n in sh)
        big[sl] = base
        arr = big[sl]
    else:
        arr = base
    assert arr.shape == sh and (arr == base).all()
    return arr, np.array(case["aff"], dtype=np.float64)


def _frac(x):
    f = Fraction(float(x))
    return [f.numerator, f.denominator]


def run_impl(case):
    import numpy as np
    import dcmstack
    arr, aff = _build(case)
    arr0, aff0 = arr.copy(), aff.copy()
    try:
        res = dcmstack.reorder_voxels(arr, aff, case["code"])
        out, oaff, trans = res[0], res[1], res[2]          # res[3] (ornt_trans) is not part of the property
    except ValueError:                                     # the class the property names (subclasses included)
        unchanged = bool(arr.shape == arr0.shape and (arr == arr0).all() and aff.shape == aff0.shape and (aff == aff0).all())
        return {"err": "EValue", "unchanged": unchanged}
    out = np.asarray(out)
    oaff, trans = np.asarray(oaff, dtype=np.float64), np.asarray(trans, dtype=np.float64)
    flat = out.ravel()
    if not (np.isfinite(oaff).all() and np.isfinite(trans).all()) or not (np.isfinite(flat.astype(np.float64)).all()
                                                                           and (flat == np.round(flat)).all()):
        # cannot be written as exact rationals / integers: reported by the oracle as a wrong result, not as a crash
        return {"bad": "non-finite entry in the returned affine / transform, or a non-integer output voxel",
                "shape": [int(x) for x in out.shape], "unchanged": True}
    unchanged = bool(arr.shape == arr0.shape and arr.dtype == arr0.dtype and (arr == arr0).all()
                     and aff.shape == aff0.shape and (aff == aff0).all())
    return {"shape": [int(x) for x in out.shape], "data": [int(x) for x in flat],
            "aff": [[_frac(x) for x in row] for row in oaff.tolist()] if oaff.ndim == 2 else None,
            "trans": [[_frac(x) for x in row] for row in trans.tolist()] if trans.ndim == 2 else None,
            "unchanged": unchanged}


# ------------------------------------------------------------------------------------------------- Coq literal

def _cnats(l):
    return '[' + '; '.join(str(int(x)) for x in l) + ']%nat' if l else '(@nil nat)'


def _czs(l):
    return '[' + '; '.join(str(int(x)) for x in l) + ']%Z' if l else '(@nil Z)'


def _cmat_f(m):
    return clist(clist(cq(x) for x in row) for row in m) if m else '(@nil (list Q))'


def _cmat_q(m):
    return clist(clist(cq(Fraction(n, d)) for n, d in row) for row in m)


def coq_case(case, obs):
    if 'err' in obs:
        o = 'ObsErr %s' % obs['err'] if obs.get('unchanged', True) else 'ObsErr ECrash'
    elif 'crash' in obs or 'bad' in obs or obs.get('aff') is None or obs.get('trans') is None:
        o = 'ObsErr ECrash'
    else:
        o = 'ObsOk %s %s %s %s %s' % (_cnats(obs['shape']), _czs(obs['data']), _cmat_q(obs['aff']), _cmat_q(obs['trans']),
                                     cbool(obs['unchanged']))
    return 'Corr.Build_case %s %s %s %s (%s)' % (_cnats(case['shape']), _czs(case['data']), _cmat_f(case['aff']), cstr(case['code']), o)


# ------------------------------------------------------------------------------------------------------ oracle
# Independent of the Coq model and of nibabel: everything is recomputed, exactly, from the generator's case.

def expected_error(case):
    """True: the property demands ValueError; False: it demands success; None: the property is silent"""
    st = code_status(case['code'])
    if st is False:
        return True
    if len(case['shape']) < 3:
        return True
    aff = case['aff']
    if len(aff) != 4 or any(len(r) != 4 for r in aff):
        return True
    if st is None:
        return None
    a3 = [[Fraction(aff[i][j]) for j in range(3)] for i in range(3)]
    if any(all(a3[i][j] == 0 for i in range(3)) for j in range(3)):
        return None
    return False


def oracle(case, obs):
    """message '[clause] text' when the property fails on this case, else None"""
    import numpy as np
    exp = expected_error(case)
    if 'crash' in obs:
        return '[exception] raised %s instead of %s: %s' % (
            obs['crash'], 'ValueError' if exp else 'returning a result', str(obs.get('msg'))[:200])
    msgs = []
    if obs.get('unchanged') is False:
        msgs.append('[inputs] the input array or affine was modified by the call')
    if 'err' in obs:
        if exp is False:
            msgs.append('[rejected] ValueError raised for a valid request (code %r, %d-D array, 4x4 affine)' % (case['code'], len(case['shape'])))
        return msgs[0] if msgs else None
    if exp is True:
        msgs.append('[accepted] no ValueError for an invalid request (code %r, %d-D array, affine %dx%s)' % (
            case['code'], len(case['shape']), len(case['aff']), len(case['aff'][0]) if case['aff'] else 0))
        return msgs[0]
    if exp is None:
        return msgs[0] if msgs else None
    # ---- success on a valid request: same image
    if 'bad' in obs:
        return '[data] ' + obs['bad']
    if obs.get('aff') is None or obs.get('trans') is None:
        return '[affine] returned affine / transform is not a matrix'
    sh_in, sh_out = tuple(case['shape']), tuple(obs['shape'])
    T = [[Fraction(n, d) for n, d in row] for row in obs['trans']]
    A2 = [[Fraction(n, d) for n, d in row] for row in obs['aff']]
    A = mat_fr(case['aff'])
    if len(T) != 4 or any(len(r) != 4 for r in T):
        return '[transform] the returned transform is not 4x4'
    AT = mmul(A, T)
    if AT != A2:
        msgs.append('[affine] output affine differs from input affine . returned transform')
    if any(x.denominator != 1 for row in T for x in row) or T[3] != [0, 0, 0, 1]:
        msgs.append('[transform] the returned transform does not map voxel indices to voxel indices')
    elif len(sh_out) != len(sh_in) or sh_out[3:] != sh_in[3:] or math.prod(sh_out) != math.prod(sh_in):
        msgs.append('[shape] output shape %r is not a reordering of the first three axes of %r (extra dimensions untouched)' % (sh_out, sh_in))
    elif len(obs['data']) != math.prod(sh_out):
        msgs.append('[shape] output data size differs from its shape')
    elif math.prod(sh_out):
        n = math.prod(sh_out)
        Tn = np.array([[int(x) for x in row] for row in T], dtype=np.int64)
        idx = np.indices(sh_out).reshape(len(sh_out), -1)
        src3 = Tn[:3, :3] @ idx[:3] + Tn[:3, 3:4]
        src = np.concatenate([src3, idx[3:]], axis=0)
        lim = np.array(sh_in, dtype=np.int64).reshape(-1, 1)
        if (src < 0).any() or (src >= lim).any():
            msgs.append('[data] the returned transform maps an output index outside the input array')
        else:
            flat_src = np.ravel_multi_index(tuple(src), sh_in)
            din = np.array(case['data'], dtype=np.int64)
            dout = np.array(obs['data'], dtype=np.int64)
            if len(np.unique(flat_src)) != n:
                msgs.append('[data] the returned transform is not a bijection of the index spaces')
            elif not (dout == din[flat_src]).all():
                k = int(np.nonzero(dout != din[flat_src])[0][0])
                msgs.append('[data] output voxel %r = %d but the transform maps it to input voxel %r = %d' % (
                    tuple(int(x) for x in idx[:, k]), int(dout[k]), tuple(int(x) for x in src[:, k]), int(din[flat_src[k]])))
    # ---- orientation: closest anatomical direction of every output axis, from the generator's affine and the
    #      returned transform, in exact arithmetic (independent of nibabel's io_orientation)
    spelled = closest_axes([[AT[i][j] for j in range(3)] for i in range(3)])
    want = ascii_upper(case['code'])
    if spelled is not None and spelled != want:
        msgs.append('[codes] the output axes point to %s, requested %s' % (spelled, want))
    return msgs[0] if msgs else None


def signature(case, obs, msg):
    """the clause of the property that failed (the tag the oracle itself put in front of its message)"""
    if msg.startswith('[') and ']' in msg:
        return msg[1:msg.index(']')]
    return 'other'


def nontrivial(case, obs):
    if 'crash' in obs:
        return True
    if 'err' in obs:                       # an error raised after the length test of the code: wrong letter, repeated
        return len(ascii_upper(case['code'])) == 3      # axis, array under 3-D, affine not 4x4
    ident = [[[int(i == j), 1] for j in range(4)] for i in range(4)]
    return obs.get('trans') != ident


def shrink(case):
    """smaller cases inside the same domain (the driver keeps a candidate only when it fails with the same signature)"""
    sh = case['shape']
    for i in range(len(sh)):
        if sh[i] > 1:
            c = dict(case)
            c['shape'] = sh[:i] + [max(1, sh[i] // 2)] + sh[i + 1:]
            c['data'] = list(range(1, math.prod(c['shape']) + 1))
            c['dtype'], c['layout'] = 'int64', 'C'
            yield c
    if len(sh) > 3:
        c = dict(case)
        c['shape'] = sh[:-1]
        c['data'] = list(range(1, math.prod(c['shape']) + 1))
        c['dtype'], c['layout'] = 'int64', 'C'
        yield c
    if case.get('dtype') != 'int64' or case.get('layout') != 'C':
        c = dict(case)
        c['dtype'], c['layout'] = 'int64', 'C'
        c['data'] = list(range(1, math.prod(sh) + 1))
        yield c
    aff = case['aff']
    if len(aff) == 4 and all(len(r) == 4 for r in aff) and any(aff[i][3] != 0 for i in range(3)):
        c = dict(case)
        c['aff'] = [[aff[i][j] if j < 3 or i == 3 else 0.0 for j in range(4)] for i in range(4)]
        yield c
    if case['code'] != ascii_upper(case['code']):
        c = dict(case)
        c['code'] = ascii_upper(case['code'])
        yield c
